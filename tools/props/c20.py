"""C20 — observed bus traffic is reported once, decoded in context, paired up.

Trace validation: the REAL `hid.tridonic` bus watcher (and the LUBA / SCI
receivers) run in a virtual-time loop on generated traffic histories; what the
subscribers were told is compared with the Lean state machine (`watch`, model
vs code) and with the declarative reading of the same history
(`specwatch` = Spec.Transactions.reports, the property oracle).  Decoding uses
the real `dali.command.from_frame` on both sides; only the *context* (which
device type, which pairing) comes from the model / specification."""
from common import exc_name  # noqa: E402
import asyncio

from common import Model
import asyncsim_watch as sim
from asyncsim_watch import cmds as cmdlib

ID = "C20"
MODULE = "DaliVerif.Props.C20"
EXES = ["m_watch", "m_cmd"]
GEN = True
THEOREMS = ["watch_refines", "each_forward_frame_once_in_order", "devicetype_only_from_immediate_predecessor",
            "query_paired", "query_unanswered_on_forward", "twice_good_iff_identical_repeat_in_time",
            "fanout", "unsubscribe_local", "subscribe_local", "fanout_from", "serial_refines", "serial_each_frame_once_in_order", "run_append",
            "other_length_is_not_a_repeat", "keyed_registry_refines", "live_keys_distinct", "keyed_fanout",
            "keysFresh_of_injective"]
TRUSTED = ["hand-written model Model/BusWatch.lean of tridonic._bus_watch, the serial receivers' observed-frame "
           "path and the two subscriber registries, tied by trace validation of the real drivers in virtual time",
           "Spec/Transactions.lean: the reading of a packet history as bus transactions (the meaning of the property)",
           "dali.command.from_frame is used as the decoder on both sides (abstract parameter `dec` of the theorems)",
           "virtual-time event loop + fake hidraw / serial transport (tools/asyncsim_watch)"]
ASSUMPTIONS = ["a gap is the time between two consecutive gateway packets (ignored packets included): the watcher "
               "restarts its 200 ms timer on every packet",
               "gateway packets are well formed (frame bytes fit the reported width); a malformed one ends the "
               "watch task with ValueError (modelled by `classify`, not by `step`)",
               "subscribers join / leave between loop iterations (a callback already scheduled by call_soon is "
               "still delivered)",
               "keyed_registry_refines / live_keys_distinct: the key of an object handed to add_handler / del_handler "
               "differs from the key of every other object registered at that moment (KeysFresh: CPython's id-derived "
               "hash of objects alive at the same time)"]
PARTIAL = ("watch_refines is proved for every history about the state machine `step`; that the real task + 200 ms "
           "timer produce exactly the wake-up sequence `events h` is validated on the generated histories (gaps on "
           "both sides of the time-out), not proved; asyncio timer/queue semantics are assumed. DistributorQueue "
           "children are never unsubscribed by `del` (the parent keeps a strong reference, so __del__ cannot run "
           "while the parent lives) - unsubscribe is `parent.del_handler(child)`.")

_PROC = [None]


def ask(line):
    if _PROC[0] is None:
        _PROC[0] = Model("m_watch").start()
    return _PROC[0].ask(line)


# ---------------------------------------------------------------------------
# decoding (real from_frame) and canonical forms

DECODE_FAILURES = []


class Decoder:
    def __init__(self, ids, dev_inst_map=None):
        self.ids = ids
        self.map = dev_inst_map
        self.cache = {}

    def cmd(self, bits, data, dt):
        from dali import command, frame
        k = (bits, data, dt)
        if k not in self.cache:
            try:
                self.cache[k] = command.from_frame(frame.ForwardFrame(bits, data), devicetype=dt,
                                                   dev_inst_map=self.map)
            except Exception as e:  # noqa
                # "decoded in context": decoding an observed frame never fails (C01).  Kept for correspond() to
                # report with the frame; the history goes on with the generic command the library returns for
                # frames it does not know, so that what the DRIVER does with such a frame is still observed
                DECODE_FAILURES.append((bits, data, dt, exc_name(e)))
                self.cache[k] = command.Command(frame.ForwardFrame(bits, data))
        return self.cache[k]

    def info(self, bits, data, dt):
        from dali.gear.general import EnableDeviceType
        c = self.cmd(bits, data, dt)
        edt = str(c.param) if isinstance(c, EnableDeviceType) else "-"
        return "%d,%s,%s" % (1 if c.sendtwice else 0, self.ids.tok(c.response), edt)

    def token(self, bits, data, dts):
        return "F.%d.%d.%s" % (bits, data, "/".join("%d=%s" % (dt, self.info(bits, data, dt)) for dt in dts))


def canon_cmd(c):
    return "%s|%s" % (type(c).__module__ + "." + type(c).__qualname__, str(c))


def canon_real_report(command, response, err):
    f = command.frame
    if response is None:
        r = "-"
    else:
        rv = response.raw_value
        o = "s" if rv is None else (("f%d" if rv.error else "v%d") % rv.as_integer)
        r = "%s:%s" % (type(response).__name__, o)
    return (len(f), f.as_integer, canon_cmd(command), r, bool(err))


def canon_model_report(tok, dec):
    bits, data, dt, resp, err = tok.split(".")
    c = dec.cmd(int(bits), int(data), int(dt))
    if resp == "-":
        r = "-"
    else:
        r = "%s:%s" % (c.response.__name__ if c.response else "NOCLASS", resp)
    return (int(bits), int(data), canon_cmd(c), r, err == "1")


# ---------------------------------------------------------------------------
# traffic alphabet

class Alphabet:
    def __init__(self, rng, found):
        self.rng = rng
        groups = {}
        for cls, c in found.items():
            key = (len(c.frame), c.response is not None, bool(c.sendtwice), c.devicetype)
            groups.setdefault(key, []).append(c)
        self.groups = groups
        self.plain16 = [c for k, v in groups.items() for c in v if k[0] == 16 and not k[1] and not k[2] and k[3] == 0]
        self.query16 = [c for k, v in groups.items() for c in v if k[0] == 16 and k[1] and k[3] == 0]
        self.twice16 = [c for k, v in groups.items() for c in v if k[0] == 16 and k[2] and k[3] == 0]
        self.ext = [c for k, v in groups.items() for c in v if k[0] == 16 and k[3] != 0]
        self.plain24 = [c for k, v in groups.items() for c in v if k[0] == 24 and not k[1] and not k[2]]
        self.query24 = [c for k, v in groups.items() for c in v if k[0] == 24 and k[1]]
        self.twice24 = [c for k, v in groups.items() for c in v if k[0] == 24 and k[2]]

    def fr(self, c):
        return (len(c.frame), c.frame.as_integer)

    def readdress(self, f):
        """the same command to another short address (16-bit standard commands)"""
        bits, data = f
        if bits == 16 and (data >> 8) == 0x01 and self.rng.random() < 0.5:
            return (16, ((self.rng.randrange(64) << 1 | 1) << 8) | (data & 0xFF))
        return f

    def unknown(self):
        r = self.rng
        return r.choice([(16, 0xA000 | r.randrange(256)), (16, 0xCD00 | r.randrange(256)),
                         (16, 0xA100 | r.randrange(1, 256)), (24, 0xFFFE00 | r.randrange(0x60, 0x100)),
                         (24, 0xC10000 | r.randrange(1 << 16)), (16, r.randrange(1 << 16)),
                         (24, r.randrange(1 << 24))])

    def event(self):
        r = self.rng
        # 24-bit frames with bit 16 clear are event messages
        return (24, r.randrange(1 << 24) & ~(1 << 16))

    def plain(self):
        r = self.rng
        return self.readdress(self.fr(r.choice(self.plain16 if r.random() < 0.7 else self.plain24)))

    def query(self):
        r = self.rng
        return self.readdress(self.fr(r.choice(self.query16 if r.random() < 0.7 else self.query24)))

    def twice(self):
        r = self.rng
        return self.readdress(self.fr(r.choice(self.twice16 if r.random() < 0.7 else self.twice24)))

    def edt(self, n):
        return (16, 0xC100 | n)


SHORT = [0.0, 0.004, 0.05, 0.19, 0.199]
LONG = [0.201, 0.21, 0.5, 1.3]


def gen_history(rng, al, maxtx):
    """a script: list of ('gap', seconds) | ('fwd', bits, data) | ('back', b) | ('err',) | ('nf',) |
    ('other', variant) | ('own', command, bus) | ('sub', i) | ('unsub', i)"""
    s = []

    def gap(p_long=0.3):
        s.append(("gap", rng.choice(LONG) if rng.random() < p_long else rng.choice(SHORT)))

    def fwd(f):
        s.append(("fwd", f[0], f[1]))
    for _ in range(rng.randrange(1, maxtx + 1)):
        gap(0.4)
        if rng.random() < 0.25:
            # "oneshot": a subscriber that unsubscribes itself from INSIDE its callback, on the first report it gets
            s.append(rng.choice([("sub", rng.randrange(3)), ("unsub", rng.randrange(3)),
                                 ("oneshot", rng.randrange(3))]))
        k = rng.random()
        if k < 0.10:
            fwd(al.plain())
        elif k < 0.30:      # query + answer / silence / framing error / "no frame" / interrupted
            fwd(al.query())
            kk = rng.random()
            if kk < 0.35:
                gap()
                s.append(("back", rng.randrange(256)))
            elif kk < 0.5:
                gap()
                s.append(("err",))
            elif kk < 0.6:
                gap()
                s.append(("nf",))
            elif kk < 0.7:
                gap(0.1)
                s.append(("other", rng.randrange(4)))
                gap(0.1)
                s.append(("back", rng.randrange(256)))
        elif k < 0.50:      # configuration command: twice in time / late / once / interrupted / answered
            f = al.twice()
            fwd(f)
            kk = rng.random()
            if kk < 0.45:
                gap()
                fwd(f)
            elif kk < 0.6:
                gap()
                fwd(al.twice() if rng.random() < 0.5 else al.plain())
            elif kk < 0.7:
                gap()
                s.append(("back", rng.randrange(256)))
            elif kk < 0.8:
                gap()
                s.append(("nf",))
            elif kk < 0.85:
                gap(0)
                s.append(("other", rng.randrange(4)))
                gap(0)
                fwd(f)
            elif kk < 0.93:
                # seen ONCE, then a frame of the OTHER length with the same value (01 20 / 00 01 20):
                # not a repeat, and the second frame is a transaction of its own
                gap()
                fwd(lookalike(f))
                if rng.random() < 0.4:
                    gap()
                    fwd(f)
        elif k < 0.68:      # ENABLE DEVICE TYPE + application extended command
            c = rng.choice(al.ext)
            n = c.devicetype if rng.random() < 0.8 else rng.choice([0, 1, 6, 8, 255])
            fwd(al.edt(n))
            kk = rng.random()
            if kk < 0.2:
                gap()
                fwd(al.plain())          # something else in between: the device type is forgotten
            elif kk < 0.3:
                gap()
                s.append(("back", 7))    # a stray backward frame does not cancel it
            elif kk < 0.4:
                gap()
                fwd(al.edt(rng.choice([1, 6, 8])))
            gap()
            fwd(al.fr(c))
            if c.response is not None and rng.random() < 0.6:
                gap()
                s.append(("back", rng.randrange(256)))
            elif c.sendtwice and rng.random() < 0.6:
                gap()
                fwd(al.fr(c))
        elif k < 0.76:
            fwd(al.event())
        elif k < 0.86:
            fwd(al.unknown())
        elif k < 0.90:
            s.append(rng.choice([("back", rng.randrange(256)), ("err",), ("nf",), ("other", rng.randrange(4))]))
        else:               # the driver's own send
            c = rng.choice(al.plain16 + al.query16 + al.twice16 + al.ext + al.query24 + al.twice24)
            bus = rng.choice(["s", "g", "v%d" % rng.randrange(256)]) if c.response is not None else "s"
            s.append(("own", c, bus))
    return s


def lookalike(f):
    """the frame of the other length whose `as_integer` is the same (16-bit AA BB <-> 24-bit 00 AA BB;
    a 24-bit frame that does not start with 00 loses its first byte: same trailing bytes)"""
    bits, data = f
    return (24, data) if bits == 16 else (16, data & 0xFFFF)


OTHERS = [(0x11, 0x77, (0, 0, 0, 4)), (0x11, 0x77, (0, 0, 0, 2)), (0x11, 0x74, (0, 0, 0, 0)), (0x11, 0x79, (1, 2, 3, 3))]


# how the gateway labels what it reports: 0x11 = observed traffic; 0x12 = "my own transmission", here under a sequence
# number no caller waits for (0) - what the gateway sends about a frame whose caller has gone (cancelled send) and,
# by the firmware quirk the driver documents, about another master's frame equal to its last transmission.
# Both kinds are bus traffic and go to the subscribers alike.
RAW_MODE = [0x11]


def raw_of(step):
    k = step[0]
    mode = RAW_MODE[0]
    if k == "fwd":
        return sim.tri_packet(mode, 0x73 if step[1] == 16 else 0x76, sim.frame4(step[1], step[2]))
    if k == "back":
        return sim.tri_packet(mode, 0x72, (0, 0, 0, step[1]))
    if k == "err":
        return sim.tri_packet(mode, 0x77, (0, 0, 0, 3))
    if k == "nf":
        return sim.tri_packet(mode, 0x71)
    if k == "other":
        m, t, f = OTHERS[step[1]]
        return sim.tri_packet(m, t, f)
    raise AssertionError(k)


# ---------------------------------------------------------------------------
# one history on the real driver

async def run_history(loop, script, dev_inst_map, tail):
    ts = await sim.TriSim(dev_inst_map=dev_inst_map).start()
    d = ts.d
    evlog = []                 # 'S.i' / 'U.i' / 'M.k' in real order
    reports = []               # what the permanent probe subscriber saw
    objs = []
    seen = {0: [], 1: [], 2: []}
    handles = {}

    def probe(drv, command, response, err):
        evlog.append("M.%d" % len(reports))
        mtimes.append(loop.time())
        reports.append(canon_real_report(command, response, err))
        objs.append((id(command), id(response), err))
        keep.append((command, response))      # keep the objects alive so that their ids stay unique
    keep = []
    mtimes, utimes = [], {}    # virtual time of every delivery to the probe / of a one-shot subscriber's leaving
    d.bus_traffic.register(probe)

    def mk(i):
        def cb(drv, command, response, err):
            seen[i].append((id(command), id(response), err))
        return cb

    def close_window(i):
        # deliveries that were under way when slot i left can only arrive before the slot is taken again
        if utimes.get(i) and utimes[i][-1][2] is None:
            utimes[i][-1][2] = len(seen[i])

    def mk_oneshot(i):
        def cb(drv, command, response, err):
            seen[i].append((id(command), id(response), err))
            if i in handles:
                # leaves while the report is being handed round: the subscribers after it must still get it
                handles.pop(i).unregister()
                evlog.append("U.%d" % i)
                utimes.setdefault(i, []).append([loop.time(), len(seen[i]), None])
        return cb

    def responder(data):
        if data[0] != 0x12:
            return
        seq, ctrl, mode, fr = data[1], data[2], data[3], data[4:8]
        echo = sim.tri_packet(0x12, 0x73 if mode == 3 else 0x76, tuple(fr), seq)
        t = 0.017
        loop.call_later(t, ts.deliver, echo)
        if ctrl & 0x20:
            t += 0.033
            loop.call_later(t, ts.deliver, echo)
        bus = responder.bus if fr == responder.frame else "s"
        fin = {"s": sim.tri_packet(0x12, 0x71, (0, 0, 0, 0), seq),
               "g": sim.tri_packet(0x12, 0x77, (0, 0, 0, 3), seq)}.get(bus)
        if fin is None:
            fin = sim.tri_packet(0x12, 0x72, (0, 0, 0, int(bus[1:])), seq)
        loop.call_later(t + 0.012, ts.deliver, fin)
    responder.bus, responder.frame = "s", None
    ts.fos.on_write = responder
    own_results = []
    for step in script:
        k = step[0]
        if k == "gap":
            if step[1] > 0:
                await asyncio.sleep(step[1])
            else:
                await sim.settle(1)
        elif k == "sub":
            await sim.settle(4)
            if step[1] not in handles:
                close_window(step[1])
                handles[step[1]] = d.bus_traffic.register(mk(step[1]))
                evlog.append("S.%d" % step[1])
        elif k == "unsub":
            await sim.settle(4)
            if step[1] in handles:
                handles.pop(step[1]).unregister()
                evlog.append("U.%d" % step[1])
        elif k == "oneshot":
            await sim.settle(4)
            if step[1] not in handles:
                close_window(step[1])
                handles[step[1]] = d.bus_traffic.register(mk_oneshot(step[1]))
                evlog.append("S.%d" % step[1])
        elif k == "own":
            c, bus = step[1], step[2]
            responder.bus, responder.frame = bus, bytes(c.frame.pack_len(4))
            try:
                r = await d.send(c)
                own_results.append((c, bus, r))
            except Exception as e:  # noqa
                own_results.append((c, bus, e))
        else:
            ts.deliver(raw_of(step))
    await sim.settle(6)

    def locals_of():
        """the watch task's memory (pending command, remembered device type) - an INTERNAL of the driver, compared
        with the model's state when it can be found: as locals of the task's coroutine (the historical shape), as
        attributes of an object held in a local of that coroutine or of a coroutine it awaits; otherwise 'unknown'
        and only the reports (what subscribers see) are compared"""
        co = d._bus_watch_task.get_coro()
        if co.cr_frame is None:
            return ("dead", "dead")
        seen = 0
        while co is not None and seen < 6 and getattr(co, "cr_frame", None) is not None:
            loc = co.cr_frame.f_locals
            holders = [loc] + [vars(v) for v in loc.values()
                               if hasattr(v, "__dict__") and not isinstance(v, type) and v is not d
                               and "current_command" in vars(v) and "devicetype" in vars(v)]
            for h in holders:
                if "current_command" in h and "devicetype" in h:
                    cur = h["current_command"]
                    return ((len(cur.frame), cur.frame.as_integer) if cur is not None else None, h["devicetype"])
            co = getattr(co, "cr_await", None)
            seen += 1
        return ("unknown", "unknown")
    snap = (list(reports), locals_of(), loop.time())
    if tail:
        await asyncio.sleep(1.0)
        await sim.settle(6)
    final = (list(reports), locals_of(), loop.time())
    per_sub = {}
    index = {o: n for n, o in enumerate(objs)}
    for i, lst in seen.items():
        per_sub[i] = [index.get(o, -1) for o in lst]
    # A subscriber that leaves from inside its callback may still be handed reports that had been emitted before
    # it left (its deliveries were already under way): those are the ones the probe was given at the very same
    # virtual instant.  They are dropped from its list here, so that the registry law is judged on what was
    # emitted while it was subscribed; anything handed to it at a LATER instant stays and is a violation.
    for i, leaves in utimes.items():
        for t_left, n_then, n_end in reversed(leaves):
            surplus = 0
            for k in per_sub[i][n_then:n_end]:
                if 0 <= k < len(mtimes) and mtimes[k] == t_left:
                    surplus += 1
                else:
                    break
            del per_sub[i][n_then:n_then + surplus]
    return ts.log, snap, final, evlog, per_sub, own_results


def items_of(log, end_time, timeout_s, dec, extra_dts):
    """the packet log as model tokens: gaps where consecutive packets are more than the time-out apart"""
    toks = []
    prev = None
    for t, raw in log:
        if prev is not None and t - prev > timeout_s:
            toks.append("GAP")
        prev = t
        cls = ask("classify %d %d %d %d %d %d" % (raw[0], raw[1], raw[2], raw[3], raw[4], raw[5]))
        if not cls.startswith("ok "):
            toks.append("BAD")
            continue
        p = cls[3:]
        if p.startswith("F."):
            _, bits, data = p.split(".")
            toks.append(dec.token(int(bits), int(data), extra_dts))
        else:
            toks.append(p)
    if prev is not None and end_time - prev > timeout_s:
        toks.append("GAP")
    return toks


def dts_in(log):
    """device types that can possibly be remembered: parameters of every C1 xx frame seen"""
    dts = {0}
    for t, raw in log:
        if raw[1] == 0x73 and raw[4] == 0xC1:
            dts.add(raw[5])
    return sorted(dts)


def split_reports(ans):
    body = ans[3:] if ans.startswith("ok ") else ans
    left, _, right = body.partition(" | ")
    return left.split(), right.strip()


def check_history(ctx, corr, ids, script, dev_inst_map, timeout_s, label):
    tail = True
    log, snap, final, evlog, per_sub, own = sim.run(run_history, script, dev_inst_map, tail)
    dec = Decoder(ids, dev_inst_map)
    dts = dts_in(log)
    pretty = describe(script)
    for name, (reports, state, end) in (("snapshot", snap), ("final", final)):
        toks = items_of(log, end, timeout_s, dec, dts)
        if "BAD" in toks:
            corr.disagree("watch_trace", {"history": pretty}, "well-formed packets", "classify raised")
            return
        mline = "watch " + " ".join("T" if t == "GAP" else t for t in toks)
        sline = "specwatch " + " ".join("G" if t == "GAP" else t for t in toks)
        m = ask(mline)
        sp = ask(sline)
        if not m.startswith("ok") or not sp.startswith("ok"):
            corr.disagree("watch_trace", {"history": pretty, "line": mline}, m, sp)
            return
        mrep, mstate = split_reports(m)
        srep, stx = split_reports(sp)
        want_m = [canon_model_report(t, dec) for t in mrep]
        want_s = [canon_model_report(t, dec) for t in srep]
        # model vs code: reports and the two local variables of the watch task
        cur, dt = state
        mcur = mstate.split()[0]
        mstate_cmp = "cur=%s %s" % ("-" if mcur == "cur=-" else ".".join(mcur[4:].split(".")[:2]), mstate.split()[1])
        if cur == "unknown":
            real_state = mstate_cmp          # the task keeps its memory somewhere this harness cannot see
            corr.bump("watch-state-not-visible")
        elif cur == "dead":
            real_state = "the bus-watch task has ended"
            corr.violate("watch:task-dead", {"history": pretty, "observed_until": name},
                         "the bus-watch task runs as long as the driver is connected", "it ended (an exception "
                         "escaped it): no frame observed from now on will ever be reported",
                         "observed traffic must be reported for the whole session")
        else:
            real_state = "cur=%s dt=%s" % ("-" if cur is None else "%d.%d" % cur, dt)
        if want_m != reports or mstate_cmp != real_state:
            corr.disagree("watch_trace", {"history": pretty, "at": name, "line": mline},
                          {"reports": want_m, "state": mstate_cmp}, {"reports": reports, "state": real_state})
        # oracle: code vs the declarative reading of the history
        if want_s != reports:
            k = 0
            while k < min(len(want_s), len(reports)) and want_s[k] == reports[k]:
                k += 1
            kinds = [t for t in stx.split() if t not in ("stray", "pending")]
            kind = kinds[k] if k < len(kinds) else "extra"
            corr.violate("watch:" + kind.split(":")[0], {"history": pretty, "observed_until": name},
                         [str(x) for x in want_s], [str(x) for x in reports],
                         "subscribers were not told what the history, read as bus transactions, says (first difference at report %d)" % k)
        for t in stx.split():
            corr.bump("txn:" + t)
            corr.nontrivial(("txn", t, label))
    # registry: who received what
    line = " ".join(evlog)
    if evlog:
        m = ask("reg " + line)
        sp = ask("specreg " + line)
        real = " ".join("%d=%s" % (i, ",".join(str(x) for x in per_sub[i]))
                        for i in dedupe([int(e[2:]) for e in evlog if e.startswith("S.")]))
        if m != "ok " + real and not (m == "ok" and real == ""):
            corr.disagree("watch_registry", {"events": line}, m, real)
        if sp != "ok " + real and not (sp == "ok" and real == ""):
            corr.violate("watch:fanout", {"history": pretty, "registry_events": line}, sp, real,
                         "a subscriber did not receive exactly the reports emitted while it was subscribed")
    # the driver's own sends still get their own answers (C16 on the same trace)
    for c, bus, r in own:
        ok = (r is None) if c.response is None else (
            isinstance(r, c.response) and (
                (bus == "s" and r.raw_value is None) or
                (bus == "g" and r.raw_value is not None and r.raw_value.error) or
                (bus[0] == "v" and r.raw_value is not None and not r.raw_value.error
                 and r.raw_value.as_integer == int(bus[1:]))))
        if not ok:
            corr.violate("watch:own-send", {"history": pretty, "command": str(c), "bus": bus}, bus, str(r),
                         "the driver's own send, interleaved with observed traffic, returned the wrong answer")
    corr.count("traces", 1)
    corr.count("watch_trace", 1)


def dedupe(l):
    out = []
    for x in l:
        if x not in out:
            out.append(x)
    return out


def describe(script):
    out = []
    for s in script:
        if s[0] == "gap":
            out.append("+%dms" % round(s[1] * 1000))
        elif s[0] == "fwd":
            out.append("fwd%d:%0*x" % (s[1], s[1] // 4, s[2]))
        elif s[0] == "own":
            out.append("own-send(%s,%s)" % (s[1].frame, s[2]))
        else:
            out.append(":".join(str(x) for x in s))
    if RAW_MODE[0] != 0x11:
        out.insert(0, "[every packet labelled mode %#x (own transmission), sequence number 0]" % RAW_MODE[0])
    return " ".join(out)


# ---------------------------------------------------------------------------
# classification of raw reports, tied exhaustively through the watcher

def suite_classify(ctx, corr, ids, timeout_s):
    """every report type x status byte x origin, placed after a pending query:
    what the watcher makes of it shows how it classified the packet"""
    q = (16, 0x0190)
    origins = [0x11, 0x12, 0x01, 0x13, 0x00]
    f3s = range(256) if ctx.thorough else [0, 1, 2, 3, 4, 5, 0x90, 255]
    n = 0
    for origin in origins:
        for rt in range(256):
            for f3 in f3s:
                if origin == 0x01:
                    continue      # an INFO report is consumed by the connection handshake, never queued
                raw = sim.tri_packet(origin, rt, (0, 0, 1 if rt in (0x73, 0x76) else 0, f3))
                script = [("fwd",) + q, ("gap", 0.01), ("raw", raw)]
                n += 1
                yield script
    if ctx.thorough:
        corr.exhaustive["report type x status byte x origin through the watcher"] = True


# ---------------------------------------------------------------------------
# serial receivers

def serial_suite(ctx, corr, ids, al):
    rng = ctx.rng
    n = 1500 if ctx.thorough else 250
    for kind in ("luba", "sci"):
        for _ in range(n):
            frames = []
            for _ in range(rng.randrange(1, 10)):
                k = rng.random()
                if k < 0.3:
                    c = rng.choice(al.ext)
                    frames.append(al.edt(c.devicetype if rng.random() < 0.8 else rng.choice([0, 1, 6, 8])))
                    if rng.random() < 0.3:
                        frames.append(al.unknown())
                    frames.append(al.fr(c))
                elif k < 0.5:
                    frames.append(al.unknown())
                elif k < 0.6:
                    frames.append(al.event())
                else:
                    frames.append(rng.choice([al.plain, al.query, al.twice])())
            script = []
            for f in frames:
                if rng.random() < 0.2:
                    script.append(rng.choice([("sub", rng.randrange(3)), ("unsub", rng.randrange(3))]))
                if rng.random() < 0.2:
                    script.append(("back", rng.randrange(256)))
                if rng.random() < 0.1:
                    script.append(("noise",))
                script.append(("fwd",) + f)
            check_serial(ctx, corr, ids, kind, script)


async def run_serial(loop, kind, script, chunk_rng):
    ss = await sim.SerialSim(kind).start()
    d = ss.d
    probe = d.new_dali_rx_queue()
    queues = {}
    evlog = []
    n = 0
    for s in script:
        if s[0] == "sub":
            if s[1] not in queues:
                queues[s[1]] = d.new_dali_rx_queue()
                evlog.append("S.%d" % s[1])
        elif s[0] == "unsub":
            if s[1] in queues and queues[s[1]] is not None and ("U.%d" % s[1]) not in evlog:
                ss.p.queue_rx_dali.del_handler(queues[s[1]])
                evlog.append("U.%d" % s[1])
        elif s[0] == "back":
            ss.rx([s[1]])
        elif s[0] == "noise":
            if kind == "luba":
                ss.feed(bytes([0x00, 0x13, 0x59, 0x99, 0x00]))      # junk, then a frame with an invalid length
            else:
                ss.feed(sim.sci_frame(0x14, 1, 2, 3))              # an eDALI frame: logged, not decoded
        else:
            data = list(s[2].to_bytes(s[1] // 8, "big"))
            raw = sim.luba_rx(data) if kind == "luba" else sim.sci_rx(data)
            chunks = [chunk_rng.randrange(1, 5) for _ in range(12)] if chunk_rng.random() < 0.5 else None
            before = probe.qsize()
            ss.feed(raw, chunks)
            for _ in range(probe.qsize() - before):
                evlog.append("M.%d" % n)
                n += 1
        await sim.settle(1)

    def drain(q):
        out = []
        while not q.empty():
            out.append(q.get_nowait())
        return out
    items = drain(probe)
    index = {id(o): k for k, o in enumerate(items)}
    per_sub = {i: [index.get(id(o), -1) for o in drain(q)] for i, q in queues.items()}
    return items, evlog, per_sub, ss.p._prev_rx_enable_dt


def check_serial(ctx, corr, ids, kind, script):
    items, evlog, per_sub, last_dt = sim.run(run_serial, kind, script, ctx.rng)
    dec = Decoder(ids, None)
    frames = [(s[1], s[2]) for s in script if s[0] == "fwd"]
    dts = sorted({0} | {f[1] & 0xFF for f in frames if f[0] == 16 and (f[1] >> 8) == 0xC1})
    toks = " ".join(dec.token(b, dta, dts) for b, dta in frames)
    m = ask("serial " + toks)
    sp = ask("specserial " + toks)
    real = [(len(c.frame), c.frame.as_integer, canon_cmd(c)) for c in items]

    def want(ans):
        out = []
        for t in ans.split()[1:]:
            b, dta, dt = (int(x) for x in t.split("."))
            out.append((b, dta, canon_cmd(dec.cmd(b, dta, dt))))
        return out
    pretty = describe([s for s in script if s[0] != "noise"])
    if want(m) != real:
        corr.disagree(kind + "_observed", {"history": pretty}, want(m), real)
    if want(sp) != real:
        ws = want(sp)
        k = 0
        while k < min(len(ws), len(real)) and ws[k] == real[k]:
            k += 1
        corr.violate("serial:%s:%s" % (kind, "dropped" if len(real) < len(ws) else "decoded"),
                     {"gateway": kind, "history": pretty}, [str(x) for x in ws], [str(x) for x in real],
                     "observed forward frames are not distributed once, in order, decoded under the device type "
                     "of the immediately preceding frame (first difference at %d)" % k)
    if evlog:
        line = " ".join(evlog)
        realreg = " ".join("%d=%s" % (i, ",".join(str(x) for x in per_sub[i]))
                           for i in dedupe([int(e[2:]) for e in evlog if e.startswith("S.")]))
        m = ask("reg " + line)
        sp = ask("specreg " + line)
        if m.strip() != ("ok " + realreg).strip():
            corr.disagree(kind + "_registry", {"events": line}, m, realreg)
        if sp.strip() != ("ok " + realreg).strip():
            corr.violate("serial:%s:fanout" % kind, {"history": pretty, "registry_events": line}, sp, realreg,
                         "a subscriber queue did not receive exactly the commands distributed while it was subscribed")
    corr.count("traces", 1)
    corr.count(kind + "_observed", 1)
    corr.nontrivial((kind, len(frames), len(evlog) > 0))


# ---------------------------------------------------------------------------
# DistributorQueue: every join / leave order

def join_leave_sequences(slots, length):
    """every sequence of exactly `length` steps over `slots` subscriber slots, up to renaming of slots
    (a slot is first used only after all lower ones).  A slot is absent / subscribed / left:
      J.i  absent -> subscribed   `driver.new_dali_rx_queue()` (a new child object registers itself)
      L.i  subscribed -> left     `parent.del_handler(child)`
      R.i  left -> subscribed     `parent.add_handler(child)` (the same object again)
      D.i  left -> absent         the last reference to the child is dropped (`__del__` runs)
    Every shorter sequence is a prefix of one of these, and a frame is observed after every step."""
    out = []

    def rec(state, seq, used):
        if len(seq) == length:
            out.append(tuple(seq))
            return
        for i in range(slots):
            st = state[i]
            if st == 0:
                if i > used:
                    continue
                opts = "J"
            elif st == 1:
                opts = "L"
            else:
                opts = "RD"
            for o in opts:
                ns = list(state)
                ns[i] = {"J": 1, "L": 2, "R": 1, "D": 0}[o]
                rec(ns, seq + [(o, i)], max(used, i + 1) if o == "J" else used)
    rec([0] * slots, [], 0)
    return out


async def run_join_leave(loop, kind, seq):
    """one join/leave sequence on a fresh driver; a frame is observed after every step"""
    ss = await sim.SerialSim(kind).start()
    d = ss.d
    parent = ss.p.queue_rx_dali
    slot_obj = {}          # slot -> (object number, queue)
    objs = {}              # object number -> queue, while the harness holds it
    got = {}               # object number -> frames received, for dropped objects
    evlog, history, live_after = [], [], []
    keys = {}              # object number -> hash(object)
    nobj = 0

    def drain(q):
        out = []
        while not q.empty():
            c = q.get_nowait()
            out.append((len(c.frame), c.frame.as_integer))
        return out
    frames = []
    for k, (op, i) in enumerate(seq):
        if op == "J":
            q = d.new_dali_rx_queue()
            slot_obj[i] = (nobj, q)
            objs[nobj] = q
            evlog.append("S.%d" % nobj)
            history.append("q%d = new_dali_rx_queue()" % nobj)
            nobj += 1
        elif op == "L":
            n, q = slot_obj[i]
            parent.del_handler(q)
            evlog.append("U.%d" % n)
            history.append("del_handler(q%d)" % n)
        elif op == "R":
            n, q = slot_obj[i]
            parent.add_handler(q)
            evlog.append("S.%d" % n)
            history.append("add_handler(q%d)" % n)
        else:
            n, q = slot_obj.pop(i)
            got[n] = drain(objs.pop(n))
            history.append("q%d dropped" % n)
            del q
        # the parent's handler table (key, child) in its own order (model vs code)
        byid = {id(q): n for n, q in objs.items()}
        for n, q in objs.items():
            keys.setdefault(n, hash(q))
        # (the keyed table is the library's private representation: compared with the keyed model only while it
        # still is a dict of hash -> child; the behavioural comparison below does not depend on it)
        tab = getattr(parent, "_handlers", None)
        if isinstance(tab, dict) and all(isinstance(key, int) for key in tab):
            live_after.append((",".join("%d=%d" % kv for kv in sorted(keys.items())),
                               ",".join("%s:%d" % (key, byid.get(id(h), -1)) for key, h in tab.items())))
        else:
            live_after.append(None)
        f = (24, 0x00F000 + k) if k % 3 == 2 else (16, 0x0200 + k)
        data = list(f[1].to_bytes(f[0] // 8, "big"))
        ss.feed(sim.luba_rx(data) if kind == "luba" else sim.sci_rx(data))
        frames.append(f)
        evlog.append("M.%d" % k)
        history.append("frame %0*x observed" % (f[0] // 4, f[1]))
        await sim.settle(1)
    for n, q in objs.items():
        got[n] = drain(q)
    return evlog, history, live_after, frames, got


def no_subscriber_suite(ctx, corr, ids):
    """LUBA / SCI receive path while NOBODY is subscribed: the forward frames that go by then are not delivered to
    anyone, but they still are what "the immediately preceding frame" means for the next one — an EnableDeviceType
    seen before the first subscriber joined counts for the frame right after it, and a device type is forgotten
    when any other frame went by, observed or not."""
    from dali import command
    from dali.frame import ForwardFrame
    rng = ctx.rng

    async def scenario(loop, kind, steps):
        ss = await sim.SerialSim(kind).start()
        d = ss.d
        queues = []
        for st in steps:
            if st == "join":
                queues.append(d.new_dali_rx_queue())
            elif st == "leave":
                ss.p.queue_rx_dali.del_handler(queues.pop())
            else:
                data = list(st[1].to_bytes(st[0] // 8, "big"))
                ss.feed(sim.luba_rx(data) if kind == "luba" else sim.sci_rx(data))
            await sim.settle(1)
        out = []
        for q in queues:
            got = []
            while not q.empty():
                c = q.get_nowait()
                got.append((len(c.frame), c.frame.as_integer, canon_cmd(c)))
            out.append(got)
        return out

    def edt(dt):
        return (16, 0xC100 | dt)
    n = 0
    for kind in ("luba", "sci"):
        for _ in range(40 if ctx.thorough else 12):
            dt = rng.choice([1, 4, 5, 6, 8])
            ext = (16, (rng.choice([0x01, 0x0B, 0xFF, 0x85]) << 8) | rng.randrange(224, 256))
            other = rng.choice([(16, 0x0280), (24, 0x01FE30), (16, 0xA300), (16, 0x03A0)])
            cases = [
                ("EnableDeviceType seen before the first subscriber joined", [edt(dt), "join", ext], [(ext, dt)]),
                ("subscriber left after EnableDeviceType, another frame went by unobserved",
                 ["join", edt(dt), "leave", other, "join", ext], [(ext, 0)]),
                ("EnableDeviceType and the frame it enabled both unobserved", [edt(dt), ext, "join", ext], [(ext, 0)]),
                ("nobody subscribed at all, then a plain history", [other, "join", edt(dt), ext, ext],
                 [(edt(dt), 0), (ext, dt), (ext, 0)]),
            ]
            for title, steps, expect in cases:
                got = sim.run(scenario, kind, steps)
                want = []
                for (b, v), use_dt in expect:
                    c = command.from_frame(ForwardFrame(b, v), devicetype=use_dt)
                    want.append((b, v, canon_cmd(c)))
                real = got[-1] if got else []
                if real != want:
                    corr.violate("serial:%s:unobserved-predecessor" % kind,
                                 {"gateway": kind, "case": title,
                                  "history": [s if isinstance(s, str) else "%0*x" % (s[0] // 4, s[1]) for s in steps]},
                                 [str(x) for x in want], [str(x) for x in real],
                                 "a frame is decoded under the device type of the immediately preceding frame, whether "
                                 "or not anybody was subscribed when that frame went by")
                n += 1
    corr.count("traces", n)
    corr.count("serial_no_subscriber", n)


def registry_suite(ctx, corr, ids):
    """serial.DistributorQueue through the real LUBA / SCI protocol objects: EVERY join / leave / re-join /
    drop sequence of the given length over 4 subscriber slots (hence every shorter one), a frame observed
    after every step: every queue holds exactly the frames observed while it was subscribed, in order."""
    slots, length = (4, 8) if ctx.thorough else (4, 7)
    seqs = join_leave_sequences(slots, length)
    seqs.sort(key=lambda sq: sum(o in "RD" for o, _ in sq))     # plain join / leave orders first
    for kind in ("luba", "sci"):
        for seq in seqs:
            evlog, history, live_after, frames, got = sim.run(run_join_leave, kind, seq)
            line = " ".join(evlog)
            real = " ".join("%d=%s" % (n, ",".join(str(frames.index(f)) if f in frames else "?" for f in got[n]))
                            for n in sorted(got))
            m = ask("reg " + line)
            sp = ask("specreg " + line)
            if m.strip() != ("ok " + real).strip():
                corr.disagree(kind + "_registry", {"history": history, "events": line}, m, real)
            # the parent's handler table after every step vs the keyed model (keys = the real hash values)
            k = 0
            for pos, e in enumerate(evlog):
                if e.startswith("M."):
                    if live_after[k] is None:
                        corr.bump("keyed-registry:other-representation")
                        break
                    keytab, table = live_after[k]
                    want = ask("kreg %s %s" % (keytab or "-", " ".join(evlog[:pos])))
                    if want.strip() != ("ok " + table).strip():
                        corr.disagree(kind + "_handlers", {"history": history[:2 * k + 1], "events": " ".join(evlog[:pos])},
                                      want, table)
                        break
                    k += 1
            if sp.strip() != ("ok " + real).strip():
                corr.violate("serial:%s:fanout" % kind, {"gateway": kind, "history": history, "registry_events": line},
                             sp, real, "a subscriber queue did not receive exactly the frames observed while it was "
                             "subscribed (q<n>=<indices of the observed frames it holds>)")
            corr.count("traces", 1)
            corr.count(kind + "_join_leave", 1)
        corr.nontrivial((kind, "join-leave", len(seqs)))
    corr.exhaustive["DistributorQueue (LUBA, SCI): every join/leave/re-join/drop sequence of length <= %d over %d "
                    "subscribers, a frame after every step" % (length, slots)] = True


# ---------------------------------------------------------------------------

def fixed_histories(al):
    """the property's named shapes, each with the decisive gap on both sides of the time-out"""
    q, t, p = (16, 0x0190), (16, 0x0120), (16, 0x0100)
    ext = al.fr(al.ext[0])
    n = al.ext[0].devicetype
    hs = []
    for g in SHORT + LONG:
        hs += [
            [("fwd",) + q, ("gap", g), ("back", 0x84)],
            [("fwd",) + q, ("gap", g), ("err",)],
            [("fwd",) + q, ("gap", g), ("nf",)],
            [("fwd",) + q, ("gap", g), ("fwd",) + p],
            [("fwd",) + q, ("gap", g), ("fwd",) + q, ("gap", 0.01), ("back", 1)],
            [("fwd",) + t, ("gap", g), ("fwd",) + t],
            [("fwd",) + t, ("gap", g), ("fwd",) + p],
            [("fwd",) + t, ("gap", g), ("back", 9)],
            [("fwd",) + t, ("gap", g), ("nf",)],
            [("fwd",) + t, ("gap", g), ("fwd",) + t, ("gap", g), ("fwd",) + t],
            [("fwd",) + al.edt(n), ("gap", g), ("fwd",) + ext],
            [("fwd",) + al.edt(n), ("gap", g), ("fwd",) + p, ("gap", 0.01), ("fwd",) + ext],
            [("fwd",) + al.edt(n), ("gap", g), ("back", 3), ("gap", 0.01), ("fwd",) + ext],
            [("fwd",) + al.edt(n), ("gap", 0.01), ("fwd",) + ext, ("gap", g), ("fwd",) + ext],
            [("fwd",) + q, ("gap", g / 2), ("other", 0), ("gap", g / 2 + 0.001), ("back", 5)],
            [("fwd",) + t, ("gap", g / 2), ("other", 1), ("gap", g / 2 + 0.001), ("fwd",) + t],
        ]
        # a configuration command seen once, then a frame of ANOTHER LENGTH with the same numeric value
        # (Reset(Short 0) 01 20 / event 00 01 20, Randomise A7 00 / 00 A7 00, every 16-bit send-twice
        # command of the catalogue and its 24-bit twin, every 24-bit one and its 16-bit tail), alone,
        # followed by the real repeat, and the other way round
        looks = [t, (16, 0xA700)] + [al.fr(c) for c in al.twice16] + [al.fr(c) for c in al.twice24]
        for f in dedupe(looks):
            o = lookalike(f)
            hs += [
                [("fwd",) + f, ("gap", g), ("fwd",) + o],
                [("fwd",) + f, ("gap", g), ("fwd",) + o, ("gap", 0.01), ("fwd",) + f],
                [("fwd",) + o, ("gap", g), ("fwd",) + f, ("gap", 0.01), ("fwd",) + f],
            ]
    return hs


async def run_two_buses(loop, script):
    """two Tridonic interfaces (two DALI lines) in one process; `script` = list of (line, step); each line's
    subscriber must see exactly what was observed on ITS line - a driver is an instance of the one-driver model,
    nothing is shared between instances"""
    hub = sim.OSHub()
    ts = [await sim.TriSim(hub=hub).start(), await sim.TriSim(hub=hub).start()]
    seen = [[], []]
    for i in (0, 1):
        def cb(drv, command, response, err, _i=i):
            seen[_i].append(canon_real_report(command, response, err))
        ts[i].d.bus_traffic.register(cb)
    for group in script:
        for line, step in group:           # the steps of one group arrive in the same turn of the event loop
            ts[line].fos.inq.append(bytes(raw_of(step)))
        for line in sorted({l for l, _ in group}):
            loop.call_soon(ts[line].d._reader)
        await sim.settle(4)
        await asyncio.sleep(0.25)          # let every pending transaction time out
        await sim.settle(4)
    return seen


def two_buses_suite(ctx, corr, ids, spec_timeout_s):
    """(strengthening after seeded round 6)  The single-line expectation comes from the same machinery as
    everywhere else: each line's own history is run on a driver of its own and must give the same reports."""
    rng = ctx.rng
    n = 0
    for _ in range(60 if ctx.thorough else 20):
        script = []
        per_line = [[], []]
        for _g in range(rng.randrange(1, 5)):
            group = []
            for line in rng.sample([0, 1], rng.choice([1, 2, 2])):
                kind = rng.random()
                if kind < 0.6:
                    step = ("fwd", 16, rng.choice([0x0190, 0x01A0, 0xFE80, 0x0300 | rng.randrange(256), 0xC108]))
                elif kind < 0.8:
                    step = ("back", rng.randrange(256))
                else:
                    step = ("fwd", 24, rng.randrange(1 << 24))
                group.append((line, step))
                per_line[line].append(step)
            script.append(group)
        both = sim.run(run_two_buses, script)

        async def alone(loop, steps):
            ts = await sim.TriSim().start()
            out = []
            ts.d.bus_traffic.register(lambda drv, c, r, e: out.append(canon_real_report(c, r, e)))
            for st in steps:
                ts.deliver(raw_of(st))
                await sim.settle(4)
                await asyncio.sleep(0.25)
                await sim.settle(4)
            return out
        for line in (0, 1):
            want = sim.run(alone, per_line[line])
            if both[line] != want:
                corr.violate("watch:two-drivers", {"line": line, "script (groups arrive in one loop turn)": script},
                             [str(x) for x in want], [str(x) for x in both[line]],
                             "a driver's subscribers see exactly the traffic of its own line")
        n += 1
    corr.count("two_tridonic_lines", n)


def standard_rows_suite(ctx, corr):
    """'Decoded in context, paired up' against the STANDARD's tables (the 329 transcribed rows of Spec/IEC62386, the
    same the C03 theorems are about), not against the library's own decoding: the frame of every row with a
    representative destination / numeric operand is observed on a Tridonic gateway - twice 30 ms apart when the
    standard says the command is sent twice, followed by a backward frame when it says the command is answered,
    after its EnableDeviceType when it belongs to a device type - and subscribers must be told: ONE report for the
    command, with a response exactly when the standard says it is a query, carrying that backward frame.
    (Strengthening after seeded round 7: a decoder that no longer recognises a command makes the watch report a
    send-twice command twice and drop a query's answer, consistently with its own idea of the frame.)"""
    from props import cmdcommon as cc2
    rows = cc2.run_model("m_cmd", ["spec rows"])[0].split()
    info = cc2.run_model("m_cmd", ["spec row " + q for q in rows])
    reqs, meta = [], []
    for q, line in zip(rows, info):
        if line == "none":
            continue
        f = line.split()
        fam, hasparam, dt, twice = f[1], f[5] == "true", int(f[6]), f[7] == "true"
        answer = line.split(" answer=")[1] != ""
        args = {"std": ["gs:5"] + (["3"] if hasparam else []), "dapc": ["gs:5", "100"],
                "special": (["7"] if hasparam else []), "shortSpecial": ["5"], "initialise": ["5"],
                "devStd": ["ds:5"], "devInst": ["ds:5", "n:2"], "devSpecial0": [], "devSpecial1": ["7"],
                "devSpecial2": ["1", "2"]}.get(fam)
        if args is None:
            continue
        reqs.append("spec frame %s %s" % (q, " ".join(args)))
        meta.append((q, dt, twice, answer))
    frames = cc2.run_model("m_cmd", reqs)
    n = 0

    async def one(loop, bits, data, dt, twice, answer):
        ts = await sim.TriSim().start()
        got = []
        ts.d.bus_traffic.register(lambda drv, c, r, e: got.append((len(c.frame), c.frame.as_integer,
                                                                   None if r is None else r.raw_value, bool(e))))
        if dt:
            ts.deliver(raw_of(("fwd", 16, 0xC100 | dt)))
            await asyncio.sleep(0.004)
        ts.deliver(raw_of(("fwd", bits, data)))
        if twice:
            # the repetition follows the command itself (EnableDeviceType, command, command)
            await asyncio.sleep(0.03)
            ts.deliver(raw_of(("fwd", bits, data)))
        if answer:
            await asyncio.sleep(0.005)
            ts.deliver(raw_of(("back", 0x21)))
        await asyncio.sleep(0.5)
        await sim.settle(6)
        return got
    for (q, dt, twice, answer), fl in zip(meta, frames):
        if not fl.startswith("ok "):
            continue
        bits, data = int(fl.split()[1]), int(fl.split()[2])
        got = sim.run(one, bits, data, dt, twice, answer)
        mine = [g for g in got if (g[0], g[1]) == (bits, data)]
        want = "1 report of the command, %s" % ("with the backward frame 0x21" if answer else "no response")
        ok = len(mine) == 1 and not mine[0][3] and (
            (mine[0][2] is not None and mine[0][2].as_integer == 0x21 and not mine[0][2].error) if answer
            else mine[0][2] is None)
        if not ok:
            corr.violate("watch:standard", {"standard row": q, "frame": "%d bits %#x" % (bits, data),
                                            "device type": dt, "sent twice": twice, "answered": answer},
                         want, ["%d:%#x resp=%s err=%s" % (g[0], g[1], "-" if g[2] is None else
                                                            ("%s%d" % ("E" if g[2].error else "", g[2].as_integer)), g[3])
                                for g in got],
                         "subscribers are told what the standard says this traffic is")
        n += 1
    corr.count("standard_rows_observed", n)
    corr.exhaustive["every row of the transcribed standard observed on the Tridonic watch"] = True


def correspond(ctx, corr):
    import logging
    logging.disable(logging.CRITICAL)
    sim._stub_modules()
    from dali.device.helpers import DeviceInstanceTypeMapper
    ids = cmdlib.ClassIds()
    found = cmdlib.catalogue(ctx.rng)
    al = Alphabet(ctx.rng, found)
    timeout_ms = int(ctx.gen.get("files", {}).get("Watch", {}).get("BUS_WATCH_TIMEOUT_MS", 200)) if getattr(ctx, "gen", None) else 200
    spec_timeout_s = 0.2      # Spec.Transactions.busWatchTimeoutMs: the gaps are judged against the property's 200 ms
    corr.rule.append(
        "bus-watch histories on the real hid.tridonic in virtual time: the property's named shapes with the "
        "decisive gap at %s ms, random histories of up to 8 transactions (plain, query + answer/silence/framing "
        "error/no-frame/interrupted, configuration command twice/late/once/interrupted/answered, ENABLE DEVICE "
        "TYPE + extended command with and without something in between, 24-bit commands, events with and without "
        "instance map, unknown frames, ignored packets, the driver's own sends), every gap drawn from both sides "
        "of the time-out, 0-3 subscribers joining and leaving; every report type x status byte x origin through "
        "the watcher; a configuration command seen once followed by the frame of the other length with the same "
        "numeric value (every send-twice command of the catalogue, both sides of the time-out); LUBA / SCI byte "
        "streams (random chunking, noise, backward frames) with 0-3 subscriber queues; DistributorQueue: every "
        "join / leave / re-add / drop sequence of length 7 over 4 subscribers with a frame after every step; "
        "non-trivial = distinct transaction kinds per suite" % sorted(round(g * 1000) for g in SHORT + LONG))
    mapper = DeviceInstanceTypeMapper()
    for a in range(0, 64, 3):
        for inst in range(0, 32, 5):
            mapper.add_type(short_address=a, instance_number=inst, instance_type=(a + inst) % 5)
    for script in fixed_histories(al):
        check_history(ctx, corr, ids, script, None, spec_timeout_s, "fixed")
    n = 4000 if ctx.thorough else 700
    for k in range(n):
        script = gen_history(ctx.rng, al, 8)
        check_history(ctx, corr, ids, script, mapper if k % 3 == 0 else None, spec_timeout_s, "random")
        if k == 0:
            corr.sample({"suite": "watch_trace", "history": describe(script)})
    # the same shapes reported by the gateway as its own transmissions under a sequence number nobody waits for
    RAW_MODE[0] = 0x12
    try:
        for script in fixed_histories(al):
            check_history(ctx, corr, ids, script, None, spec_timeout_s, "fixed, reported as own transmissions")
        for k in range(800 if ctx.thorough else 150):
            script = gen_history(ctx.rng, al, 6)
            check_history(ctx, corr, ids, script, mapper if k % 3 == 0 else None, spec_timeout_s,
                          "random, reported as own transmissions")
    finally:
        RAW_MODE[0] = 0x11
    # classification, through the watcher
    cls_scripts = list(suite_classify(ctx, corr, ids, spec_timeout_s))
    for script in cls_scripts:
        check_history_raw(ctx, corr, ids, script, spec_timeout_s)
    serial_suite(ctx, corr, ids, al)
    registry_suite(ctx, corr, ids)
    no_subscriber_suite(ctx, corr, ids)
    two_buses_suite(ctx, corr, ids, None)
    standard_rows_suite(ctx, corr)
    seen = set()
    for bits, data, dt, err in DECODE_FAILURES:
        if (bits, dt, err) in seen:
            continue
        seen.add((bits, dt, err))
        corr.violate("watch:decode", {"observed frame": "%d bits, value %#x" % (bits, data),
                                      "device type remembered from the preceding EnableDeviceType": dt},
                     "a command object (a generic one for a frame the library does not know)", "raises " + err,
                     "decoding an observed frame in its context must not fail")


def check_history_raw(ctx, corr, ids, script, timeout_s):
    """a history containing one raw packet: model vs code only"""
    async def go(loop):
        ts = await sim.TriSim().start()
        reports = []
        ts.d.bus_traffic.register(lambda drv, c, r, e: reports.append(canon_real_report(c, r, e)))
        for s in script:
            if s[0] == "gap":
                await asyncio.sleep(s[1])
            elif s[0] == "raw":
                ts.deliver(s[1])
            else:
                ts.deliver(raw_of(s))
        await asyncio.sleep(0.01)
        await sim.settle(4)
        early = list(reports)
        dead = ts.d._bus_watch_task.done()
        if not dead:
            await asyncio.sleep(1.0)
            await sim.settle(4)
        return ts.log, early, list(reports), dead
    log, early, final, dead = sim.run(go)
    dec = Decoder(ids, None)
    raw = log[-1][1]
    cls = ask("classify %d %d %d %d %d %d" % tuple(raw[0:6]))
    if cls == "err ValueError":
        if not dead:
            corr.disagree("watch_classify", {"raw": raw[:9].hex()}, "watch task ends with ValueError", "still running")
        corr.count("watch_classify", 1)
        return
    if dead:
        corr.disagree("watch_classify", {"raw": raw[:9].hex()}, cls, "watch task ended")
        return
    toks = items_of(log, log[-1][0] + 1.01, timeout_s, dec, [0])
    m = ask("watch " + " ".join("T" if t == "GAP" else t for t in toks))
    mrep, _ = split_reports(m)
    want = [canon_model_report(t, dec) for t in mrep]
    if want != final:
        corr.disagree("watch_classify", {"raw": raw[:9].hex(), "class": cls}, want, final)
    corr.count("watch_classify", 1)


def replay(ctx, payload):
    key = payload.get("failure", {}).get("key")
    return replay_known(ctx, key)


def replay_known(ctx, key):
    import common
    c = common.Corr()
    ctx.thorough = False
    if not hasattr(ctx, "gen"):
        ctx.gen = {}
    correspond(ctx, c)
    hit = [v for v in c.violations if v["key"] == key]
    if hit:
        print("input:", hit[0]["input"], "\nexpected:", hit[0]["expected"], "\nobserved:", hit[0]["observed"])
    return bool(hit)


LEVEL_TEXT = ("Lean 4 theorems: for every history of gateway packets and time-out gaps the reports of the watcher "
              "state machine equal the reports read off the history parsed declaratively into bus transactions "
              "(watch_refines, by induction over the history); corollaries: every forward frame belongs to exactly "
              "one transaction in order, the device type comes from the immediately preceding forward frame only, "
              "queries are paired with the following backward frame / silence, a send-twice command is good iff its "
              "identical repeat is the next packet inside the time-out; every subscriber registered at the time "
              "receives every report in order and unsubscribing is local (fanout, unsubscribe_local), also for the "
              "handler table with explicit keys, whose live keys stay pairwise distinct (keyed_registry_refines, "
              "live_keys_distinct, keyed_fanout); a frame of another length is never a repeat "
              "(other_length_is_not_a_repeat); the serial "
              "receivers' observed-frame path likewise. The state machine is tied to the real tridonic._bus_watch "
              "task, LUBA/SCI receivers and both registries by trace validation in a virtual-time loop.")
LEVEL_NOTE = ("Trusted: Lean kernel; hand-written model tied by trace validation (generated histories; gaps on both "
              "sides of 200 ms) - the real task/timer mechanics are validated, not proved; from_frame used as the "
              "decoder on both sides; virtual-time loop and fake devices.")
TECHNIQUE = ("Lean 4 refinement proof (state machine -> declarative transaction parser, induction over histories) + "
             "trace validation of the real asyncio bus-watch task and serial receivers in virtual time")
