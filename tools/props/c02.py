"""C02 — every constructible command or event decodes back to itself.

Correspondence: the real constructors (+ frame assembly) vs the Lean model
(`construct*` + `encode`, then `decode` back), for every concrete class;
oracle: the property's statement evaluated on the real objects — a legal
construction decodes back to an equal object with the same str(), no two
different objects share a (frame, device type), illegal arguments raise."""
from common import exc_name  # noqa: E402
from props import cmdcommon as cc
from gen import _registry as reg_
from common import tok

ID = "C02"
MODULE = "DaliVerif.Props.C02"
EXES = ["m_cmd"]
GEN = True
# tie by translation (DESIGN.md II.8): the frame-assembling constructors of 276 command classes and dali/address.py
TIE_MODULES = ["DaliVerif.Tie.Command", "DaliVerif.Tie.Address", "DaliVerif.Tie.Event", "DaliVerif.Tie.Special", "DaliVerif.Tie.RoundTrip"]
TIE_THEOREMS = ["Tie.Command.%s" % n for n in
                ("stdNoParam_tie", "stdParam_tie", "dapc_tie", "devStd_tie", "devInst_tie",
                 "std_rows_traced", "dev_rows_traced", "inst_rows_traced")] + \
               ["Tie.Event.%s_%s_tie" % (f, sc) for f in ("ev", "evLight", "evOcc")
                for sc in ("device", "deviceInstance", "deviceGroup", "instanceGroup", "inst")] + \
               ["Tie.Special.%s" % n for n in
                ("specialParam_tie", "specialNoParam_tie", "shortSpecial_tie", "shortSpecialMask_tie",
                 "initialiseAddr_tie", "initialiseBroadcastAddr_tie", "initialiseBroadcast_tie",
                 "initialiseUnaddressed_tie", "special_rows_traced", "devSpecial0_tie", "devSpecial1_tie",
                 "devSpecial2_tie", "devSpecial_rows_traced")] + \
               ["Tie.RoundTrip.%s_roundtrip" % n for n in
                ("specialParam", "specialNoParam", "shortSpecial", "shortSpecialMask", "initialiseAddr",
                 "initialiseBroadcast", "initialiseUnaddressed", "devSpecial0", "devSpecial1", "devSpecial2",
                 "stdNoParam", "devStd", "devInst")] + \
               ["Tie.RoundTrip.%s_%s_roundtrip" % (f, sc) for f in ("ev", "evLight", "evOcc")
                for sc in ("device", "deviceInstance", "deviceGroup", "instanceGroup", "inst")]
THEOREMS = ["tables_ok2", "decode_construct", "decode_construct_gen", "render_preserved", "no_shared_frame",
            "std_param_rejected", "std_arity_rejected", "destination_rejected", "wrong_kind_rejected",
            "byte_param_rejected", "slice_write_rejects", "std_accepted_is_legal", "dapc_accepted_is_legal",
            "special_accepted_is_legal", "shortSpecial_accepted_is_legal", "initialise_accepted_is_legal",
            "devStd_accepted_is_legal", "devInst_accepted_is_legal", "devSpecial_accepted_is_legal",
            "event_keywords_spec", "event_keywords_error", "event_accepted_fields", "unknownEvent_accepted_fields",
            "ambiguous_accepted_is_legal", "event_accepted_is_legal"]
EXTRA_MODULES = ["DaliVerif.Props.EndToEnd"]
EXTRA_THEOREMS = ["EndToEnd.frame_of_legal", "EndToEnd.luba_delivers", "EndToEnd.sci_delivers",
                  "EndToEnd.tridonic_delivers", "EndToEnd.hidhasseb_delivers", "EndToEnd.daliserver_delivers"]
TRUSTED = ["hand-written models Model/Construct.lean (argument handling) and Model/Decode.lean (frame assembly), tied "
           "on every run over all concrete classes x all destinations x parameter values (exhaustive for 4-bit and "
           "8-bit parameters, sampled for two-byte specials and instance bytes) plus a malformed-argument stream"]
ASSUMPTIONS = ["address / instance objects passed as arguments are themselves validly constructed",
               "bool arguments are outside the compared stream (Python accepts True as 1 but prints 'True')"]
PARTIAL = ("an instance-byte object passed as *destination* of a device command is let through by _check_destination "
           "(it has add_to_frame) and overwrites the instance byte; the property's list of wrong-kind addresses does "
           "not include it, it is noted in DESIGN.md and not alarmed. UnknownEvent built without data has no "
           "round-trippable text (decoding always yields data) and is excluded from the read-back quantifier. "
           "acceptance => WF is proved per constructor family for commands (…_accepted_is_legal); for events the keyword handling is tied by the harness only.")
LEVEL_TEXT = ("Lean 4 theorem decode_construct: for EVERY registry satisfying the decidable TableOK2 and EVERY legal object "
              "(all classes, destinations, parameters, instance bytes, scheme fields, event data - no bound), the frame "
              "assembly succeeds and decoding it under the object's own device type / a map naming its instance type "
              "yields the same object; corollaries: same text (render_preserved), no two different commands share a frame "
              "(no_shared_frame); rejection lemmas for out-of-range / non-integer / wrong-arity / wrong-kind arguments. "
              "TableOK2 of the regenerated registries is re-proved each run (tables_ok2, decide +kernel).")
LEVEL_NOTE = ("Trusted: Lean kernel + 3 axioms; translator; the hand models of constructors and from_frame tied by "
              "differential execution (exhaustive on the small parameter domains, sampled elsewhere)."
              " The frame-assembling constructors of 314 command classes (standard, DAPC, device/instance, and - reading int.from_bytes through a documented shim - the 16-bit special, short-address special, Initialise and 24-bit special commands) and the event constructor (push-button, light, occupancy with integer data) are in addition re-translated from the source on every run (path tracing) and proved equal to the model (Tie/Command.lean, Tie/Special.lean, Tie/Event.lean); when that tie cannot be established on a tree the differential tie alone is used, at thorough depth.")
TECHNIQUE = "Lean 4 proof of decode(encode(c)) = c generic over regenerated registries (TableOK2 by decide +kernel; omega on slice arithmetic) + per-class differential construction/decoding + source translation tie (Tie/Command, Tie/Special, Tie/Event, Tie/Address: the constructors re-translated from the source on every run are proved equal to the model)"


def family(c):
    from dali.gear import general as gg
    from dali.device import general as dg
    if issubclass(c, gg._ShortAddrSpecialCommand):
        return "shortSpecial"
    if c is gg.Initialise:
        return "initialise"
    if issubclass(c, gg._SpecialCommand):
        return "special"
    if issubclass(c, gg.DAPC):
        return "dapc"
    if issubclass(c, gg._StandardCommand):
        return "std"
    if issubclass(c, dg._StandardDeviceCommand):
        return "devStd"
    if issubclass(c, dg._StandardInstanceCommand):
        return "devInst"
    if issubclass(c, dg._SpecialDeviceCommand):
        return "devSpecial"
    if issubclass(c, dg._Event):
        return "event"
    return "other"


def qn(c):
    return c.__module__.replace("dali.", "") + "." + c.__name__


def atok(a):
    """argument token for the model"""
    from dali import address as A
    if isinstance(a, A.Address):
        return "A:" + cc.addr_tok(a)
    if isinstance(a, A.Instance):
        return "I:" + cc.inst_tok(a)
    return tok(a)


def readback(cmd, m=None):
    """the property on the real object: decode its frame in its own context -> equal object?"""
    from dali import command
    from dali.device import general as dg
    from dali.device.helpers import DeviceInstanceTypeMapper
    mp = DeviceInstanceTypeMapper(dict(m)) if m is not None else None
    if m is not None and (hash((len(cmd.frame), cmd.frame.as_integer)) & 1):
        # the usual life of a map: ONE mapper object per bus, empty when the first events are seen and filled
        # later.  The same frame object is decoded before and after the mapper has learned the instance's type;
        # the second decoding is the one judged.
        mp = DeviceInstanceTypeMapper()
        command.from_frame(cmd.frame, devicetype=cmd.devicetype, dev_inst_map=mp)
        for (sa_, in_), t_ in m.items():
            mp.add_type(short_address=sa_, instance_number=in_, instance_type=t_)
    back = command.from_frame(cmd.frame, devicetype=cmd.devicetype, dev_inst_map=mp)
    if type(back) is not type(cmd):
        return False, "class %s" % cc.clsname(back)
    if back.frame != cmd.frame or str(back) != str(cmd):
        return False, "str/frame %s" % str(back)
    for attr in ("destination", "instance"):
        if hasattr(cmd, attr):
            if not (getattr(back, attr) == getattr(cmd, attr)):
                return False, attr
    for attr in ("param", "power", "address", "broadcast", "param_1", "param_2"):
        if hasattr(cmd, attr) and getattr(back, attr) != getattr(cmd, attr):
            return False, attr
    if isinstance(cmd, dg._Event):
        for attr in ("instance_number", "instance_group", "device_group", "instance_type", "event_data"):
            if getattr(back, attr) != getattr(cmd, attr):
                return False, attr
        a, b = cmd.short_address, back.short_address
        if (a is None) != (b is None) or (a is not None and not (a == b)):
            return False, "short_address"
    return True, ""


class Run:
    def __init__(self, corr):
        self.corr = corr
        self.lines, self.impl, self.legal = [], [], []
        self.frames = {}

    def case(self, line, build, legal, m=None, skip_model=False):
        """build() constructs the real object; legal: None = don't know, True/False = what the property demands"""
        try:
            cmd = build()
        except Exception as e:  # noqa
            ans = "err " + exc_name(e)
            if legal is True:
                self.corr.violate("construct:" + line.split()[1], line, "accepted", ans,
                                  "a legal construction was refused")
        else:
            ok, why = readback(cmd, m)
            s = str(cmd).replace(" ", "_")
            ans = "ok %s|%d %d|%s|%d" % (cc.clsname(cmd), len(cmd.frame), cmd.frame.as_integer, s, ok)
            if legal is False:
                self.corr.violate("construct:" + line.split()[1], line, "an exception",
                                  ans, "an illegal argument was accepted")
            elif legal is True:
                if not ok:
                    self.corr.violate("readback:" + line.split()[1], line, "decodes back to an equal object", why)
                key = (len(cmd.frame), cmd.frame.as_integer, cmd.devicetype if len(cmd.frame) == 16 else 0,
                       cc.map_tok(m))
                canon = (cc.clsname(cmd), s)
                prev = self.frames.setdefault(key, canon)
                if prev != canon:
                    self.corr.violate("shared-frame", {"frame": key, "a": prev, "b": canon},
                                      "two different commands never share a frame", "both build it")
        if not skip_model:
            self.lines.append(line)
            self.impl.append(ans)
        self.corr.bump(line.split()[1] + ":" + ans.split()[0] + (":" + ans.split()[1] if ans.startswith("err") else ""))

    def flush(self, suite):
        step = 20000
        jobs = [(self.lines[i:i + step], self.impl[i:i + step]) for i in range(0, len(self.lines), step)]
        for n, dis in cc.parmap(_cmp_job, jobs):
            self.corr.count(suite, n)
            for l, m, i in dis:
                self.corr.disagree(suite, l, m, i)
        self.lines, self.impl = [], []


def _cmp_job(job):
    lines, impl = job
    ans = cc.run_model("m_cmd", lines)
    return len(lines), [(l, a, i) for l, a, i in zip(lines, ans, impl) if a != i][:5]


BAD_INTS = [-1, 1.5, None, "x"]


def correspond(ctx, corr):
    import dali.gear, dali.device  # noqa
    from dali import command, address as A
    from dali.gear import general as gg
    from dali.device import general as dg, occupancy
    rng = ctx.rng
    gear, dev = cc.all_addrs()
    insts, reserved = cc.all_insts()
    run = Run(corr)
    corr.rule.append(
        "every concrete class (Command._commands) x every destination of its family (all 82 gear / 98 device address "
        "objects + plain ints) x all 4-bit / 8-bit parameters (all 256x256 pairs for one two-byte special in thorough, "
        "sampled otherwise) x instance bytes (all 256 on sampled addresses); events x 5 schemes x field and data "
        "values; malformed stream (-1, max+1, 1.5, None, 'x', wrong-kind address, wrong arity) at every argument "
        "position. non-trivial = distinct (family, outcome class)")
    # an application that has made mistakes before: calls that FAIL (decoding something that is not a forward frame,
    # constructing with bad arguments) come first, so that every acceptance / rejection below is judged in a process
    # with that history - what is rejected does not depend on earlier failures  (after seeded round 7)
    from dali import frame as _fr
    nfail = 0
    for bad in (lambda: command.from_frame(_fr.Frame(16, 0x01E0)), lambda: command.from_frame(_fr.BackwardFrame(5)),
                lambda: command.from_frame(None), lambda: command.from_frame("c1 06"),
                lambda: command.from_frame(_fr.Frame(24, 0x01FE30)), lambda: gg.GoToScene(A.GearShort(1), 16),
                lambda: gg.DAPC(A.GearShort(1), 256), lambda: gg.Off(A.DeviceShort(1)), lambda: gg.DTR0(256),
                lambda: dg.IdentifyDevice(A.GearShort(1)), lambda: command.from_frame(_fr.ForwardFrame(16, 5), devicetype="x"),
                lambda: command.from_frame(_fr.ForwardFrame(24, 0x028005), dev_inst_map=object())):
        try:
            bad()
        except Exception:   # noqa
            nfail += 1
    corr.bump("failing calls made before the sweep", nfail)
    classes = sorted(__import__('gen._registry', fromlist=['x']).all_commands()[0], key=qn)
    fam_count = {}
    for c in classes:
        fam = family(c)
        fam_count[fam] = fam_count.get(fam, 0) + 1
        name = qn(c)
        if fam == "std":
            dests = gear + [0, 5, 63]
            if reg_.hasparam_of(c):
                for d in dests:
                    for p in range(16):
                        run.case("mk std %s %s %s" % (name, atok(d), tok(p)), lambda: c(d, p), True)
                for p in [16, 255] + BAD_INTS:
                    run.case("mk std %s %s %s" % (name, atok(gear[5]), tok(p)), lambda: c(gear[5], p), False)
                run.case("mk std %s %s" % (name, atok(gear[5])), lambda: c(gear[5]), False)
                run.case("mk std %s %s i:1 i:2" % (name, atok(gear[5])), lambda: c(gear[5], 1, 2), False)
            else:
                for d in dests:
                    run.case("mk std %s %s" % (name, atok(d)), lambda: c(d), True)
                run.case("mk std %s %s i:1" % (name, atok(gear[5])), lambda: c(gear[5], 1), False)
            for d in [64, -1, 1.5, None, "x", dev[0], dev[5], dev[40]]:
                args = (d, 3) if reg_.hasparam_of(c) else (d,)
                run.case("mk std %s %s" % (name, " ".join(atok(a) for a in args)), lambda: c(*args), False)
        elif fam == "dapc":
            for d in gear + [0, 63]:
                for p in (list(range(256)) if d in gear[:20] or ctx.thorough else [0, 1, 127, 254, 255]) + ["OFF", "MASK"]:
                    run.case("mk dapc - %s %s" % (atok(d), tok(p)), lambda: c(d, p), True)
            for p in [256, "off"] + BAD_INTS:
                run.case("mk dapc - %s %s" % (atok(gear[3]), tok(p)), lambda: c(gear[3], p), False)
            for d in [64, None, "x", dev[3]]:
                run.case("mk dapc - %s i:5" % atok(d), lambda: c(d, 5), False)
        elif fam == "special":
            if reg_.hasparam_of(c):
                for p in range(256):
                    run.case("mk special %s %s" % (name, tok(p)), lambda: c(p), True)
                for p in [256] + BAD_INTS:
                    run.case("mk special %s %s" % (name, tok(p)), lambda: c(p), False)
                run.case("mk special %s" % name, lambda: c(), False)
            else:
                run.case("mk special %s" % name, lambda: c(), True)
                run.case("mk special %s i:0" % name, lambda: c(0), False)
        elif fam == "shortSpecial":
            for a in list(range(64)) + ["MASK"]:
                run.case("mk shortSpecial %s %s" % (name, tok(a)), lambda: c(a), True)
            for a in [64, "mask"] + BAD_INTS:
                run.case("mk shortSpecial %s %s" % (name, tok(a)), lambda: c(a), False)
        elif fam == "initialise":
            run.case("mk initialise %s b:1 n" % name, lambda: c(broadcast=True), True)
            run.case("mk initialise %s b:0 n" % name, lambda: c(), True)
            for a in range(64):
                run.case("mk initialise %s b:0 %s" % (name, tok(a)), lambda: c(address=a), True)
            for a in [64, -1, 1.5, "x"]:
                run.case("mk initialise %s b:0 %s" % (name, tok(a)), lambda: c(address=a), False)
            run.case("mk initialise %s b:1 i:5" % name, lambda: c(broadcast=True, address=5), False)
        elif fam == "devStd":
            for d in dev:
                run.case("mk devStd %s %s" % (name, atok(d)), lambda: c(d), True)
            for d in [0, 63, 64, None, "x", gear[0], gear[5], gear[40]]:
                run.case("mk devStd %s %s" % (name, atok(d)), lambda: c(d), False)
        elif fam == "devInst":
            some_dev = [dev[0], dev[1], dev[2 + rng.randrange(32)], dev[34 + rng.randrange(64)]]
            some_inst = [insts[0], insts[31], insts[40], insts[100], insts[191], insts[192], insts[193], insts[194]]
            for d in some_dev:
                for i in insts + reserved:
                    legal = None if (type(i).__name__ in ("Device", "ReservedInstance")) else True
                    run.case("mk devInst %s %s %s" % (name, atok(d), atok(i)), lambda: c(d, i), legal)
            for d in dev:
                for i in some_inst:
                    run.case("mk devInst %s %s %s" % (name, atok(d), atok(i)), lambda: c(d, i), True)
            for d in [gear[5], 3, None]:
                run.case("mk devInst %s %s %s" % (name, atok(d), atok(insts[3])), lambda: c(d, insts[3]), False)
            for i in [3, None, "x", dev[0]]:
                run.case("mk devInst %s %s %s" % (name, atok(dev[3]), atok(i)), lambda: c(dev[3], i), False)
        elif fam == "devSpecial":
            base = [b.__name__ for b in c.__mro__]
            if "_SpecialDeviceCommandTwoParam" in base:
                pairs = [(a, b) for a in range(256) for b in range(256)] if (ctx.thorough and c.__name__ == "DTR2DTR1") \
                    else [(rng.randrange(256), rng.randrange(256)) for _ in range(300)] + \
                    [(0, 0), (255, 255), (0, 255), (255, 0), (0xFE, 0), (0x01, 0xFE)]
                for a, b in pairs:
                    run.case("mk devSpecial %s %s %s" % (name, tok(a), tok(b)), lambda: c(a, b), True)
                for a, b in [(256, 0), (0, 256), (-1, 0), (None, 0), (0, "x"), (1.5, 2)]:
                    run.case("mk devSpecial %s %s %s" % (name, tok(a), tok(b)), lambda: c(a, b), False)
            elif "_SpecialDeviceCommandOneParam" in base:
                for p in range(256):
                    run.case("mk devSpecial %s %s" % (name, tok(p)), lambda: c(p), True)
                for p in [256] + BAD_INTS:
                    run.case("mk devSpecial %s %s" % (name, tok(p)), lambda: c(p), False)
            else:
                run.case("mk devSpecial %s" % name, lambda: c(), True)
        elif fam == "event":
            events_for(c, name, run, rng, ctx)
        corr.nontrivial(("family", fam))
    corr.nontrivial(("classes", len(classes)))
    run.flush("construct")
    for k in corr.dist:
        corr.nontrivial(("outcome", k))
    corr.sample({"suite": "construct", "request": "mk std gear.general.GoToScene A:gg:3 i:7",
                 "impl": "ok gear.general.GoToScene|16 34583|GoToScene(<group_(control_gear)_3>,7)|1"})
    corr.sample({"families": fam_count})


def events_for(c, name, run, rng, ctx):
    from dali.device import general as dg, occupancy, light, pushbutton
    from dali import address as A
    if c in (dg.AmbiguousInstanceType,):
        return
    is_unknown = c is dg.UnknownEvent
    itype = None if is_unknown else (getattr(c, "_instance_type", None) if getattr(c, "_instance_type", None) is not None
                                     else c(instance_group=0).instance_type)

    def datas():
        if issubclass(c, occupancy.OccupancyEvent):
            ED = occupancy.OccupancyEvent.EventData
            return [(ED(bool(x & 1), bool(x & 2), bool(x & 4), "movement" if x & 8 else "presence"),
                     "occ:%d,%d,%d,%d" % (x & 1, (x >> 1) & 1, (x >> 2) & 1, (x >> 3) & 1)) for x in range(16)] + \
                   [(x, str(x)) for x in range(16)]
        if issubclass(c, light.LightEvent):
            return [(x, str(x)) for x in [0, 1, 511, 1023] + [rng.randrange(1024) for _ in range(12)]]
        if is_unknown:
            return [(x, str(x)) for x in [0, 17, 1023, rng.randrange(1024)]]
        return [(None, "-")]
    schemes = []
    n = 3 if not ctx.thorough else 10
    for _ in range(n):
        sa, inum, g = rng.randrange(64), rng.randrange(32), rng.randrange(32)
        schemes += [dict(short_address=sa), dict(short_address=sa, instance_number=inum), dict(device_group=g),
                    dict(instance_group=g), dict(instance_number=inum),
                    dict(short_address=A.DeviceShort(sa), instance_number=inum)]
    schemes += [dict(short_address=63), dict(short_address=0, instance_number=31), dict(device_group=31),
                dict(instance_group=0), dict(instance_number=0)]
    types_ = [itype] if not is_unknown else [0, 2, 5, 31]
    for kw in schemes:
        for t in types_:
            for dv, dtok in datas():
                f = lambda k: "-" if kw.get(k) is None else str(int(kw[k].address if hasattr(kw[k], "address") else kw[k]))
                cls_tok = ("unknown:%d" % t) if is_unknown else name
                line = "mkev %s %s %s %s %s %s" % (cls_tok, f("short_address"), f("instance_number"),
                                                   f("instance_group"), f("device_group"), dtok)
                m = None
                if "short_address" in kw and "instance_number" in kw:
                    sa = kw["short_address"]
                    m = {(sa.address if hasattr(sa, "address") else sa, kw["instance_number"]): t}
                if is_unknown:
                    # an UnknownEvent whose (type, data) a registered class claims decodes as that class: not in the quantifier
                    legal = True if t in (0, 2, 5, 31) and t not in (1, 3, 4) else None
                    run.case(line, lambda: c(instance_type=t, data=dv, **kw), legal, m)
                else:
                    args = dict(kw)
                    if dv is not None:
                        args["data"] = dv
                    run.case(line, lambda: c(**args), True, m)
    # malformed: conflicting keywords, nothing, out-of-range fields, bad data
    base = dict(data=3) if (issubclass(c, (occupancy.OccupancyEvent, light.LightEvent)) or is_unknown) else {}
    extra = dict(instance_type=5) if is_unknown else {}
    for kw in (dict(), dict(short_address=1, device_group=2), dict(short_address=1, instance_group=2),
               dict(device_group=1, instance_number=2), dict(device_group=1, instance_group=2),
               dict(instance_group=1, instance_number=2), dict(short_address=64), dict(short_address=-1),
               dict(device_group=32), dict(instance_group=32), dict(instance_number=32),
               dict(short_address=1, instance_number=32), dict(instance_number=-1), dict(device_group=-1)):
        allkw = dict(base); allkw.update(extra); allkw.update(kw)
        run.case("mkev %s malformed %s" % (name, sorted(kw.items())), lambda: c(**allkw), False, skip_model=True)
    if issubclass(c, light.LightEvent):
        for dv in (1024, -1, None, "x", 1.5):
            run.case("mkev %s baddata %r" % (name, dv), lambda: c(instance_number=1, data=dv), False, skip_model=True)
    if issubclass(c, occupancy.OccupancyEvent):
        for dv in (None, "x", 1.5):
            run.case("mkev %s baddata %r" % (name, dv), lambda: c(instance_number=1, data=dv), False, skip_model=True)


def replay(ctx, payload):
    corr = __import__("common").Corr()
    correspond(ctx, corr)
    key = payload.get("failure", {}).get("key")
    hits = [v for v in corr.violations if v["key"] == key]
    print("violations with key %s now: %d" % (key, len(hits)))
    for v in hits[:3]:
        print(v)
    return bool(hits)
