"""Scenario builders for the memory specification unit of m_memseq (c09.py, c10.py)."""

ACCESS = {"ROM": "r", "RAM_RO": "r", "NVM_RO": "r", "RAM_RW": "w", "NVM_RW": "w", "NVM_RW_P": "w", "NVM_RW_L": "l"}


def all_values():
    """[(bankKey, bank, valueClass)] for every declared memory value (incl. LastAddress / LockByte)"""
    from gen import memseq
    out = []
    for key, b in memseq.banks():
        for v in b.values:
            out.append((key, b, v))
    return out


def all_banks():
    from gen import memseq
    return memseq.banks()


def image(bank, kind, rng, last=None, holes=(), undeclared="r"):
    """256 cell tokens for a unit implementing `bank`'s layout.
    kind: zero | ff | addr | random.  `holes`: addresses not implemented."""
    cells = []
    for a in range(256):
        ent = bank.locations.get(a) if a < 255 else None
        if kind == "zero":
            v = 0
        elif kind == "ff":
            v = 0xFF
        elif kind == "addr":
            v = a
        elif kind == "ascii":
            v = 0x41 + a % 26
        else:
            v = rng.randrange(256)
        if a in holes:
            cells.append("-")
        elif ent is not None:
            cells.append(ACCESS[ent.memory_location.type_.name] + str(v))
        elif undeclared == "-":
            cells.append("-")
        else:
            cells.append(undeclared + str(v))
    return cells


def unit_line(u):
    return "unit %d %d %d %d %d %d %d %d %d %d %d %d %d %d %s" % (
        1 if u["dev"] else 0, u["addr"], u["bank"], u["last"], 1 if u["hasLock"] else 0,
        1 if u["hasLatch"] else 0, u["lockByte"], u["dtr"][0], u["dtr"][1], u["dtr"][2],
        1 if u.get("we") else 0, 1 if u.get("advance", True) else 0, u.get("unlock", 0x55),
        u.get("drift", 0), ",".join(u["cells"]))


def mk_unit(bank, rng, kind="random", last=None, holes=(), dev=False, addr=None, **kw):
    u = {"dev": dev, "addr": rng.randrange(64) if addr is None else addr, "bank": bank.address,
         "last": bank.LastAddress.locations[0].default if last is None else last,
         "hasLock": bank.has_lock, "hasLatch": bank.has_latch,
         "lockByte": 0xFF, "dtr": [rng.randrange(256) for _ in range(3)], "we": rng.random() < 0.3,
         "cells": image(bank, kind, rng, holes=holes)}
    u.update(kw)
    return u


def addr_obj(argkind, a):
    from dali.address import GearShort, DeviceShort, GearBroadcast
    if argkind == "g":
        return GearShort(a)
    if argkind == "d":
        return DeviceShort(a)
    if argkind == "i":
        return a
    return GearBroadcast()


def find_value(key):
    bk, nm = key.split(".")
    for k, b, v in all_values():
        if k == bk and v.name == nm:
            return b, v
    raise KeyError(key)


def find_bank(key):
    for k, b in all_banks():
        if k == key:
            return b
    raise KeyError(key)
