"""C01 — every forward frame decodes, and the decoded command re-encodes to it.

Correspondence: real `dali.command.from_frame` vs the Lean model `decode`
(class, frame of the decoded object, str()), exhaustive over the 16-bit space;
oracle: the property's statement evaluated directly on the real code (never
raises, frame bit-identical, str() works, order independence, registries
unchanged)."""
from common import exc_name  # noqa: E402
import hashlib
from props import cmdcommon as cc

ID = "C01"
MODULE = "DaliVerif.Props.C01"
EXES = ["m_cmd"]
GEN = True
THEOREMS = ["tables_ok", "encode_decode", "encode_decode_gen", "decode_pure"]
TRUSTED = ["hand-written model Model/Decode.lean of the from_frame dispatch and the constructors (command.py, "
           "gear/general.py, device/general.py, pushbutton/occupancy/light.py), tied on every run: exhaustively over "
           "all 2^16 16-bit frames x device types {0..9,255,random} (thorough: all 256), all 2^16 upper halves of "
           "24-bit frames, sampled event frames under maps, all lengths 1..64",
           "translator plugin tools/gen/commands.py (registries read by reflection; implementor functions by qualified name)"]
ASSUMPTIONS = ["frames are ForwardFrame objects (0 <= data < 2^bits)", "device type is a non-negative integer",
               "instance-type maps return integers"]
PARTIAL = ("purity (order independence) is by construction for the model (a Lean function) and VALIDATED for the code "
           "by shuffled re-decoding and registry snapshots, not proved: Python-level mutation of class state is outside the model")
LEVEL_TEXT = ("Lean 4 theorem encode_decode: for EVERY registry table satisfying the decidable TableOK and EVERY frame "
              "(any length >= 1, any data < 2^bits), any device type and any instance map, the decoded object's "
              "constructor does not raise and its frame is bit-identical to the input; TableOK of the tables regenerated "
              "from the current tree is re-proved on every run (tables_ok, decide +kernel). The decode/encode model is "
              "hand-written and tied to the code by exhaustive differential execution over the 16-bit space.")
LEVEL_NOTE = ("Trusted: Lean kernel + 3 standard axioms; translator (reflection); the hand model of from_frame/constructors "
              "corresponds to the code as far as the exhaustive/sampled correspondence shows; purity of the real code is "
              "validated by re-decoding in shuffled order, not proved.")
TECHNIQUE = "Lean 4 proof generic over regenerated registry tables (TableOK by decide +kernel; slice arithmetic + omega) + exhaustive model-vs-code decode comparison"


def _decode_job(job):
    """job = list of (bits, data, dt, maptok, mapdict) -> (n, dis, vio, digest)"""
    from dali import command
    from dali.frame import ForwardFrame
    from dali.device.helpers import DeviceInstanceTypeMapper
    lines, impl = [], []
    vio = []
    for bits, data, dt, m in job:
        mp = None if m is None else DeviceInstanceTypeMapper(dict(m))
        f = ForwardFrame(bits, data)
        ans = cc.cmd_canon(lambda: command.from_frame(f, devicetype=dt, dev_inst_map=mp))
        line = "dec %d %d %d %s" % (bits, data, dt, cc.map_tok(m))
        lines.append(line)
        impl.append(ans)
        # the property's statement
        want = "|ok %d %d|" % (bits, data)
        if ans.startswith("RAISED") or want not in ans or "STR-RAISED" in ans:
            vio.append((line, "decodes, frame identical, str() works", ans))
        elif f.as_integer != data or len(f) != bits:
            vio.append((line, "input frame untouched", "%d %d" % (len(f), f.as_integer)))
    ans = cc.run_model("m_cmd", lines)
    dis = [(l, a, i) for l, a, i in zip(lines, ans, impl) if a != i]
    h = hashlib.sha256("\n".join(impl).encode()).hexdigest()
    return len(lines), dis[:5], vio[:5], h, len(dis), len(vio)


def registry_snapshot():
    import dali.gear, dali.device  # noqa
    from dali import command, address
    from dali.gear import general as gg
    from dali.device import general as dg, pushbutton
    from gen import _registry as reg
    parts = reg.snapshot_all()
    return hashlib.sha256(repr(parts).encode()).hexdigest()


FRESH_SCRIPT = r"""
import sys, json
sys.path.insert(0, sys.argv[1])
exec(sys.argv[2])
from dali import command
from dali.frame import ForwardFrame
from dali.device.helpers import DeviceInstanceTypeMapper


def canon(thunk):
    try:
        c = thunk()
        return "%s.%s|%d %d|%s" % (type(c).__module__, type(c).__qualname__, len(c.frame), c.frame.as_integer, str(c))
    except Exception as e:
        return "RAISED " + exc_name(e)


probes = []
for inst in (0x00, 0x1F, 0x80, 0x9F, 0xC0, 0xC1, 0xC3, 0xC4, 0xDF, 0xFE, 0xFF):
    for op in range(256):
        probes.append((24, (0x01 << 16) | (inst << 8) | op, 0))
for hi in (0x01, 0xFF, 0xA3, 0xC1):
    for op in range(0, 256, 3):
        for dt in (0, 1, 6, 8):
            probes.append((16, (hi << 8) | op, dt))
events = []
for t in (1, 3, 4, 2, 6, 0, 31):
    for sa, inum, info in ((5, 3, 2), (0, 0, 0x3FF), (63, 31, 7)):
        events.append(((sa << 17) | (1 << 15) | (inum << 10) | info, {(sa, inum): t}))
    events.append(((1 << 23) | (t << 17) | 5, None))              # instance-type scheme
    events.append((0xC00000 | (t << 17) | (1 << 15) | (2 << 10) | 9, None))
dec = lambda p: canon(lambda: command.from_frame(ForwardFrame(p[0], p[1]), devicetype=p[2]))
r1 = [dec(p) for p in probes]
ev = [canon(lambda: command.from_frame(ForwardFrame(24, d), dev_inst_map=None if m is None else DeviceInstanceTypeMapper(dict(m))))
      for d, m in events]
r2 = [dec(p) for p in probes]
ev2 = [canon(lambda: command.from_frame(ForwardFrame(24, d), dev_inst_map=None if m is None else DeviceInstanceTypeMapper(dict(m))))
       for d, m in events]
print(json.dumps({"probes": probes, "r1": r1, "r2": r2, "ev": ev, "ev2": ev2, "events": [e[0] for e in events]}))
"""


def fresh_process_purity(ctx, corr):
    """'The result does not depend on what was decoded before' in a process that has imported the library the way an
    application does (NOT everything up front, as this harness does for the big sweeps): 3600 probe frames are decoded,
    then events of every instance type under maps, then the probes again - the two passes must agree, and so must
    two passes over the events.  Run in fresh interpreters, one per way of importing the library.
    (Strengthening after seeded round 7: modules loaded lazily by the decoder register more classes.)"""
    import json
    import subprocess
    import common
    repo = str(common.REPO)
    for imp in ("import dali.device, dali.gear", "import dali.gear.general, dali.device.general",
                "from dali import device, gear", "import dali.device.general"):
        p = subprocess.run(["/venv/bin/python", "-c", FRESH_SCRIPT, repo, imp], capture_output=True, text=True,
                           timeout=300)
        if p.returncode != 0:
            corr.violate("decode:order", {"imports": imp, "fresh process": True}, "decodes", p.stderr[-400:],
                         "decoding in a fresh process failed")
            continue
        d = json.loads(p.stdout)
        bad = [(pr, a, b) for pr, a, b in zip(d["probes"], d["r1"], d["r2"]) if a != b]
        bad_ev = [(e, a, b) for e, a, b in zip(d["events"], d["ev"], d["ev2"]) if a != b]
        for pr, a, b in bad[:3]:
            corr.violate("decode:order", {"frame": pr, "fresh process, imports": imp,
                                          "between the two decodes": "event frames of instance types 0..4, 6, 31 "
                                          "were decoded"}, a, b,
                         "the result of decoding depends on what was decoded before")
        for e, a, b in bad_ev[:2]:
            corr.violate("decode:order", {"event frame": e, "fresh process, imports": imp}, a, b,
                         "the result of decoding depends on what was decoded before")
        for x in d["r1"] + d["ev"]:
            if x.startswith("RAISED"):
                corr.violate("decode:raises", {"fresh process, imports": imp}, "a command object", x)
                break
        corr.count("purity_fresh_process", 2 * len(d["probes"]) + 2 * len(d["events"]))


def make_jobs(ctx):
    rng = ctx.rng
    jobs = []
    dts = list(range(0, 10)) + [255, rng.randrange(10, 255)] if not ctx.thorough else list(range(256))
    step = 8192
    for dt in dts:
        for lo in range(0, 65536, step):
            jobs.append([(16, d, dt, None) for d in range(lo, lo + step)])
    # 24-bit: all upper halves x low bytes, no map (thorough: ALL 2^24 frames)
    if ctx.thorough:
        for hi in range(256):
            jobs.append([(24, (hi << 16) | lo, 0, None) for lo in range(65536)])
    else:
        lows = [0, 1, 0xFF, rng.randrange(256)]
        for lo in range(0, 65536, 4096):
            jobs.append([(24, (up << 8) | low, 0, None) for up in range(lo, lo + 4096) for low in lows])
    # device/instance-scheme event frames under maps: bit23=0, bit16=0, bit15=1
    n_ev = 400000 if ctx.thorough else 60000
    types = list(range(0, 32)) + [32, 99, 255, 1000]
    ev = []
    for _ in range(n_ev):
        sa, inum, data = rng.randrange(64), rng.randrange(32), rng.randrange(1024)
        d = (sa << 17) | (1 << 15) | (inum << 10) | data
        k = rng.random()
        if k < 0.15:
            m = None
        elif k < 0.3:
            m = {}
        elif k < 0.45:
            m = {((sa + 1) % 64, inum): 1, (sa, (inum + 1) % 32): 3}
        else:
            m = {(sa, inum): rng.choice(types)}
            if rng.random() < 0.3:
                m[(rng.randrange(64), rng.randrange(32))] = rng.choice(types)
        ev.append((24, d, rng.choice([0, 0, 6]), m))
    # all event-space frames sampled without a map + every scheme with rich data
    for _ in range(n_ev // 2):
        d = rng.randrange(1 << 24) & ~(1 << 16)
        ev.append((24, d, 0, rng.choice([None, None, {}, {((d >> 17) & 63, (d >> 10) & 31): rng.choice(types)}])))
    for i in range(0, len(ev), 10000):
        jobs.append(ev[i:i + 10000])
    other = []
    for bits in range(1, 65):
        if bits in (16, 24):
            continue
        for d in [0, (1 << bits) - 1] + [rng.randrange(1 << bits) for _ in range(20)]:
            other.append((bits, d, rng.choice([0, 6, 8]), rng.choice([None, {}])))
    jobs.append(other)
    return jobs, dts


def correspond(ctx, corr):
    rng = ctx.rng
    snap0 = registry_snapshot()
    jobs, dts = make_jobs(ctx)
    corr.rule.append(
        "decode: ALL 2^16 16-bit frames x device types %s; ALL 2^16 upper halves of 24-bit frames x 4 low bytes; "
        "device/instance event frames under maps (absent, empty, other key, every type 0..31, 32, 99, 255, 1000); random "
        "event-space frames; every length 1..64; compared: class, frame of the decoded object, str(). non-trivial = "
        "distinct decoded classes" % ("0..255" if ctx.thorough else "{0..9,255,1 random}"))
    hashes1 = []
    for n, dis, vio, h, nd, nv in cc.parmap(_decode_job, jobs):
        corr.count("decode", n)
        hashes1.append(h)
        for l, m, i in dis:
            corr.disagree("decode", l, m, i)
        for l, e, o in vio:
            corr.violate("decode:" + l.split()[1], l, e, o)
    corr.exhaustive["decode 16-bit x %d device types" % len(dts)] = True
    if ctx.thorough:
        corr.exhaustive["decode all 2^24 24-bit frames without a map"] = True
    # ---- purity: decode a subset again in shuffled order, interleaved with constructions ----
    from dali import command
    from dali.frame import ForwardFrame
    import dali.gear.general as gg
    import dali.device.general as dg
    from dali import address as A
    sub = [j for job in rng.sample(jobs, min(len(jobs), 6)) for j in rng.sample(job, min(len(job), 800))]
    from dali.device.helpers import DeviceInstanceTypeMapper

    def dec(j):
        bits, d, dt, m = j
        return cc.cmd_canon(lambda: command.from_frame(ForwardFrame(bits, d), devicetype=dt,
                                                       dev_inst_map=None if m is None else DeviceInstanceTypeMapper(dict(m))))
    # the decoded OBJECTS of a sample are kept alive to the end of the run: what a result carries (frame, text,
    # class) is fixed when it is returned - decoding other frames afterwards does not reach back into it
    held = []
    for j in rng.sample(sub, min(len(sub), 1500)):
        bits, d, dt, m = j
        try:
            o = command.from_frame(ForwardFrame(bits, d), devicetype=dt,
                                   dev_inst_map=None if m is None else DeviceInstanceTypeMapper(dict(m)))
            held.append((j, o, cc.cmd_canon(lambda: o)))
        except Exception:   # noqa - judged by the main pass
            pass
    first = [dec(j) for j in sub]
    order = list(range(len(sub)))
    rng.shuffle(order)
    for k in order:
        if k % 7 == 0:   # interleave constructions
            gg.DAPC(A.GearShort(k % 64), k % 256); gg.Off(k % 64); dg.IdentifyDevice(A.DeviceShort(k % 64))
            try:
                gg.Off(64)
            except Exception:
                pass
        again = dec(sub[k])
        if again != first[k]:
            corr.violate("decode:order", {"frame": sub[k][:3], "first": first[k]}, first[k], again,
                         "decoding depends on what was decoded before")
    corr.count("purity_redecode", len(sub))
    # ---- purity, ordered pairs: decode a CONTEXT frame, then a TARGET frame; the target's result must be what a
    # decoder that has never seen the context returns (computed by the model, which is a function) ----
    ctx_frames = [(16, 0xC100 | n, 0) for n in (0, 1, 4, 5, 6, 8, 9, 255)] + \
                 [(16, 0xA300, 0), (16, 0xFF00, 0), (16, 0x01E0, 6), (24, 0xC10100, 0), (24, 0x01FE00, 0),
                  (24, (5 << 17) | (1 << 15) | (3 << 10) | 2, 0), (12, 0x123, 0), (16, 0x0123, 0)]
    targets = [(16, (a << 8) | op, dt) for a in (0x01, 0x7F, 0x85, 0xFF) for op in
               (0x00, 0x10, 0x90, 0xA0, 0xE0, 0xE3, 0xED, 0xF0, 0xFC, 0xFF) for dt in (0, 6)] + \
              [(12, 0x123, 0), (16, 0x0123, 0), (20, 0x00123, 0), (24, 0x000123, 0), (24, 0x01FE30, 0),
               (24, (5 << 17) | (1 << 15) | (3 << 10) | 2, 0), (24, 0x800400, 0)]
    plines = ["dec %d %d %d -" % t for t in targets]
    want = dict(zip(targets, cc.run_model("m_cmd", plines)))
    npairs = 0
    for c in ctx_frames:
        for t in targets:
            command.from_frame(ForwardFrame(c[0], c[1]), devicetype=c[2])
            got = cc.cmd_canon(lambda: command.from_frame(ForwardFrame(t[0], t[1]), devicetype=t[2]))
            npairs += 1
            if got != want[t]:
                corr.violate("decode:order", {"first": "dec %d %d %d -" % c, "then": "dec %d %d %d -" % t},
                             want[t], got, "the result of decoding depends on what was decoded before")
    corr.count("purity_ordered_pairs", npairs)
    for j, o, was in held:
        now = cc.cmd_canon(lambda: o)
        if now != was:
            corr.violate("decode:order", {"frame": j[:3], "kept": "the decoded object, looked at again after other "
                                          "frames were decoded"}, was, now,
                         "a decoded command changed after it was returned (its frame / text depend on later decoding)")
    corr.count("purity_held_objects", len(held))
    # ONE mapper object for the whole bus (as the library recommends), taught while frames are being decoded: the
    # result of a decode is a function of (frame, device type, what the map says NOW), not of what the map was
    # asked before  (strengthening after seeded round 6)
    mlines, mgot = [], []
    for _ in range(600 if ctx.thorough else 200):
        mp = DeviceInstanceTypeMapper()
        known = {}
        for step in range(rng.randrange(2, 7)):
            sa, inum = rng.choice([5, 0, 63, rng.randrange(64)]), rng.choice([3, 0, 31, rng.randrange(32)])
            d = (sa << 17) | (1 << 15) | (inum << 10) | rng.randrange(1024)
            got = cc.cmd_canon(lambda: command.from_frame(ForwardFrame(24, d), devicetype=0, dev_inst_map=mp))
            mlines.append("dec 24 %d 0 %s" % (d, cc.map_tok(dict(known)) if known else "e"))
            mgot.append((got, dict(known)))
            if rng.random() < 0.7:
                t = rng.choice([1, 2, 3, 4, 6, 32])
                if rng.random() < 0.15 and known:
                    mp.clear()
                    known.clear()
                else:
                    mp.add_type(short_address=sa, instance_number=inum, instance_type=t)
                    known[(sa, inum)] = t
    mans = cc.run_model("m_cmd", mlines)
    for line, (got, known), mwant in zip(mlines, mgot, mans):
        if got != mwant:
            corr.violate("decode:order", {"request": line, "mapper": "one mapper object, asked about other / the same "
                                          "instances before and taught in between", "map now": cc.map_tok(known)},
                         mwant, got, "decoding depends on what the mapper was asked before")
    corr.count("purity_one_mapper", len(mlines))
    fresh_process_purity(ctx, corr)
    snap1 = registry_snapshot()
    if snap0 != snap1:
        # some class-level container of the decoding classes changed while decoding.  That is a violation only if
        # it CHANGES A RESULT (a memo of derived data filled on first use is not): every frame decoded in this
        # process is decoded again, in a fresh order, and compared with the model, which is a function of
        # (frame, device type, map) alone; then the snapshot must have stopped moving.
        order2 = list(range(len(sub)))
        rng.shuffle(order2)
        again = {k: dec(sub[k]) for k in order2}
        mans = cc.run_model("m_cmd", ["dec %d %d %d %s" % (sub[k][0], sub[k][1], sub[k][2], cc.map_tok(sub[k][3]))
                                      for k in range(len(sub))])
        nbad = 0
        for k in range(len(sub)):
            if again[k] != mans[k] or again[k] != first[k]:
                nbad += 1
                if nbad <= 3:
                    corr.violate("decode:order", {"frame": sub[k][:3], "after": "class-level state of the decoders "
                                                  "changed during earlier decoding"}, mans[k], again[k],
                                 "decoding depends on what was decoded before")
        for c in ctx_frames:
            for t in targets:
                command.from_frame(ForwardFrame(c[0], c[1]), devicetype=c[2])
                got = cc.cmd_canon(lambda: command.from_frame(ForwardFrame(t[0], t[1]), devicetype=t[2]))
                if got != want[t]:
                    corr.violate("decode:order", {"first": "dec %d %d %d -" % c, "then": "dec %d %d %d -" % t},
                                 want[t], got, "the result of decoding depends on what was decoded before")
        snap2 = registry_snapshot()
        corr.count("purity_recheck_after_state_change", len(sub) + len(ctx_frames) * len(targets))
        if snap2 != snap1:
            corr.violate("decode:registry", "class-level containers of the decoding classes after decoding the "
                         "same frames a second time", snap1, snap2,
                         "decoding keeps rewriting class-level state (it is not a memo that fills once)")
        else:
            corr.rule.append("class-level state of the decoding classes changed during the first decoding pass and "
                             "was stable afterwards (a memo); every frame re-decoded against the model: unchanged")
    for c in set(i.split("|")[0] for i in first):
        corr.nontrivial(("class", c))
    corr.sample({"suite": "decode", "request": "dec 16 483 6 -", "impl": dec((16, 483, 6, None))})
    corr.sample({"suite": "decode", "request": "dec 24 %d 0 {(5,3):4}" % ((5 << 17) | (1 << 15) | (3 << 10) | 700),
                 "impl": dec((24, (5 << 17) | (1 << 15) | (3 << 10) | 700, 0, {(5, 3): 4}))})


def replay(ctx, payload):
    from dali import command
    from dali.frame import ForwardFrame
    from dali.device.helpers import DeviceInstanceTypeMapper
    v = payload.get("failure", {})
    line = str(v.get("input", ""))
    p = line.split()
    if len(p) == 5 and p[0] == "dec":
        bits, d, dt = int(p[1]), int(p[2]), int(p[3])
        m = None
        if p[4] == "e":
            m = {}
        elif p[4] != "-":
            m = {(int(a), int(b)): int(c) for a, b, c in (e.split(":") for e in p[4].split(","))}
        ans = cc.cmd_canon(lambda: command.from_frame(ForwardFrame(bits, d), devicetype=dt,
                                                      dev_inst_map=None if m is None else DeviceInstanceTypeMapper(m)))
        print("input:", line, "\nimplementation:", ans)
        return ans.startswith("RAISED") or ("|ok %d %d|" % (bits, d)) not in ans or "STR-RAISED" in ans
    print("not a single-frame failure; re-running the oracle and looking for the same key")
    corr = __import__("common").Corr()
    correspond(ctx, corr)
    hits = [x for x in corr.violations if x["key"] == v.get("key")]
    for x in hits[:3]:
        print(x)
    return bool(hits)


def search(ctx, corr, broken):
    """A proof obligation or the correspondence broke: hunt for a frame on which the
    real code violates the property, starting from the registry entries that
    differ from what TableOK demands (collisions, keys that do not match the class)."""
    import dali.gear, dali.device  # noqa
    from dali import command
    from dali.frame import ForwardFrame
    from dali.gear import general as gg
    from dali.device import general as dg
    found = []
    cand = []
    from gen import _registry as reg
    for (dt, op), c in reg.std_registry()[0]:
        if isinstance(dt, int) and isinstance(op, int):
            for hi in (0x01, 0x7F, 0x81, 0xFF, 0xFD):
                cand.append((16, (hi << 8) | (op & 0xFF), dt))
    for op, c in reg.special_registry()[0]:
        if isinstance(op, int):
            for lo in (0, 1, 0x7F, 0x81, 0xFF):
                cand.append((16, ((op & 0xFF) << 8) | lo, 0))
    for op in [k for k, _c in reg.devstd_registry()[0]] + [k for k, _c in reg.devinst_registry()[0]]:
        if isinstance(op, int):
            for up in (0x01FE, 0xFFFE, 0x0100, 0x81FF, 0xFD05, 0x0145):
                cand.append((24, (up << 8) | (op & 0xFF), 0))
    for c in reg.device_families()[0]:
        a, i = getattr(c, "_addr", None), getattr(c, "_instance", None)
        if isinstance(a, int):
            for lo in range(256):
                cand.append((24, ((a & 0xFF) << 16) | (((i if isinstance(i, int) else 0) & 0xFF) << 8) | lo, 0))
            if not isinstance(i, int):
                for mid in range(256):
                    cand.append((24, ((a & 0xFF) << 16) | (mid << 8) | (mid ^ 0x5A), 0))
    for bits, d, dt in cand:
        ans = cc.cmd_canon(lambda: command.from_frame(ForwardFrame(bits, d), devicetype=dt))
        if ans.startswith("RAISED") or ("|ok %d %d|" % (bits, d)) not in ans or "STR-RAISED" in ans:
            found.append({"key": "decode:%d" % bits, "input": "dec %d %d %d -" % (bits, d, dt),
                          "expected": "decodes, frame identical, str() works", "observed": ans,
                          "note": "found by the registry-guided search"})
    return found
