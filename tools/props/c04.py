"""C04 — address and instance bytes: exact, local, mutually exclusive codec.

Correspondence (exhaustive): real dali.address vs the Lean model (m_cmd), and
oracle: real code vs the standard's partition tables (Spec.partition /
Spec.instOfByte) and the write-locality / read-back statement evaluated
directly on real Frame objects."""
from common import exc_name  # noqa: E402
from props import cmdcommon as cc

ID = "C04"
MODULE = "DaliVerif.Props.C04"
EXES = ["m_cmd"]
GEN = True
# tie by translation (DESIGN.md II.8): dali/address.py and the Frame operations it uses, re-translated on every run
TIE_MODULES = ["DaliVerif.Tie.Address", "DaliVerif.Tie.Frame"]
TIE_THEOREMS = (["Tie.Address.%s" % n for n in
                 ("fromFrame16_tie", "fromFrame24_tie", "fromFrame16_partition", "fromFrame24_partition",
                  "instFromFrame24_tie", "addGearShort_tie", "addGearGroup_tie", "addDeviceShort_tie",
                  "addDeviceGroup_tie", "addGearBroadcast_tie", "addGearBroadcastUnaddressed_tie",
                  "addDeviceBroadcast_tie", "addDeviceBroadcastUnaddressed_tie", "addInstanceNumber_tie",
                  "addInstanceGroup_tie", "addInstanceType_tie", "addFeatureInstanceNumber_tie",
                  "addFeatureInstanceGroup_tie", "addFeatureInstanceType_tie", "addReservedInstance_tie",
                  "addFeatureInstanceBroadcast_tie", "addInstanceBroadcast_tie", "addFeatureDevice_tie",
                  "addDevice_tie")] +
                ["Tie.Frame.%s_tie" % n for n in ("getSlice", "getBit", "setSlice", "setBit")])
THEOREMS = ["decode_partition", "gear_write_read", "device_write_read", "wrong_size_refused",
            "eq_iff", "gear_ne_device", "inst_partition", "inst_wrong_size", "inst_write_read",
            "inst_eq_iff", "order_ok"]
TRUSTED = ["hand-written model Model/Address.lean of dali/address.py, tied EXHAUSTIVELY on every run: "
           "all 2^16 16-bit frames and all 2^16 upper halves of 24-bit frames for from_frame, all 180 address "
           "and 256 instance objects for add_to_frame/==/!=/str, sizes 1..64 for refusal",
           "Spec/AddressSpec.lean: the standard's partition of the address and instance byte written by byte "
           "ranges from my knowledge of IEC 62386-102 7.2 / -103 7.2.1 (no copy of the standard in the sandbox)"]
ASSUMPTIONS = ["frames are reachable Frame objects (0 <= data < 2^bits)"]
PARTIAL = ("ReservedInstance(b) constructed by hand with a non-reserved byte b is outside the read-back theorem "
           "(the property quantifies over the 196 instance values; decoding produces `reserved` only for the 60 "
           "reserved bytes)")
LEVEL_TEXT = ("Lean 4 theorems for ALL frames and ALL address/instance values: reading yields exactly the standard's "
              "partition whatever the registration order (decode_partition, inst_partition), writing changes only "
              "the field's bits and reads back (gear_write_read, device_write_read under bit16=1, inst_write_read), "
              "wrong sizes are refused (wrong_size_refused, inst_wrong_size), == is kind-and-number equality "
              "(eq_iff, gear_ne_device, inst_eq_iff); the regenerated registration order satisfies the hypothesis "
              "(order_ok, decide). Model tied exhaustively to dali/address.py on every run.")
LEVEL_NOTE = ("Trusted: Lean kernel + 3 standard axioms; the hand model of address.py (exhaustively compared with the "
              "code on the whole finite domain each run); the Spec partition tables are my transcription of the standard."
              " dali/address.py is in addition re-translated from the source on every run (path tracing) and proved equal to the model for all 16-/24-bit frames and all integer arguments (Tie/Address.lean; fromFrame16_partition / fromFrame24_partition state the partition clause directly about the translated source).")
TECHNIQUE = "Lean 4 proof (bit-slice arithmetic + omega/grind, decide over 256 instance bytes) + exhaustive model-vs-code correspondence + source translation tie (Tie/Address, Tie/Frame: dali/address.py re-translated on every run and proved equal to the model and to the standard's partition)"

_STATE = {}


def _afrom_job(job):
    """job = (bits, list of data) -> (n, disagreements, violations)"""
    from dali import address as A
    from dali.frame import ForwardFrame
    bits, datas = job
    lines, impl = [], []
    for d in datas:
        f = ForwardFrame(bits, d)
        a = A.from_frame(f)
        i = A.instance_from_frame(f)
        lines.append("afrom %d %d" % (bits, d)); impl.append(cc.addr_tok(a))
        lines.append("ifrom %d %d" % (bits, d)); impl.append(cc.inst_tok(i))
    ans = cc.run_model("m_cmd", lines + ["spec " + l for l in lines])
    n = len(lines)
    dis, vio = [], []
    for k in range(n):
        if ans[k] != impl[k]:
            dis.append((lines[k], ans[k], impl[k]))
        if ans[n + k] != impl[k]:
            vio.append((lines[k], ans[n + k], impl[k]))
    return n, dis[:5], vio[:5]


def _aadd_job(job):
    """(index into the address list, bits, lo, hi) -> every background value: write, locality, read-back; model"""
    from dali import address as A
    from dali.frame import ForwardFrame
    idx, bits, lo, hi = job
    gear, dev = cc.all_addrs()
    a = (gear if bits == 16 else dev)[idx]
    mask = ((1 << (hi + 1)) - 1) ^ ((1 << lo) - 1)
    lines, impl, vio = [], [], []
    t = cc.addr_tok(a)
    rng = range(1 << 16) if bits == 16 else [(u << 8) | ((u * 37) & 0xFF) for u in range(1 << 16)]
    for d in rng:
        f = ForwardFrame(bits, d)
        a.add_to_frame(f)
        v = f.as_integer
        lines.append("aadd %s %d %d" % (t, bits, d)); impl.append("ok %d %d" % (bits, v))
        if (v ^ d) & ~mask:
            vio.append(("aadd %s %d %d" % (t, bits, d), "only bits %d..%d change" % (hi, lo), v))
        elif bits == 16 or (d >> 16) & 1:
            back = A.from_frame(f)
            if not (back == a) or type(back) is not type(a):
                vio.append(("aadd %s %d %d" % (t, bits, d), t, cc.addr_tok(back)))
    ans = cc.run_model("m_cmd", lines)
    dis = [(l, m, i) for l, m, i in zip(lines, ans, impl) if m != i]
    return len(lines), dis[:3], vio[:3]


def _interleave_job(seed):
    """in a freshly forked process (no slice write has happened yet): address / instance writes interleaved
    with raw slice and bit writes at the codec's coordinates on frames of OTHER widths, in random order.
    Returns (lines, impl answers, violations)."""
    import random
    from dali import address as A
    from dali.frame import ForwardFrame, Frame
    rng = random.Random(seed)
    gear, dev = cc.all_addrs()
    insts, reserved = cc.all_insts()
    widths = [9, 16, 17, 24, 25, 32, 40]
    objs = [(a, 16, 9, 15) for a in rng.sample(gear, 12)] + [(a, 24, 17, 23) for a in rng.sample(dev, 12)] + \
        [(i, 24, 8, 15) for i in rng.sample(insts + reserved, 24)]
    coords = [(15, 9), (15, 13), (12, 9), (14, 9), (23, 17), (23, 22), (21, 17), (22, 17), (15, 8)]
    lines, impl, vio = [], [], []
    for rep in range(4):
        rng.shuffle(objs)
        for o, bits, lo, hi in objs:
            for _ in range(3):
                w = rng.choice(widths)
                hh, ll = rng.choice(coords)
                if hh < w:
                    g = Frame(w, rng.randrange(1 << w))
                    g[hh:ll] = rng.randrange(1 << (hh - ll + 1))
                    g[rng.randrange(w)] = rng.random() < 0.5
            d = rng.randrange(1 << bits)
            f = ForwardFrame(bits, d)
            o.add_to_frame(f)
            mask = ((1 << (hi + 1)) - 1) ^ ((1 << lo) - 1)
            isaddr = isinstance(o, A.Address)
            tokk = cc.addr_tok(o) if isaddr else cc.inst_tok(o)
            lines.append(("aadd %s %d %d" if isaddr else "iadd %s %d %d") % (tokk, bits, d))
            impl.append("ok %d %d" % (len(f), f.as_integer))
            if (f.as_integer ^ d) & ~mask:
                vio.append(("%s written into %d-bit frame %d after slice writes on frames of other widths (seed %d)"
                            % (tokk, bits, d, seed), "only bits %d..%d change" % (hi, lo), f.as_integer))
    return lines, impl, vio


def correspond(ctx, corr):
    import dali.gear, dali.device  # noqa: the whole library, as applications import it (subclasses register themselves)
    from dali import address as A
    from dali.frame import ForwardFrame, Frame
    from dali.exceptions import IncompatibleFrame
    rng = ctx.rng
    # FIRST, before this process has performed any slice write: the interleaving suite, each run in its own
    # forked child so that no state left by an earlier run (or suite) can mask an order-dependent defect
    il_lines, il_impl = [], []
    for lines_, impl_, vio_ in cc.parmap(_interleave_job, [ctx.seed * 1000 + k for k in range(16 if not ctx.thorough else 64)]):
        il_lines += lines_; il_impl += impl_
        for inp, want, got in vio_[:3]:
            corr.violate("address:local-interleaved", inp, want, got)
    corr.nontrivial(("interleaved", "widths"))
    corr.rule.append(
        "from_frame/instance_from_frame: ALL 2^16 16-bit frames; ALL 2^16 upper halves of 24-bit frames x low byte "
        "in {0,0xff,random}; sizes 1..64 sampled. add_to_frame: all 82 gear + 98 device address objects and all 256 "
        "instance objects x backgrounds (0, all-ones, random; thorough: all 2^16 for gear) with locality + read-back "
        "checked on the real Frame; ==/!= over all ordered pairs; refusal for sizes 1..64; constructor argument grid. "
        "non-trivial = distinct (operation, kind, outcome) classes")
    # ---- decode partition: exhaustive ----
    jobs = []
    step = 4096
    for lo in range(0, 65536, step):
        jobs.append((16, list(range(lo, lo + step))))
    for lo in range(0, 65536, step):
        ds = []
        for up in range(lo, lo + step):
            for low in (0, 0xFF, rng.randrange(256)):
                ds.append((up << 8) | low)
        jobs.append((24, ds))
    for bits in range(1, 65):
        if bits in (16, 24):
            continue
        jobs.append((bits, [0, (1 << bits) - 1] + [rng.randrange(1 << bits) for _ in range(6)]))
    for n, dis, vio in cc.parmap(_afrom_job, jobs):
        corr.count("from_frame", n)
        for l, m, i in dis:
            corr.disagree("from_frame", l, m, i)
        for l, s, i in vio:
            corr.violate("address:partition", l, s, i, "decoded address/instance differs from the standard's partition")
    corr.exhaustive["from_frame 16-bit (2^16) and 24-bit upper halves (2^16)"] = True
    for k in ("gs", "gg", "gb", "gu", "none", "ds", "dg", "db", "du"):
        corr.nontrivial(("afrom", k))

    gear, dev = cc.all_addrs()
    insts, reserved = cc.all_insts()
    if ctx.thorough:
        # every address object x ALL 2^16 frames (gear) / all 2^16 upper halves (device)
        jobs = [(i, 16, 9, 15) for i in range(len(gear))] + [(i, 24, 17, 23) for i in range(len(dev))]
        for n, dis, vio in cc.parmap(_aadd_job, jobs):
            corr.count("add_to_frame_all_backgrounds", n)
            for l, m, i in dis:
                corr.disagree("add_to_frame_all_backgrounds", l, m, i)
            for l, w, g in vio:
                corr.violate("address:local", l, w, g)
        corr.exhaustive["add_to_frame: all 180 address objects x all 2^16 frames / upper halves"] = True
    lines, impl = [], []

    def add(line, ans):
        lines.append(line); impl.append(ans)

    # ---- add_to_frame: locality, read-back, refusal ----
    def backgrounds(bits, full):
        if full:
            return range(1 << bits)
        return [0, (1 << bits) - 1] + [rng.randrange(1 << bits) for _ in range(40 if not ctx.thorough else 400)]
    for objs, bits, lo, hi in ((gear, 16, 9, 15), (dev, 24, 17, 23)):
        mask = ((1 << (hi + 1)) - 1) ^ ((1 << lo) - 1)
        for a in objs:
            for d in backgrounds(bits, False):
                f = ForwardFrame(bits, d)
                if rng.random() < 0.5:
                    # a frame that has already been read is still an ordinary frame: what is written into it
                    # afterwards is what the next read must find
                    A.from_frame(f)
                    A.instance_from_frame(f)
                a.add_to_frame(f)
                add("aadd %s %d %d" % (cc.addr_tok(a), bits, d), "ok %d %d" % (len(f), f.as_integer))
                back = A.from_frame(f)
                # the property's statement on the real objects
                if (f.as_integer ^ d) & ~mask:
                    corr.violate("address:local", "aadd %s %d %d" % (cc.addr_tok(a), bits, d),
                                 "only bits %d..%d change" % (hi, lo), f.as_integer)
                if bits == 16 or (d >> 16) & 1:
                    if not (back == a) or back != a or type(back) is not type(a):
                        corr.violate("address:readback", "aadd %s %d %d" % (cc.addr_tok(a), bits, d),
                                     cc.addr_tok(a), cc.addr_tok(back))
                elif back is not None:
                    corr.violate("address:event-frame", "aadd %s %d %d" % (cc.addr_tok(a), bits, d), "none",
                                 cc.addr_tok(back))
            corr.nontrivial(("aadd", cc.addr_tok(a)))
            add("astr " + cc.addr_tok(a), str(a).replace(" ", "_"))
    for i in insts + reserved:
        for d in backgrounds(24, False):
            f = ForwardFrame(24, d)
            if rng.random() < 0.5:
                A.instance_from_frame(f)
                A.from_frame(f)
            i.add_to_frame(f)
            add("iadd %s 24 %d" % (cc.inst_tok(i), d), "ok 24 %d" % f.as_integer)
            back = A.instance_from_frame(f)
            if (f.as_integer ^ d) & ~0xFF00:
                corr.violate("instance:local", "iadd %s 24 %d" % (cc.inst_tok(i), d), "only bits 15..8 change",
                             f.as_integer)
            if not (back == i) or type(back) is not type(i):
                corr.violate("instance:readback", "iadd %s 24 %d" % (cc.inst_tok(i), d), cc.inst_tok(i),
                             cc.inst_tok(back))
        corr.nontrivial(("iadd", cc.inst_tok(i)))
        add("istr " + cc.inst_tok(i), str(i).replace(" ", "_"))
    # wrong sizes: refused, frame untouched
    for bits in range(1, 65):
        d = rng.randrange(1 << bits)
        for a in [gear[0], gear[1], gear[5], gear[30], dev[0], dev[1], dev[9], dev[60]]:
            if bits == (16 if a in gear else 24):
                continue
            f = ForwardFrame(bits, d)
            st, r = outcome_cls(lambda: a.add_to_frame(f))
            add("aadd %s %d %d" % (cc.addr_tok(a), bits, d), "err " + r if st == "err" else "ok %d %d" % (len(f), f.as_integer))
            if r != "IncompatibleFrame" or f.as_integer != d:
                corr.violate("address:refuse", "aadd %s %d %d" % (cc.addr_tok(a), bits, d), "IncompatibleFrame, frame unchanged",
                             "%s %d" % (r, f.as_integer))
        if bits != 24:
            for i in (insts[0], insts[40], insts[-1], insts[-4], reserved[3]):
                f = ForwardFrame(bits, d)
                st, r = outcome_cls(lambda: i.add_to_frame(f))
                add("iadd %s %d %d" % (cc.inst_tok(i), bits, d), "err " + r if st == "err" else "ok %d %d" % (len(f), f.as_integer))
                if r != "IncompatibleFrame" or f.as_integer != d:
                    corr.violate("instance:refuse", "iadd %s %d %d" % (cc.inst_tok(i), bits, d),
                                 "IncompatibleFrame, frame unchanged", "%s %d" % (r, f.as_integer))
    corr.nontrivial(("refuse", "sizes"))
    # ---- equality over all ordered pairs ----
    alla = gear + dev
    # benign observations on a random half of the objects first (use as a dict key, hash, str, repr, copy, vars):
    # equality must depend on kind and number only, not on what was done to an object before
    import copy
    fresh_g, fresh_d = cc.all_addrs()
    fresh_i, fresh_r = cc.all_insts()
    for o in rng.sample(alla, len(alla) // 2) + rng.sample(insts + reserved, 100):
        for obs in (hash, lambda x: {x: 1}, str, repr, copy.copy, vars, bool):
            try:
                obs(o)
            except TypeError:
                pass
    for x, y in zip(alla + insts + reserved, fresh_g + fresh_d + fresh_i + fresh_r):
        if not (x == y) or (x != y) or not (y == x):
            corr.violate("address:eq-after-observation", "%s compared with a fresh equal object after hash/str/copy"
                         % (cc.addr_tok(x) if isinstance(x, A.Address) else cc.inst_tok(x)), True, False)
    for x in alla:
        for y in alla:
            e = bool(x == y)
            add("aeq %s %s" % (cc.addr_tok(x), cc.addr_tok(y)), "1" if e else "0")
            want = cc.addr_tok(x) == cc.addr_tok(y)
            if e != want or bool(x != y) == want:
                corr.violate("address:eq", "aeq %s %s" % (cc.addr_tok(x), cc.addr_tok(y)), want, e)
    alli = insts + reserved
    for x in alli:
        for y in alli:
            e = bool(x == y)
            add("ieq %s %s" % (cc.inst_tok(x), cc.inst_tok(y)), "1" if e else "0")
            want = cc.inst_tok(x) == cc.inst_tok(y)
            if e != want or bool(x != y) == want:
                corr.violate("instance:eq", "ieq %s %s" % (cc.inst_tok(x), cc.inst_tok(y)), want, e)
    corr.exhaustive["==/!= over all ordered pairs of 180 address and 256 instance objects"] = True
    for o in (5, "x", None, object()):
        if alla[3] == o or insts[3] == o or insts[-1] == o:
            corr.violate("address:eq-foreign", repr(o), False, True)
    # ---- constructors ----
    ctor = {"gs": A.GearShort, "ds": A.DeviceShort, "gg": A.GearGroup, "dg": A.DeviceGroup}
    ictor = {"n": A.InstanceNumber, "g": A.InstanceGroup, "t": A.InstanceType, "fn": A.FeatureInstanceNumber,
             "fg": A.FeatureInstanceGroup, "ft": A.FeatureInstanceType}
    vals = [-1, 0, 15, 16, 31, 32, 63, 64, True, False, None, 1.0, 1.5, "3", [1]]
    for k, c in ctor.items():
        for v in vals:
            st, r = outcome_cls(lambda: c(v))
            add("mkaddr %s %s" % (k, cc.tok(v)), "ok " + cc.addr_tok(r) if st == "ok" else "err " + r)
            corr.nontrivial(("mkaddr", k, st, r if st == "err" else ""))
    for k, c in ictor.items():
        for v in vals:
            st, r = outcome_cls(lambda: c(v))
            add("mkinst %s %s" % (k, cc.tok(v)), "ok " + cc.inst_tok(r) if st == "ok" else "err " + r)
            corr.nontrivial(("mkinst", k, st, r if st == "err" else ""))
    lines += il_lines; impl += il_impl
    ans = cc.run_model("m_cmd", lines)
    for l, m, i in zip(lines, ans, impl):
        if m != i:
            corr.disagree("address_ops", l, m, i)
    corr.count("address_ops", len(lines))
    corr.sample({"suite": "from_frame", "request": "afrom 16 33281", "impl": cc.addr_tok(A.from_frame(ForwardFrame(16, 33281)))})
    corr.sample({"suite": "address_ops", "request": lines[0], "impl": impl[0]})


def outcome_cls(fn):
    try:
        return "ok", fn()
    except Exception as e:  # noqa
        return "err", exc_name(e)


def replay(ctx, payload):
    from dali import address as A
    from dali.frame import ForwardFrame
    v = payload.get("failure", {})
    line = str(v.get("input", ""))
    parts = line.split()
    if parts and parts[0] in ("afrom", "ifrom"):
        bits, d = int(parts[1]), int(parts[2])
        f = ForwardFrame(bits, d)
        impl = cc.addr_tok(A.from_frame(f)) if parts[0] == "afrom" else cc.inst_tok(A.instance_from_frame(f))
        spec = cc.run_model("m_cmd", ["spec " + line])[0]
        print("input:", line, "implementation:", impl, "standard:", spec)
        return impl != spec
    print("replay by re-running the quick check (input: %s)" % line)
    corr = __import__("common").Corr()
    correspond(ctx, corr)
    return bool(corr.violations)
