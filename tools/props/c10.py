"""C10 — memory writes store exactly the data or fail loudly; never silently.

Lock-step: the real `MemoryValue.write_raw / write` are driven against the Lean
specification memory unit (exe m_memseq, the same unit as C09 plus the fault
behaviours of DESIGN Appendix A); the driver checks every yielded command
against its model, answers as the specification unit, and evaluates the
post-condition: a normal return (without ignore_feedback) means exactly the
data is at exactly the value's locations, nothing else changed and a lockable
bank is locked again; a refused value sends nothing; every other outcome is
one of the documented exceptions."""
from common import exc_name  # noqa: E402
from common import InfraError, hot_addr
from props._devmem_lockstep import LockStep, judge
from props import _devmem_memunit as mu

ID = "C10"
MODULE = "DaliVerif.Props.C10"
EXES = ["m_memseq"]
GEN = True
THEOREMS = ["write_refused_early", "write_ok_spec", "write_ok_spec_unlock", "writeAll_spec",
            "write_not_writable", "write_fault_loud", "write_stall_loud", "writeLoop_spec", "tables_ok",
            "tables_consecutive"]
TRUSTED = [
    "hand-written model Model/MemSeq.lean (writeRaw) of dali/memory/location.py (tied by this lock-step correspondence)",
    "specification unit Spec/MemUnit.lean = my reading of IEC 62386-102 §9.10 (DESIGN Appendix A); the only oracle",
    "translator plugin tools/gen/memseq.py",
]
ASSUMPTIONS = [
    "write_ok_spec: the unit listens, is conforming (advances DTR0, unlocks with 0x55), implements the bank; the value's "
    "locations are distinct, fit a byte and do not include the lock byte (the LockByte value itself is tied by the "
    "correspondence only)",
    "value_to_raw is C11's; `write` is tied to write_raw(value_to_raw(v)) by calling the real conversion",
    "send-twice ENABLE WRITE MEMORY is delivered to the unit as one accepted command",
]
PARTIAL = ("write_fault_loud is proved against an arbitrary responder for the response-level faults (NO, wrong echo, "
           "garbled, wrong DTR0 read-back): a normal return implies every write was echoed correctly and DTR0 read back "
           "as expected. The unit-level deviation 'does not advance DTR0' (on one frame, on some, on all) is covered by "
           "write_stall_loud for values with consecutive locations (all declared ones: tables_consecutive): a normal "
           "return implies exactly the data is stored; that the outcome is then MemoryWriteFailure is tied by the "
           "stall/deviating suites. Non-standard unlock value / shorter bank are covered for the conforming-unit side by "
           "write_not_writable (a cell that cannot be written => MemoryLocationNotWriteable) and otherwise by the "
           "correspondence suites only.")
LEVEL_TEXT = ("Lean 4 theorems about write_raw against a specification memory unit: values with a read-only location and "
              "wrong lengths are refused before anything is sent; for a conforming unit where every target cell can be "
              "written the run returns normally and the memory afterwards holds exactly the data at exactly the "
              "locations (everything else unchanged, lock byte 0xFF again if it was unlocked); if a cell cannot be "
              "written the run raises MemoryLocationNotWriteable; against any responder a normal return (feedback "
              "not ignored) implies every write was echoed with its own value and DTR0 read back as tracked, and the "
              "only exceptions are the documented ones. Induction over the (location, byte) list; no bounds.")
LEVEL_NOTE = ("Trusted: Lean kernel; axioms propext/Classical.choice/Quot.sound; hand-written model tied by lock-step "
              "runs (all declared values x flags x lock byte states x gear/device x one fault of each kind at each "
              "step x deviating units); specification unit = my reading of IEC 62386-102.")
TECHNIQUE = "Lean 4 proofs over resumption models vs a specification memory unit + lock-step model/code/spec correspondence"

WRITEABLE = ("RAM_RW", "NVM_RW", "NVM_RW_L", "NVM_RW_P")


def run_write(ls, sc):
    lines = [mu.unit_line(sc["unit"])]
    if sc.get("fault"):
        lines.append(sc["fault"])
    if sc.get("stall"):
        # the unit does not advance DTR0 on these frames (indices into the command stream)
        lines.append("stall " + ",".join(str(k) for k in sc["stall"]))
    call = sc["call"]
    b, v = mu.find_value(call["value"])
    addr = mu.addr_obj(call["arg"], call["a"])
    kw = {}
    for k in ("allow_short_write", "force_unlock", "ignore_feedback"):
        if call.get(k) is not None:
            kw[k] = call[k]
    if call["kind"] == "write_raw":
        raw = bytes(call["raw"])
        gen = v.write_raw(addr, raw, **kw)
        short = bool(kw.get("allow_short_write"))
    else:
        # write(): the raw the model is told = the real conversion (C11)
        try:
            raw = v.value_to_raw(call["pyvalue"])
        except Exception as e:  # noqa
            return "skip", {"post": "ok", "sync": "1", "model": "skip"}, None, []
        from dali.memory.location import StringValue
        short = True if issubclass(v, StringValue) else bool(kw.get("allow_short_write"))
        gen = v.write(addr, call["pyvalue"], **kw)
    lines.append("seq writeraw %s %d %s %s %d %d %d" % (
        call["arg"], call["a"], call["value"], ",".join(str(x) for x in raw) if len(raw) else "-",
        1 if short else 0, 1 if kw.get("force_unlock") else 0, 1 if kw.get("ignore_feedback") else 0))
    ls.setup(lines)
    end, trace, badop = ls.drive(gen, lambda r: "u")
    res = ls.finish(end)
    return end, res, badop, trace


_CALL_LOG = []
EARLIER = "earlier calls on this bank and address in this process"


def one(ls, corr, suite, sc, key):
    # what the library may remember from earlier calls (a cache keyed by bank / address) is part of the input:
    # recorded with the scenario so that a replay in a fresh process repeats it
    call = sc["call"]
    bank = call["value"].rsplit(".", 1)[0]
    same = [c for c in _CALL_LOG if c["value"].rsplit(".", 1)[0] == bank and (c["arg"], c["a"]) == (call["arg"], call["a"])]
    if same and not sc.get("fault") and not sc.get("stall"):
        sc[EARLIER] = same[-8:]
    _CALL_LOG.append(dict(call))
    end, res, badop, trace = run_write(ls, sc)
    if end == "skip":
        return end, trace
    judge(corr, suite, sc, end, res, badop, key)
    return end, trace


def fault_runs(ls, corr, suite, sc, key, trace, rng, limit=None):
    pos = list(range(len(trace)))
    if limit and len(pos) > limit:
        pos = sorted(rng.sample(pos, limit))
    n = 0
    for k in pos:
        name = trace[k][0]
        kinds = ["none", "err"]
        if name == "WriteMemoryLocation":
            kinds.append("byte %d" % ((trace[k][2] + 1) % 256))      # echoes another byte
        if name == "QueryContentDTR0":
            kinds.append("byte %d" % ((int(trace[k][3][5:]) + 1) % 256 if trace[k][3].startswith("byte") else 7))
        for f in kinds:
            sc2 = dict(sc)
            sc2["fault"] = "fault %d %s" % (k, f)
            end, _ = one(ls, corr, suite, sc2, key + ":fault")
            corr.bump("fault:%s:%s:%s" % (name, f.split()[0], end.split()[0] + (":" + end.split()[1] if end.startswith("err") else "")))
            if name in ("WriteMemoryLocation", "QueryContentDTR0") and end.startswith("ok") \
                    and not sc["call"].get("ignore_feedback") and not (f.startswith("byte") is False and False):
                # a fault on an answer the code must check, reported as success
                if f != trace[k][3]:
                    corr.violate(key + ":silent", sc2, "a documented exception", end,
                                 "fault on %s answered %s was reported as success" % (name, f))
            n += 1
    return n


WRITES = ("WriteMemoryLocation", "WriteMemoryLocationNoReply")


def stall_runs(ls, corr, suite, sc, key, trace, rng):
    """The unit fails to advance DTR0 on selected frames only (every single write frame k, all the
    data writes, random pairs).  The oracle is the post-condition on the unit's final memory:
    a normal return must have stored exactly the bytes at exactly the locations."""
    wpos = [k for k, t in enumerate(trace) if t[0] in WRITES]
    data = [k for k, t in enumerate(trace) if t[0] == "WriteMemoryLocation"]
    sets = [[k] for k in wpos]
    if len(data) > 1:
        sets.append(list(data))                 # no data write advances, the lock-byte writes do
        sets.append(list(data[:-1]))
        sets.append(sorted(rng.sample(data, 2)))
    if len(wpos) > 2:
        sets.append(sorted(rng.sample(wpos, 2)))
    n = 0
    for ks in sets:
        sc2 = dict(sc)
        sc2["stall"] = ks
        end, _ = one(ls, corr, suite, sc2, key)
        what = "all-data" if ks == data and len(ks) > 1 else \
            "+".join(sorted(set(("data" if trace[k][0] == "WriteMemoryLocation" else "lockbyte") for k in ks)))
        corr.bump("stall:%s:%s" % (what, end))
        corr.nontrivial((sc["call"]["value"], "stall", what, len(ks), end, bool(sc["call"].get("force_unlock"))))
        n += 1
    return n


def correspond(ctx, corr):
    ls = LockStep("m_memseq")
    try:
        _correspond(ctx, corr, ctx.rng, ctx.thorough, ls)
    finally:
        ls.close()
    derived_suite(ctx, corr)


def derived_suite(ctx, corr):
    """'values with any read-only location are refused before anything is sent' also for a value DERIVED from a
    writable declared one (a vendor bank re-using a coding at read-only locations), and whatever was written
    through the parent before: the first step of its write sequence raises, no command is yielded."""
    from dali.memory import location as L, oem
    from dali.address import GearShort
    n = 0
    parents = [v for v in (getattr(oem, "CCT", None), getattr(oem, "LuminaireColor", None),
                           getattr(oem, "ManufacturerGTIN", None), getattr(oem, "NominalLightOutput", None))
               if v is not None and all(l.type_.name in WRITEABLE for l in v.locations)]
    for parent in parents:
        w = len(parent.locations)
        # the parent's own write is started first (its checks pass; the first command is all that is looked at)
        try:
            g = parent.write_raw(GearShort(1), bytes(w))
            first = next(g)
            g.close()
        except Exception as e:  # noqa
            first = "raises " + exc_name(e)
        for typ in (L.MemoryType.ROM, L.MemoryType.NVM_RO, L.MemoryType.RAM_RO):
            scratch = L.MemoryBank(242, 0xfe, has_lock=True)

            def derive(par=parent, b=scratch, t=typ, n_=w):
                class Derived(par):
                    bank = b
                    locations = L.MemoryRange(0x10, 0x10 + n_ - 1, default=0, type_=t)
                return Derived
            try:
                child = derive()
            except Exception as e:  # noqa
                corr.violate("write:derived", {"parent": parent.name, "type": str(typ)}, "declared", exc_name(e))
                continue
            sent = []
            try:
                g = child.write_raw(GearShort(1), bytes(w))
                while True:
                    sent.append(str(g.send(None)))
                    if len(sent) > 3:
                        g.close()
                        break
                out = "yielded " + ", ".join(sent)
            except StopIteration:
                out = "returned after " + str(len(sent)) + " commands"
            except Exception as e:  # noqa
                out = "raises %s after %d commands" % (exc_name(e), len(sent))
            if out != "raises MemoryValueNotWriteable after 0 commands":
                corr.violate("write:derived-readonly", {"parent": parent.name, "derived locations": str(typ),
                                                        "parent written first": str(first)},
                             "raises MemoryValueNotWriteable after 0 commands", out,
                             "a value with read-only locations must be refused before anything is sent")
            n += 1
    corr.count("derived_readonly", n)


def _correspond(ctx, corr, rng, T, ls):
    vals = mu.all_values()
    nw = sum(1 for _, _, v in vals if all(l.type_.name in WRITEABLE for l in v.locations))
    corr.rule.append(
        "lock-step against the Lean memory specification unit: every declared value (%d, %d writable) x raw data "
        "(zero, FF, random) of the right and of wrong lengths, short writes x lock byte initially FF/55/AA/odd x "
        "gear/device/int x force_unlock / ignore_feedback; write() with MASK/TMASK literals, numbers and strings; "
        "one fault of each kind (NO, framing error, other byte) at each command position; deviating units (does not "
        "advance DTR0, other unlock value, shorter bank, hole, cell read-only in the unit); a unit that does not advance "
        "DTR0 on ONE write frame only (every k), on all data writes, on random pairs, for every writable value with and "
        "without force_unlock (oracle: final memory of the specification unit). "
        "non-trivial = distinct (value, outcome class, flags, unit deviation)" % (len(vals), nw))
    corr.exhaustive["all suites are sampled (every declared value is visited)"] = False
    suite = "write_raw"
    n = nf = 0
    for key, b, v in vals * (4 if T else 1):
        vk = key + "." + v.name
        nloc = len(v.locations)
        writable = all(l.type_.name in WRITEABLE for l in v.locations)
        lens = sorted(set([nloc, nloc - 1, nloc + 1, 0, 1]))
        for ln in lens + [nloc] * (6 if T else 2):
            if ln < 0:
                continue
            for short in (False, True):
                if not writable and (short or ln not in (nloc, nloc + 1)):
                    continue
                arg = rng.choice(["g", "d", "i"])
                a = hot_addr(rng)
                u = mu.mk_unit(b, rng, kind="random", dev=(arg == "d"), addr=a,
                               lockByte=rng.choice([0xFF, 0xFF, 0x55, 0xAA, 0x13]))
                raw = [rng.choice([0, 0xFF, rng.randrange(256)]) for _ in range(ln)]
                sc = {"unit": u, "call": {"kind": "write_raw", "arg": arg, "a": a, "value": vk, "raw": raw,
                                          "allow_short_write": short or None,
                                          "force_unlock": rng.choice([None, None, True]),
                                          "ignore_feedback": rng.choice([None, None, None, True])}}
                end, trace = one(ls, corr, suite, sc, "write_raw")
                corr.nontrivial((vk, end, ln - nloc, short))
                n += 1
                if writable and ln == nloc and not short and not sc["call"]["ignore_feedback"]:
                    if not end.startswith("ok"):
                        corr.violate("write_raw:conforming-refused", sc, "ok", end,
                                     "a conforming unit with every cell writable must accept the write")
                    nf += fault_runs(ls, corr, suite + "_faults", sc, "write_raw", trace, rng,
                                     limit=None if (T or nloc <= 6) else 8)
        if not writable:
            continue
        # deviating units
        locs = [l.address for l in v.locations]
        for dev_kind in ("noadvance", "unlock", "short", "hole", "readonly", "absent", "otherbank"):
            arg = rng.choice(["g", "d"])
            a = rng.randrange(63)
            u = mu.mk_unit(b, rng, kind="random", dev=(arg == "d"), addr=a)
            aa = a
            if dev_kind == "noadvance":
                u["advance"] = False
            elif dev_kind == "unlock":
                u["unlock"] = 0x56
            elif dev_kind == "short":
                u["last"] = rng.choice([locs[0] - 1, locs[-1] - 1, 1, 2])
            elif dev_kind == "hole":
                h = rng.choice(locs)
                u["cells"][h] = "-"
            elif dev_kind == "readonly":
                h = rng.choice(locs)
                u["cells"][h] = "r" + u["cells"][h][1:]
            elif dev_kind == "absent":
                aa = a + 1
            else:
                u["bank"] = (b.address + 3) % 256
            raw = [rng.randrange(256) for _ in locs]
            for igf in (None, True):
                sc = {"unit": u, "call": {"kind": "write_raw", "arg": arg, "a": aa, "value": vk, "raw": raw,
                                          "ignore_feedback": igf}}
                end, trace = one(ls, corr, suite + "_deviating", sc, "write_raw:" + dev_kind)
                corr.nontrivial((vk, dev_kind, end, igf))
                corr.bump("deviating:%s:%s" % (dev_kind, end))
                n += 1
    corr.count(suite, n)
    corr.count(suite + "_faults", nf)
    corr.sample({"suite": suite, "value": vk, "outcome": end})

    # ---- a unit that does not advance DTR0 on ONE frame (every write frame k) / on some frames ----------
    # every writable value, with and without force_unlock, feedback checked; data bytes differ from
    # the old cell contents and from their neighbours, so a byte that lands one location low shows
    suite = "write_raw_stall"
    ns = 0
    for key, b, v in vals:
        if not all(l.type_.name in WRITEABLE for l in v.locations):
            continue
        vk = key + "." + v.name
        locs = [l.address for l in v.locations]
        for fu in (None, True):
            for rep in range(2 if T else 1):
                arg = rng.choice(["g", "d"])
                a = hot_addr(rng)
                u = mu.mk_unit(b, rng, kind="random", dev=(arg == "d"), addr=a,
                               lockByte=rng.choice([0xFF, 0xFF, 0x55, 0xAA, 0x13]))
                raw = []
                for l in locs:
                    old = int(u["cells"][l][1:]) if u["cells"][l] != "-" else 0
                    x = rng.randrange(256)
                    while x == old or (raw and x == raw[-1]) or x in (0x55, 0xFF):
                        x = rng.randrange(256)
                    raw.append(x)
                sc = {"unit": u, "call": {"kind": "write_raw", "arg": arg, "a": a, "value": vk, "raw": raw,
                                          "force_unlock": fu}}
                end, trace = one(ls, corr, suite, sc, "write_raw:stall")
                ns += 1
                if not end.startswith("ok"):
                    corr.violate("write_raw:conforming-refused", sc, "ok", end,
                                 "a conforming unit with every cell writable must accept the write")
                    continue
                ns += stall_runs(ls, corr, suite, sc, "write_raw:stall", trace, rng)
    corr.count(suite, ns)

    # ---- write(): value -> raw by the real conversion, then the same sequence -------------------------
    suite = "write"
    n = 0
    from dali.memory.location import NumericValue, StringValue
    for key, b, v in vals:
        if not all(l.type_.name in WRITEABLE for l in v.locations):
            continue
        vk = key + "." + v.name
        nloc = len(v.locations)
        cands = []
        if issubclass(v, NumericValue):
            cands += [0, 1, (1 << (8 * nloc - 1)) - 1, "MASK", "TMASK", rng.randrange(1 << (8 * nloc - 1))]
        elif issubclass(v, StringValue):
            cands += ["", "A", "x" * nloc, "y" * (nloc - 1), "z" * (nloc + 1), "Luminaire 7"[:nloc]]
        else:
            cands += [bytes(nloc), True, 0]
        for pv in cands:
            # the unit's lock / latch byte as the application may have left it: locked (FF), unlocked by an earlier
            # write that failed (55), latched (AA), odd - a write of a value that is NOT lockable leaves it alone
            for lb in (0xFF, 0x55, rng.choice([0xAA, 0x13])):
                arg = rng.choice(["g", "d"])
                a = hot_addr(rng)
                u = mu.mk_unit(b, rng, kind="random", dev=(arg == "d"), addr=a, lockByte=lb)
                sc = {"unit": u, "call": {"kind": "write", "arg": arg, "a": a, "value": vk, "pyvalue": pv}}
                if lb != 0xFF and rng.random() < 0.3:
                    sc["call"]["force_unlock"] = True
                end, trace = one(ls, corr, suite, sc, "write")
                if end != "skip":
                    corr.nontrivial((vk, "write", end, str(pv)[:6], lb == 0xFF))
                    n += 1
    # invalid address arguments
    key, b, v = [x for x in vals if x[2].name == "LockByte"][0]
    for arg, a in (("o", 0), ("i", 64)):
        sc = {"unit": mu.mk_unit(b, rng), "call": {"kind": "write_raw", "arg": arg, "a": a,
                                                   "value": key + ".LockByte", "raw": [0x55]}}
        end, trace = one(ls, corr, suite, sc, "write:badaddr")
        n += 1
    corr.count(suite, n)


def replay(ctx, payload):
    v = payload.get("failure", {})
    sc = v.get("input")
    if not isinstance(sc, dict) or "call" not in sc:
        print("replay: nothing to re-run for", sc)
        return True
    ls = LockStep("m_memseq")
    try:
        for c in sc.get(EARLIER, []):
            try:
                run_write(ls, {"unit": sc["unit"], "call": c})
            except Exception as e:  # noqa
                print("earlier call", c, "->", exc_name(e))
        end, res, badop, trace = run_write(ls, sc)
        state = ls.ask("state")
    finally:
        ls.close()
    print("call:", sc["call"], sc.get("fault", ""),
          ("unit does not advance DTR0 on frame(s) %s" % sc["stall"]) if sc.get("stall") else "")
    print("unit: bank %d last %d lockByte %d advance %s unlock %s" % (
        sc["unit"]["bank"], sc["unit"]["last"], sc["unit"]["lockByte"], sc["unit"].get("advance", True),
        sc["unit"].get("unlock", 0x55)))
    print("commands sent by the real code:")
    for t in trace:
        print("   %s %d 0x%x -> %s" % t)
    print("real code outcome:", end)
    print("driver verdict:", res.get("answer", "")[:300])
    print("unit afterwards:", state[:80])
    silent = v.get("key", "").endswith(":silent") and end.startswith("ok")
    return silent or res.get("post", "ok") != "ok" or res.get("sync") != "1" or \
        res.get("model", "").replace("~", " ") != end
