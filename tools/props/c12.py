"""C12 — event messages: scheme fields and instance-type resolution are exact.

Correspondence: what the real decoded event object reports (short_address,
instance_number, device_group, instance_group, instance_type, event data) vs
the Lean model's observation; oracle: vs `Spec.expectedObs` (Table 3 of part
103 + parts 301/303/304), plus retry_decode and the mapper's add/get."""
from common import exc_name  # noqa: E402
import types
from props import cmdcommon as cc

ID = "C12"
MODULE = "DaliVerif.Props.C12"
EXES = ["m_cmd"]
GEN = True
THEOREMS = ["event_tables_ok", "decode_event", "event_decode_spec", "event_decode_spec_gen", "devinst_via_map",
            "ambiguous_iff_absent", "retry_eq_direct", "map_build"]
TRUSTED = ["the event branch of Model/Decode.lean (tied: all 2^23 event-space frames without a map in the thorough "
           "tier, 4*10^5 sampled in quick; device/instance frames x maps x types 0..31 and unimplemented)",
           "Spec/EventSpec.lean: Table 3 of IEC 62386-103 and the event codes of parts 301/303/304 transcribed from my "
           "knowledge of the standard"]
ASSUMPTIONS = ["instance-type maps return integers"]
PARTIAL = ("the three argument forms of add_type (int / address object / module) are reduced to integers by the harness "
           "before reaching the model; map_build is about the integer form")
LEVEL_TEXT = ("Lean 4 theorems for ALL 24-bit event frames and ALL maps: the decoded object reports exactly the fields, "
              "information bits and event class the standard's Table 3 / parts 301-304 give (event_decode_spec), a map "
              "entry acts exactly like a type carried in the frame (devinst_via_map), ambiguity iff no entry "
              "(ambiguous_iff_absent), retry = direct decode (retry_eq_direct), map build law (map_build); the event "
              "registries regenerated from the tree are the standard's (event_tables_ok, decide).")
LEVEL_NOTE = ("Trusted: Lean kernel + 3 axioms; the hand model of _Event.from_frame tied to the code exhaustively (thorough) / "
              "by 4*10^5 samples (quick); Spec tables are my transcription of the standard.")
TECHNIQUE = "Lean 4 proof (case analysis on scheme bits + omega; registries by decide +kernel) + exhaustive/sampled model-vs-code and spec-vs-code comparison of decoded event fields"


def obs_of(c):
    from dali.device import general as dg, pushbutton, occupancy, light
    if not isinstance(c, dg._Event):
        return "none"
    sa = c.short_address.address if c.short_address is not None else None
    f = lambda x: "-" if x is None else str(int(x))
    if isinstance(c, dg.AmbiguousInstanceType):
        mng = "unk:%d" % c.event_data
    elif isinstance(c, dg.UnknownEvent):
        mng = "unk:%d" % c.event_data
    elif isinstance(c, pushbutton._PushbuttonEvent):
        mng = "push:" + type(c).__name__
    elif isinstance(c, occupancy.OccupancyEvent):
        mng = "occ:%d,%d,%d,%d" % (c.movement, c.occupied, c.repeat, c.sensor_type == "movement")
    elif isinstance(c, light.LightEvent):
        mng = "light:%d" % c.illuminance
    else:
        mng = "other:" + type(c).__name__
    return "sa=%s in=%s dg=%s ig=%s it=%s m=%s" % (f(sa), f(c.instance_number), f(c.device_group),
                                                   f(c.instance_group), f(c.instance_type), mng)


def _obs_job(job):
    from dali import command
    from dali.frame import ForwardFrame
    from dali.device.helpers import DeviceInstanceTypeMapper
    lines, impl = [], []
    for d, m in job:
        mp = None if m is None else DeviceInstanceTypeMapper(dict(m))
        try:
            c = command.from_frame(ForwardFrame(24, d), dev_inst_map=mp)
            impl.append(obs_of(c))
        except Exception as e:  # noqa
            impl.append("RAISED " + exc_name(e))
        lines.append("obs %d 0 %s" % (d, cc.map_tok(m)))
    ans = cc.run_model("m_cmd", lines + ["spec " + l for l in lines])
    n = len(lines)
    dis = [(lines[k], ans[k], impl[k]) for k in range(n) if ans[k] != impl[k]]
    vio = [(lines[k], ans[n + k], impl[k]) for k in range(n) if ans[n + k] != impl[k]]
    kinds = set(i.split("m=")[-1].split(":")[0] for i in impl)
    return n, dis[:5], vio[:5], kinds


def correspond(ctx, corr):
    rng = ctx.rng
    jobs = []
    types_ = list(range(32)) + [32, 99, 1000]
    if ctx.thorough:
        # all 2^23 event-space frames (bit 16 = 0) without a map
        for hi in range(128):
            for b15 in range(0, 1 << 16, 1 << 13):
                jobs.append([((hi << 17) | lo, None) for lo in range(b15, b15 + (1 << 13))])
        corr.exhaustive["all 2^23 event-space frames without a map"] = True
    else:
        for _ in range(40):
            job = []
            for _ in range(10000):
                d = rng.randrange(1 << 24) & ~(1 << 16)
                job.append((d, None))
            jobs.append(job)
        # every scheme x all 1024 information values at fixed fields, incl. all occupancy/illuminance values
        for up in (0x00, 0x0A, 0x80, 0x8A, 0xC0, 0xCA, 0x86):
            for t in (0, 1, 3, 4, 5, 31):
                jobs.append([((((up << 16) | (b15 << 15) | (t << 10) | info) & ~(1 << 16)), None)
                             for b15 in (0, 1) for info in range(1024)])
        corr.exhaustive["all 1024 information values for every scheme x types {0,1,3,4,5,31}"] = True
    # device/instance frames x maps with and without a matching entry x all types
    n = 300000 if ctx.thorough else 60000
    job = []
    for _ in range(n):
        sa, inum, info = rng.randrange(64), rng.randrange(32), rng.choice([rng.randrange(1024), rng.randrange(16)])
        d = (sa << 17) | (1 << 15) | (inum << 10) | info
        k = rng.random()
        if k < 0.1:
            m = None
        elif k < 0.2:
            m = {}
        elif k < 0.35:
            m = {((sa + 1) % 64, inum): rng.choice(types_), (sa, (inum + 1) % 32): rng.choice(types_)}
        else:
            m = {(sa, inum): rng.choice(types_)}
        job.append((d, m))
        if len(job) == 10000:
            jobs.append(job); job = []
    if job:
        jobs.append(job)
    corr.rule.append(
        "event frames: %s; device/instance frames x maps (None, empty, other key, matching entry) x instance types 0..31, "
        "32, 99, 1000; all 1024 information values per scheme; compared: short address, instance number, device group, "
        "instance group, instance type, event class and data. non-trivial = distinct (scheme, meaning kind)" %
        ("ALL 2^23 without a map" if ctx.thorough else "4*10^5 random without a map"))
    for n_, dis, vio, kinds in cc.parmap(_obs_job, jobs):
        corr.count("event_obs", n_)
        for l, m, i in dis:
            corr.disagree("event_obs", l, m, i)
        for l, s, i in vio:
            corr.violate("event:fields", l, s, i, "decoded event differs from Table 3 / parts 301-304")
        for k in kinds:
            corr.nontrivial(("meaning", k))
    # ---- retry_decode ----
    from dali import command
    from dali.frame import ForwardFrame
    from dali.device.helpers import DeviceInstanceTypeMapper
    from dali.device import general as dg, pushbutton, occupancy, light
    from dali.address import DeviceShort, InstanceNumber
    lines, impl = [], []
    for _ in range(3000 if not ctx.thorough else 20000):
        sa, inum, info = rng.randrange(64), rng.randrange(32), rng.randrange(1024)
        d = (sa << 17) | (1 << 15) | (inum << 10) | info
        # the first decode happens without a map, with an empty map, or with a map that has other entries
        first = rng.choice([None, {}, {((sa + 1) % 64, inum): 1}, {(sa, (inum + 1) % 32): 4, ((sa + 7) % 64, inum): 3}])
        first_mp = None if first is None else DeviceInstanceTypeMapper(dict(first))
        the_frame = ForwardFrame(24, d)
        amb = command.from_frame(the_frame, dev_inst_map=first_mp)
        if not isinstance(amb, dg.AmbiguousInstanceType):
            corr.violate("event:ambiguous", "dec 24 %d 0 -" % d, "AmbiguousInstanceType", cc.clsname(amb))
            continue
        m = {(sa, inum): rng.choice(types_)} if rng.random() < 0.7 else {((sa + 1) % 64, inum): 1}
        if first_mp is not None and rng.random() < 0.5:
            # one mapper object per bus: the SAME mapper that did not know the instance a moment ago has learned
            # it in the meantime, and the SAME frame object is decoded again
            mp = first_mp
            for (sa_, in_), t_ in m.items():
                mp.add_type(short_address=sa_, instance_number=in_, instance_type=t_)
            merged = dict(first)
            merged.update(m)
            m = merged
            r = amb.retry_decode(mp)
            direct = command.from_frame(the_frame, dev_inst_map=mp)
            fresh = command.from_frame(ForwardFrame(24, d), dev_inst_map=DeviceInstanceTypeMapper(dict(m)))
            if obs_of(direct) != obs_of(fresh) or type(direct) is not type(fresh):
                corr.violate("event:map-learned", "dec 24 %d with a mapper that learned %s after a first decode" % (
                    d, cc.map_tok(m)), obs_of(fresh), obs_of(direct),
                    "decoding must follow the map's present contents")
        else:
            mp = DeviceInstanceTypeMapper(dict(m))
            r = amb.retry_decode(mp)
            direct = command.from_frame(ForwardFrame(24, d), dev_inst_map=mp)
        ans = "none" if r is None else cc.cmd_canon(lambda: r)
        want = "none" if isinstance(direct, dg.AmbiguousInstanceType) else cc.cmd_canon(lambda: direct)
        if ans != want:
            corr.violate("event:retry", "retry %d %s" % (d, cc.map_tok(m)), want, ans,
                         "retry_decode differs from decoding the frame with the map")
        elif r is not None:
            # class, frame and text agree; so must every decoded field (the instance type of an event of an
            # unimplemented type is carried by no bit of the frame and by no part of the text)
            fo, fw = obs_of(r), obs_of(direct)
            if fo != fw:
                corr.violate("event:retry-fields", "retry %d %s" % (d, cc.map_tok(m)), fw, fo,
                             "retry_decode yields other fields than decoding the frame with the map")
        lines.append("retry %d %s" % (d, cc.map_tok(m))); impl.append(ans)
    # ---- several events seen before the scan is over: a bus monitor keeps the ambiguous events it could not decode,
    # learns the instance types, then retries them ALL, in any order - each is decoded from ITS OWN frame
    # (strengthening after seeded round 6)
    nbatch = 0
    for _ in range(150 if not ctx.thorough else 800):
        k = rng.randrange(2, 7)
        kept = []
        for _j in range(k):
            sa, inum, info = rng.choice([5, 0, 63, rng.randrange(64)]), rng.randrange(32), rng.randrange(1024)
            d = (sa << 17) | (1 << 15) | (inum << 10) | info
            amb = command.from_frame(ForwardFrame(24, d), dev_inst_map=rng.choice([None, DeviceInstanceTypeMapper()]))
            if isinstance(amb, dg.AmbiguousInstanceType):
                kept.append((d, sa, inum, amb))
        m = {}
        for d, sa, inum, _a in kept:
            if rng.random() < 0.8:
                m[(sa, inum)] = rng.choice(types_)
        mp = DeviceInstanceTypeMapper(dict(m))
        rng.shuffle(kept)
        for d, sa, inum, amb in kept:
            r = amb.retry_decode(mp)
            direct = command.from_frame(ForwardFrame(24, d), dev_inst_map=DeviceInstanceTypeMapper(dict(m)))
            ans = "none" if r is None else cc.cmd_canon(lambda: r)
            want = "none" if isinstance(direct, dg.AmbiguousInstanceType) else cc.cmd_canon(lambda: direct)
            if ans != want or (r is not None and obs_of(r) != obs_of(direct)):
                corr.violate("event:retry", {"retry": d, "map": cc.map_tok(m), "kept alongside":
                                             [x[0] for x in kept if x[0] != d]}, want, ans,
                             "an ambiguous event kept while others were decoded is retried from another frame's bits")
            fa = cc.cmd_canon(lambda: amb)
            if ("|ok 24 %d|" % d) not in fa:
                corr.violate("event:retry", {"kept ambiguous event of frame": d}, "frame %d" % d, fa,
                             "a kept ambiguous event no longer carries its own frame")
            lines.append("retry %d %s" % (d, cc.map_tok(m))); impl.append(ans)
            nbatch += 1
    corr.count("retry_kept_events", nbatch)
    # ---- mapper add_type / get_type through the three argument forms ----
    mods = {1: pushbutton, 3: occupancy, 4: light}
    for _ in range(400):
        mp = DeviceInstanceTypeMapper()
        ref = {}
        ops, outs = [], []
        for _ in range(rng.randrange(1, 12)):
            sa, inum = rng.randrange(4), rng.randrange(3)
            if rng.random() < 0.6:
                t = rng.choice([0, 1, 3, 4, 7, 31, 200])
                form = rng.randrange(3)
                sa_arg = DeviceShort(sa) if form == 1 else sa
                in_arg = InstanceNumber(inum) if form == 1 else inum
                t_arg = mods[t] if (form == 2 and t in mods) else t
                mp.add_type(short_address=sa_arg, instance_number=in_arg, instance_type=t_arg)
                ref[(sa, inum)] = t
                ops.append("a:%d:%d:%d" % (sa, inum, t))
            else:
                form = rng.randrange(2)
                got = mp.get_type(short_address=DeviceShort(sa) if form else sa,
                                  instance_number=InstanceNumber(inum) if form else inum)
                outs.append("none" if got is None else str(got))
                ops.append("q:%d:%d" % (sa, inum))
                if got != ref.get((sa, inum)):
                    corr.violate("event:map", ",".join(ops), ref.get((sa, inum)), got, "mapper lost or mixed up an entry")
        lines.append("map " + ",".join(ops)); impl.append("ok " + ",".join(outs))
    ans = cc.run_model("m_cmd", lines)
    for l, a, i in zip(lines, ans, impl):
        if a != i:
            corr.disagree("retry_and_map", l, a, i)
    corr.count("retry_and_map", len(lines))
    corr.sample({"suite": "event_obs", "request": "obs %d 0 5:3:3" % ((5 << 17) | (1 << 15) | (3 << 10) | 6),
                 "impl": obs_of(command.from_frame(ForwardFrame(24, (5 << 17) | (1 << 15) | (3 << 10) | 6),
                                                   dev_inst_map=DeviceInstanceTypeMapper({(5, 3): 3})))})


def replay(ctx, payload):
    from dali import command
    from dali.frame import ForwardFrame
    from dali.device.helpers import DeviceInstanceTypeMapper
    v = payload.get("failure", {})
    p = str(v.get("input", "")).split()
    if len(p) == 4 and p[0] == "obs":
        d = int(p[1])
        m = None
        if p[3] == "e":
            m = {}
        elif p[3] != "-":
            m = {(int(a), int(b)): int(c) for a, b, c in (e.split(":") for e in p[3].split(","))}
        try:
            impl = obs_of(command.from_frame(ForwardFrame(24, d), dev_inst_map=None if m is None else DeviceInstanceTypeMapper(m)))
        except Exception as e:  # noqa
            impl = "RAISED " + exc_name(e)
        spec = cc.run_model("m_cmd", ["spec " + " ".join(p)])[0]
        print("input:", " ".join(p), "\nimplementation:", impl, "\nstandard:      ", spec)
        return impl != spec
    print("re-run the quick check")
    return True
