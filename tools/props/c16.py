"""C16 — drivers pair each command with its own answer, typed by the command.

Correspondence: the REAL drivers (hid.tridonic, hid.hasseb, DriverLubaRs232,
DriverSCIRS232, DaliServer, SyncDaliHatDriver), run in a virtual-time asyncio
loop against fake devices, vs the Lean models (m_watch: pure answer mappings in
batch mode, routing in trace mode); oracle: the real drivers vs the answer
table Spec/AnswerTable.lean (`enc` = what the gateway's protocol reports for a
bus outcome, `conf` = the property's first sentence evaluated on the result)."""
from common import exc_name  # noqa: E402
import asyncio
import itertools
import struct
import sys
import types

from common import Model
import asyncsim_watch as sim
from asyncsim_watch import cmds as cmdlib

ID = "C16"
MODULE = "DaliVerif.Props.C16"
EXES = ["m_watch"]
EXTRA_MODULES = ["DaliVerif.Props.C16Serial", "DaliVerif.Props.C16Seq"]
EXTRA_THEOREMS = ["C16Serial.sci_send_shape", "C16Serial.flush_leaves_no_stale_report",
                  "C16Serial.k6_witness_old_sci_send", "C16Serial.k6_repaired",
                  "C16Seq.late_report_is_dropped", "C16Seq.lowest_free_misroutes", "C16Seq.lowest_free_violates_routing"]
GEN = True
THEOREMS = ["constants_are_protocol", "typed_by_command", "none_iff_no_answer_expected",
            "tridonic_table", "hasseb_table", "daliserver_table", "luba_table", "sci_table", "atx_table",
            "tri_ignores_unknown", "seqAt_range", "seqAt_closed", "seqAt_eq_iff",
            "routing_tridonic", "routing_slot", "routing_queue", "routing_queue_complete", "routing_hat",
            "hat_idle_clean"]
TRUSTED = ["hand-written models Model/Answer.lean (status -> response code of six drivers) and Model/Routing.lean "
           "(outstanding-by-sequence-number; single slot; flushed queue; the ATX hat's port lock), tied by this "
           "correspondence: pure mappings "
           "exhaustively over status/type codes x bytes x command kinds, routing by trace validation of the real "
           "drivers in a virtual-time loop",
           "Spec/AnswerTable.lean: protocol literals of the gateways (pinned where not independently known)",
           "virtual-time event loop + fake hidraw/serial/socket devices (tools/asyncsim_watch)"]
ASSUMPTIONS = ["routing_tridonic: a report about a command arrives only after that command was written and before "
               "255 further sequence numbers have been drawn (Timely)",
               "single-slot gateways (hasseb, LUBA, SCI): 'own answer' means stored after the caller's own flush; "
               "a late answer of the previous command arriving after the flush cannot be told apart by the protocol",
               "sends are serialised by the transaction lock (C15)",
               "routing_hat: the hat prints the reply line(s) of a transmission before the sender's five reads are "
               "used up (`release` is enabled only with no line owed); a hat that answers later leaves a stale line"]
PARTIAL = ("the routing theorems are about abstract transition systems for every event order; that the real event "
           "loop only produces orders the model allows is validated on the explored schedules (1-3 callers, every "
           "report order incl. stale/late/duplicate reports; LUBA/SCI reports delivered separately, in one chunk, "
           "back to back and straddling a chunk boundary; the ATX hat driver from two threads with a deterministic "
           "hand-over at thread 1's first/second timed-out read), not proved. hasseb returns None for a query on an "
           "unknown status code (outside the protocol; witness example in Props). The ATX hat driver's resend path "
           "raises AttributeError (bytes.encode) on a collision line 'Z' or on two differing answers to a send-twice "
           "command, and returns a bare frame / raw text for a non-query answered 'J'/'X' - outside the property's "
           "outcome alphabet, modelled as they are.")

KINDS = [(16, False, False), (16, True, False), (16, False, True),
         (24, False, False), (24, True, False), (24, False, True)]


# ---------------------------------------------------------------------------
# canonical forms

def canon_answer(r, ids):
    from dali import frame, command
    if r is None:
        return "none"
    if isinstance(r, command.Response):
        rv = r.raw_value
        if rv is None:
            o = "s"
        elif rv.error:
            o = "f%d" % rv.as_integer
        else:
            o = "v%d" % rv.as_integer
        return "resp.%d.%s" % (ids(type(r)), o)
    if isinstance(r, frame.BackwardFrame):
        return "bare.%d" % r.as_integer
    if isinstance(r, str):
        return "text"
    return "other:" + type(r).__name__


def cmd_toks(c, ids):
    return "%s %d" % (ids.tok(c.response), 1 if c.sendtwice else 0)


class Batch:
    """(model request line, real answer) pairs, flushed through m_watch"""

    def __init__(self, corr, suite):
        self.corr, self.suite = corr, suite
        self.lines, self.impl = [], []

    def add(self, line, impl):
        self.lines.append(line)
        self.impl.append(impl)

    def flush(self):
        if not self.lines:
            return
        ans = ask(self.lines)
        for l, a, i in zip(self.lines, ans, self.impl):
            if a != i:
                self.corr.disagree(self.suite, l, a, i)
        self.corr.count(self.suite, len(self.lines))
        self.lines, self.impl = [], []


_PROC = [None]


def ask(lines):
    """answers of the model driver (one persistent process, 10 us per line)"""
    if _PROC[0] is None:
        _PROC[0] = Model("m_watch").start()
    return [_PROC[0].ask(l) for l in lines]


def pick_commands(found):
    """one real command per (width, query, twice)"""
    ks = cmdlib.kinds(found)
    res = {}
    for (bits, q, tw, dt), c in sorted(ks.items(), key=lambda kv: kv[0]):
        res.setdefault((bits, q, tw), c)
    return res


# ---------------------------------------------------------------------------
# real drivers, one call each

async def tri_case(ts, cmd, msgs):
    """run the real tridonic._send_raw(cmd) against the report list `msgs`
    (tuples (rtype, f0..f3) or 'F'); canonical outcome string"""
    d = ts.d
    ts.fos.written.clear()
    t = asyncio.ensure_future(d._send_raw(cmd))
    await sim.settle(3)
    if t.done():
        return ("early", t)
    pkt = ts.fos.written[-1]
    seq = pkt[1]
    for m in msgs:
        if m == "F":
            # the in-flight command is told that the gateway is gone.  Historically an (event, messages) pair per
            # sequence number; if the library keeps something else there, let the driver do it itself (its own
            # shutdown path wakes every in-flight command the same way)
            try:
                ev_, msgs_ = d._outstanding[seq]
                msgs_.append("fail")
                ev_.set()
            except (TypeError, ValueError, KeyError, AttributeError):
                d._shutdown_device()
        else:
            ts.deliver(sim.tri_packet(0x12, m[0], m[1:5], seq))
    await sim.settle(4)
    return (seq, t)


async def finish_task(ts, t):
    """('blocked'|'ok'|'err', value) and clean up a blocked task"""
    if not t.done():
        t.cancel()
        try:
            await t
        except BaseException:
            pass
        ts.d._outstanding.clear()
        return ("blocked", None)
    try:
        return ("ok", t.result())
    except BaseException as e:  # noqa
        ts.d._outstanding.clear()
        return ("err", exc_name(e))


def tri_tok(m):
    return "F" if m == "F" else ".".join(str(x) for x in m)


# ---------------------------------------------------------------------------

def correspond(ctx, corr):
    from dali import frame, command
    import logging
    logging.disable(logging.CRITICAL)
    sim._stub_modules()
    ids = cmdlib.ClassIds()
    found = cmdlib.catalogue(ctx.rng)
    picks = pick_commands(found)
    allcmds = list(found.values())
    corr.rule.append(
        "pure mappings: every status/type code 0..255 x data bytes (all 256 for the codes the protocol defines, "
        "boundary bytes otherwise) x {16,24 bit} x {query, non-query, send-twice} on the real driver vs model; "
        "every concrete command class (%d) x {silent, value, garbled} vs the answer table; routing: real drivers "
        "in virtual time, 1-3 callers, every interleaving of the gateway's reports incl. stale/late/duplicate "
        "reports and sequence-number wrap; LUBA/SCI: the reports of one transmission delivered separately / in one "
        "chunk / back to back / straddling a chunk boundary, single and queued callers; ATX hat: two threads on one "
        "driver object, every pair of command kinds x outcomes; non-trivial = distinct (gateway, command kind, outcome class)" % len(allcmds))
    consts = ask(["consts"])[0]
    if consts != "ok 1":
        corr.disagree("constants", "consts", consts, "driver constants differ from the protocol literals of Spec/AnswerTable")
    suite_hasseb(ctx, corr, ids, picks, allcmds)
    suite_tridonic(ctx, corr, ids, picks, allcmds)
    suite_serial(ctx, corr, ids, picks, allcmds)
    suite_daliserver(ctx, corr, ids, picks, allcmds)
    suite_atx(ctx, corr, ids, picks, allcmds)
    # directed scenarios that need no model trace run first: they still speak when a trace suite cannot run
    route_tridonic_late(ctx, corr, ids, picks)
    route_tridonic(ctx, corr, ids, picks)
    route_two_tridonic(ctx, corr, ids, picks)
    route_hasseb(ctx, corr, ids, picks)
    route_serial(ctx, corr, ids, picks)
    route_serial_delivery(ctx, corr, ids, picks, found)
    route_serial_late_in_prefix(ctx, corr, ids)
    route_daliserver_persistent(ctx, corr, ids, picks, allcmds)
    route_serial_slow_confirm(ctx, corr, ids, picks)
    route_atx_sequence(ctx, corr, ids, picks, allcmds)
    route_serial_cancel_queued(ctx, corr, ids, picks)
    route_atx_threads(ctx, corr, ids, picks, found)
    corr.exhaustive["hasseb: every status code x (every byte for the protocol's codes 1-3, boundary bytes otherwise)"] = True
    corr.exhaustive["tridonic: every report type x (every status byte for types 0x72/0x77, boundary bytes otherwise)"] = True
    corr.exhaustive["daliserver: every status x every value"] = True
    corr.exhaustive["LUBA/SCI: time-out and every answer byte"] = True
    corr.exhaustive["ATX: every line sequence of length <= 3 over the 12-line alphabet"] = True


def check_table(corr, gw, c, bus, impl, ids, history=None):
    """oracle: the real result against the property statement (Spec.conforms)"""
    if impl.startswith("ok "):
        a = impl[3:]
        if a.split(".")[0] in ("none", "resp", "bare", "text"):
            r = ask(["conf %s %s %s %s" % (gw, ids.tok(c.response), bus, a)])[0]
            if r == "ok 1":
                return True
    kind = "query" if c.response is not None else "nonquery"
    outcome = {"s": "silent", "g": "garbled"}.get(bus, "value")
    exp = ("None" if c.response is None else "%s(%s)" % (
        c.response.__name__, {"s": "None", "g": "BackwardFrameError"}.get(bus, "BackwardFrame(%s)" % bus[1:])))
    corr.violate("%s:%s:%s:%s" % ("routing" if history else "answer", gw, outcome, kind),
                 history or {"gateway": gw, "command": str(c), "frame": str(c.frame), "bus": bus},
                 exp, impl, "send() result does not conform to the answer table")
    return False


BUSES_FULL = ["s", "g"] + ["v%d" % b for b in range(256)]
BUSES_FEW = ["s", "g", "v0", "v1", "v127", "v128", "v254", "v255"]


# ---- hasseb -----------------------------------------------------------------

def suite_hasseb(ctx, corr, ids, picks, allcmds):
    b = Batch(corr, "hasseb_answer")
    table = []

    async def main(loop):
        hs = await sim.HassebSim().start()
        d = hs.d

        async def one(c, st, by):
            t = asyncio.ensure_future(d._send_raw(c))
            await sim.settle(2)
            if not t.done():
                if st == "F":
                    d._shutdown_device()
                else:
                    hs.deliver(st, by)
                await sim.settle(2)
                if not t.done():
                    # NO DATA AVAILABLE is not stored: the caller keeps waiting
                    hs.deliver(1, 0)
                    await sim.settle(2)
                    try:
                        t.result()
                    except BaseException:
                        pass
                    return "blocked"
            try:
                return "ok " + canon_answer(t.result(), ids)
            except BaseException as e:  # noqa
                return "err " + exc_name(e)
        for (bits, q, tw), c in picks.items():
            if bits != 16:
                continue
            sts = range(256)
            for st in sts:
                bys = range(256) if (st in (1, 2, 3) and q) else (0, 1, 128, 255)
                for by in bys:
                    r = await one(c, st, by)
                    if st == 0 and q:
                        if r != "blocked":
                            corr.disagree("hasseb_answer", "status 0 must not wake the caller", "blocked", r)
                        continue
                    b.add("has %s %d.%d" % (cmd_toks(c, ids), st, by), r)
                    corr.nontrivial(("hasseb", q, tw, r.split(".")[0], st if st < 5 else 5))
            r = await one(c, "F", 0)
            b.add("has %s F" % cmd_toks(c, ids), r)
        # 24-bit frames are refused
        c24 = picks[(24, True, False)]
        try:
            await d._send_raw(c24)
            corr.disagree("hasseb_answer", "24-bit frame", "UnsupportedFrameTypeError", "accepted")
        except Exception as e:
            if exc_name(e) != "UnsupportedFrameTypeError":
                corr.disagree("hasseb_answer", "24-bit frame", "UnsupportedFrameTypeError", exc_name(e))
        # the answer table on every command class
        for c in allcmds:
            if len(c.frame) != 16:
                continue
            for bus in (BUSES_FULL if c is picks[(16, True, False)] else BUSES_FEW):
                rep = ask(["enc hasseb %d 0 %s 77" % (c.sendtwice, bus)])[0].split()[1]
                st, by = (int(x) for x in rep.split("."))
                r = await one(c, st, by)
                table.append((c, bus, r))
    sim.run(main)
    b.flush()
    for c, bus, r in table:
        check_table(corr, "hasseb", c, bus, r, ids)
    corr.count("hasseb_table", len(table))


# ---- tridonic ---------------------------------------------------------------

def suite_tridonic(ctx, corr, ids, picks, allcmds):
    b = Batch(corr, "tridonic_answer")
    table = []

    async def main(loop):
        ts = await sim.TriSim().start()

        async def one(c, msgs):
            seq, t = await tri_case(ts, c, msgs)
            st, v = await finish_task(ts, t)
            if st == "blocked":
                return "blocked"
            n = len(msgs)   # the model reports how many it consumed; recomputed below
            if st == "ok":
                return "ok " + canon_answer(v, ids)
            return "err " + v
        for (bits, q, tw), c in picks.items():
            echo = (0x73 if bits == 16 else 0x76, 0, 0, 0, 0)
            pre = [echo, echo] if tw else [echo]
            full = q and not tw
            for rt in range(256):
                f3s = range(256) if (full and rt in (0x72, 0x77)) else (0, 1, 3, 4, 255)
                for f3 in f3s:
                    msgs = pre + [(rt, 0, 0, 0, f3)]
                    r = await one(c, msgs)
                    b.add("tri %s %s" % (cmd_toks(c, ids), " ".join(tri_tok(m) for m in msgs)), r)
                    corr.nontrivial(("tridonic", bits, q, tw, r.split(".")[0], rt if rt in (0x71, 0x72, 0x73, 0x76, 0x77) else 0))
            # orders, missing / extra echoes, fail, malformed padding
            extra = [
                [], [echo], [(0x71, 0, 0, 0, 0)], [(0x71, 0, 0, 0, 0), echo], [(0x72, 0, 0, 0, 9), echo],
                [(0x72, 0, 0, 0, 9), echo, echo], [echo, echo, echo], [echo, echo, echo, (0x71, 0, 0, 0, 0)],
                [echo, (0x72, 0, 0, 0, 5), (0x71, 0, 0, 0, 0)], [echo, (0x71, 0, 0, 0, 0), (0x72, 0, 0, 0, 5), echo],
                [echo, "F"], ["F"], [echo, (0x77, 0, 0, 0, 4), (0x71, 0, 0, 0, 0)],
                [echo, (0x77, 0, 0, 0, 3), echo], [echo, (0x72, 0, 0, 1, 5)], [echo, (0x72, 1, 0, 0, 5)],
                [echo, (0x72, 0, 2, 0, 5)], [echo, (0x99, 1, 2, 3, 4), (0x72, 0, 0, 0, 7), echo],
                [(0x74, 0, 0, 0, 0), echo, (0x71, 0, 0, 0, 0)],
            ]
            for msgs in extra:
                r = await one(c, msgs)
                b.add("tri %s %s" % (cmd_toks(c, ids), " ".join(tri_tok(m) for m in msgs)), r)
        for c in allcmds:
            for bus in (BUSES_FULL if c is picks[(16, True, False)] else BUSES_FEW):
                enc = ask(["enc tridonic %d %d %s 0" % (c.sendtwice, len(c.frame) == 24, bus)])[0].split()[1:]
                msgs = [tuple(int(x) for x in m.split(".")) for m in enc]
                r = await one(c, msgs)
                table.append((c, bus, r))
    sim.run(main)
    # the model answers "<consumed> ok …": strip the count for comparison, blocked stays
    lines, impl = b.lines, b.impl
    ans = ask(lines)
    for l, a, i in zip(lines, ans, impl):
        a2 = a if a == "blocked" or a == "bad-op" else a.split(" ", 1)[1]
        if a2 != i:
            corr.disagree("tridonic_answer", l, a, i)
    corr.count("tridonic_answer", len(lines))
    for c, bus, r in table:
        check_table(corr, "tridonic", c, bus, r, ids)
    corr.count("tridonic_table", len(table))


# ---- LUBA / SCI ---------------------------------------------------------------

def suite_serial(ctx, corr, ids, picks, allcmds):
    for kind in ("luba", "sci"):
        b = Batch(corr, kind + "_answer")
        table = []

        async def main(loop, kind=kind):
            ss = await sim.SerialSim(kind).start()
            d = ss.d
            ss.auto_confirm(0.002)

            async def one(c, ans, garbled=False):
                ss.tr.written.clear()
                t = asyncio.ensure_future(d.send(c))
                await sim.settle(3)
                # every write (an ENABLE DEVICE TYPE prefix, then the command) is confirmed 2 ms later
                for _ in range(8):
                    n = len(ss.tr.written)
                    await asyncio.sleep(0.0021)
                    await sim.settle(3)
                    if len(ss.tr.written) == n:
                        break
                if garbled:
                    # the gateway reports a framing error on the bus
                    if kind == "luba":
                        ss.feed(sim.luba_event(2, 63, []))
                    else:
                        ss.feed(sim.sci_frame(0x17, 0, 0, 3))
                if ans is not None:
                    ss.rx([ans])
                try:
                    return "ok " + canon_answer(await t, ids)
                except BaseException as e:  # noqa
                    return "err " + exc_name(e)
            for (bits, q, tw), c in picks.items():
                for ans in [None] + list(range(256) if q else (0, 255)):
                    r = await one(c, ans)
                    b.add("%s %s %s" % (kind, cmd_toks(c, ids), "T" if ans is None else ans), r)
                    corr.nontrivial((kind, bits, q, tw, r.split(".")[0], ans is None))
                    if ans is not None and not q:
                        # the answer nobody waited for must not reach the next caller
                        pass
            for c in allcmds:
                for bus in (BUSES_FULL if c is picks[(16, True, False)] else BUSES_FEW):
                    w = ask(["enc %s %d 0 %s 0" % (kind, c.sendtwice, bus)])[0].split()[1]
                    r = await one(c, None if w == "T" else int(w), garbled=(bus == "g"))
                    table.append((c, bus, r))
        sim.run(main)
        b.flush()
        for c, bus, r in table:
            check_table(corr, kind, c, bus, r, ids)
        corr.count(kind + "_table", len(table))


# ---- daliserver -----------------------------------------------------------------

class FakeSocket:
    def __init__(self, replies):
        self.replies = list(replies)
        self.sent = []

    def send(self, m):
        self.sent.append(bytes(m))

    def recv(self, n):
        return self.replies.pop(0)

    def close(self):
        pass


class FakeDaliserver:
    """a daliserver on a persistent connection: every 4-byte request frame is put on the bus and answered with its
    own 4-byte reply, each reply arriving as a separate segment (a `recv` returns at most the segment at the head of
    the stream, as a TCP socket does when the peer answers frame by frame)."""

    def __init__(self):
        self.script = []        # reply for the next request frames, in order
        self.arrived = []       # segments waiting in the socket buffer
        self.sent = []

    def send(self, m):
        m = bytes(m)
        self.sent.append(m)
        for k in range(0, len(m) - len(m) % 4, 4):
            self.arrived.append(self.script.pop(0) if self.script else bytes([2, 0, 0, 0]))
        return len(m)

    sendall = send

    def recv(self, n):
        if not self.arrived:
            return b""
        seg = self.arrived[0]
        if len(seg) <= n:
            self.arrived.pop(0)
            return seg
        self.arrived[0] = seg[n:]
        return seg[:n]

    def close(self):
        pass


def route_daliserver_persistent(ctx, corr, ids, picks, allcmds):
    """several commands over ONE connection (multiple_frames_per_connection=True): each send() must come back with
    the reply to its own (last) transmission, whatever was sent before on the same connection."""
    from dali.driver import daliserver as dsv
    import socket as _socket
    rng = ctx.rng
    pool = [c for c in allcmds if len(c.frame) == 16]
    twice = [c for c in pool if c.sendtwice]
    queries = [c for c in pool if c.response is not None]
    n = 0
    for _ in range(400 if ctx.thorough else 120):
        k = rng.randrange(2, 6)
        cmds = [rng.choice(twice) if rng.random() < 0.4 else rng.choice(queries if rng.random() < 0.7 else pool)
                for _ in range(k)]
        buses = [bus_of(rng, c.response) for c in cmds]
        fake = FakeDaliserver()
        for c, bus in zip(cmds, buses):
            rep = bytes(int(x) for x in ask(["enc daliserver %d 0 %s 9" % (c.sendtwice, bus)])[0].split()[1:])
            fake.script += [rep, rep] if c.sendtwice else [rep]
        dsv.socket = types.SimpleNamespace(create_connection=lambda target, s=fake: s)
        history = []
        try:
            with dsv.DaliServer(multiple_frames_per_connection=True) as srv:
                for i, (c, bus) in enumerate(zip(cmds, buses)):
                    try:
                        r = "ok " + canon_answer(srv.send(c), ids)
                    except BaseException as e:  # noqa
                        r = "err " + exc_name(e)
                    history.append("send %d: %s%s, bus %s -> %s" % (i, c, " (twice)" if c.sendtwice else "", bus, r))
                    check_table(corr, "daliserver", c, bus, r, ids,
                                history={"routing": list(history), "connection": "persistent", "command": str(c), "bus": bus})
        finally:
            dsv.socket = _socket
        n += 1
    corr.count("traces", n)
    corr.count("daliserver_persistent", n)


def suite_daliserver(ctx, corr, ids, picks, allcmds):
    from dali.driver import daliserver as dsv
    b = Batch(corr, "daliserver_answer")
    srv = dsv.DaliServer()

    def unpack(c, four):
        try:
            return "ok " + canon_answer(srv.unpack_response(c, bytes(four)), ids)
        except BaseException as e:  # noqa
            return "err " + exc_name(e)
    for (bits, q, tw), c in picks.items():
        for st in range(256):
            for rv in (range(256) if (q and not tw and bits == 16) else (0, 1, 255)):
                for ver, pad in ((2, 0),) if rv not in (0, 255) else ((2, 0), (0, 255), (255, 7)):
                    b.add("dsrv %s %d %d %d %d" % (cmd_toks(c, ids), ver, st, rv, pad), unpack(c, (ver, st, rv, pad)))
                    corr.nontrivial(("daliserver", q, st if st in (0, 1, 255) else 2))
    b.flush()
    # send(): the reply to the (last) transmission is the one unpacked
    n = 0
    for c in allcmds:
        for bus in (BUSES_FULL if c is picks[(16, True, False)] else BUSES_FEW):
            rep = bytes(int(x) for x in ask(["enc daliserver %d 0 %s 9" % (c.sendtwice, bus)])[0].split()[1:])
            if len(c.frame) != 16:
                # daliserver carries 16-bit frames only (C18): the mapping alone
                check_table(corr, "daliserver", c, bus, unpack(c, rep), ids)
                n += 1
                continue
            sock = FakeSocket([rep, rep] if c.sendtwice else [rep])
            dsv.socket = types.SimpleNamespace(create_connection=lambda target, s=sock: s)
            try:
                r = "ok " + canon_answer(srv.send(c), ids)
            except BaseException as e:  # noqa
                r = "err " + exc_name(e)
            finally:
                import socket as _socket
                dsv.socket = _socket
            if len(sock.sent) != (2 if c.sendtwice else 1):
                corr.disagree("daliserver_answer", str(c), "one transmission per required frame", len(sock.sent))
            check_table(corr, "daliserver", c, bus, r, ids)
            n += 1
    corr.count("daliserver_table", n)


# ---- ATX LED hat ------------------------------------------------------------------

class FakeSerialConn:
    def __init__(self, lines):
        self.lines = list(lines)
        self.written = []

    def read_until(self, term):
        return (self.lines.pop(0) if self.lines else "").encode("ascii")

    def write(self, b):
        self.written.append(b)

    def close(self):
        pass


ATX_ALPHABET = ["", "N\n", "N1\n", "J05\n", "J5\n", "JA5\n", "Jff\n", "J1FF\n", "JZZ\n", "X\n", "Z\n", "Q1\n"]


def atx_tokens(lines):
    texts = {}
    toks = []
    for l in lines:
        if l == "":
            toks.append("E")
            continue
        i = texts.setdefault(l, len(texts))
        if l[0] == "N":
            toks.append("N%d" % i)
        elif l[0] == "J":
            try:
                v = str(int(l[1:], 16))
            except ValueError:
                v = "x"
            toks.append("J%d.%s" % (i, v))
        elif l[0] in "XZ":
            toks.append(l[0])
        else:
            toks.append("O")
    return toks


def suite_atx(ctx, corr, ids, picks, allcmds):
    import logging
    import threading
    sim._stub_modules()
    if "serial" not in sys.modules:
        try:
            import serial  # noqa
        except Exception:
            sys.modules["serial"] = types.ModuleType("serial")
    from dali.driver import atxled
    atxled.time = types.SimpleNamespace(sleep=lambda s: None)
    log = logging.getLogger("verif-atx")
    log.disabled = True

    def mk(lines):
        drv = object.__new__(atxled.SyncDaliHatDriver)
        drv.port = "fake"
        drv.lock = threading.RLock()
        drv.buffer = []
        drv.LOG = log
        drv.conn = FakeSerialConn(lines)
        return drv

    def one(c, lines):
        drv = mk(lines)
        try:
            return "ok " + canon_answer(drv.send(c), ids)
        except BaseException as e:  # noqa
            return "err " + exc_name(e)
    b = Batch(corr, "atx_answer")
    maxlen = 3
    for (bits, q, tw), c in picks.items():
        for n in range(0, maxlen + 1):
            for lines in itertools.product(ATX_ALPHABET, repeat=n):
                if n == 3 and not tw and lines[0][:1] in ("N", "J", "X", "Z"):
                    continue   # decided by the first line; covered by n = 1
                r = one(c, lines)
                b.add("atx %s %s" % (cmd_toks(c, ids), " ".join(atx_tokens(lines))), r)
                corr.nontrivial(("atx", q, tw, r.split(".")[0]))
        for _ in range(300 if ctx.thorough else 60):
            lines = [ctx.rng.choice(ATX_ALPHABET) for _ in range(ctx.rng.randrange(4, 8))]
            b.add("atx %s %s" % (cmd_toks(c, ids), " ".join(atx_tokens(lines))), one(c, lines))
    b.flush()
    n = 0
    for c in allcmds:
        for bus in (BUSES_FULL if c is picks[(16, True, False)] else BUSES_FEW):
            if bus == "g":
                continue   # the hat's protocol has no report for a garbled answer that the driver reads
            toks = ask(["enc atx %d 0 %s 0" % (c.sendtwice, bus)])[0].split()[1:]
            lines = []
            for t in toks:
                lines.append("N\n" if t.startswith("N") else "J%02X\n" % int(t.split(".")[1]))
            check_table(corr, "atx", c, bus, one(c, lines), ids)
            n += 1
    corr.count("atx_table", n)


# ---------------------------------------------------------------------------
# routing traces

def interleavings(seqs):
    """all merges of the given sequences that keep each sequence's order"""
    seqs = [list(s) for s in seqs if s]
    if not seqs:
        yield []
        return
    for i, s in enumerate(seqs):
        rest = seqs[:i] + [s[1:]] + seqs[i + 1:]
        for tail in interleavings(rest):
            yield [s[0]] + tail


def bus_of(rng, q):
    return rng.choice(["s", "g", "v%d" % rng.randrange(256)]) if q else "s"


def route_tridonic(ctx, corr, ids, picks):
    """1-3 callers on the real hid.tridonic; the gateway answers each written
    command with the protocol's reports for a scripted bus outcome, in every
    order the reports of the commands in flight can be merged, plus stale
    (already finished sequence number) and duplicate reports."""
    traces = 0
    cmdpool = [picks[k] for k in KINDS]

    async def scenario(loop, callers, order_ix, mode, seq0, stale):
        ts = await sim.TriSim(seq0=seq0).start()
        d = ts.d
        toks = []          # model trace
        expect = []        # per event the real observation
        written = []       # (alloc idx, seq, caller)
        ts.fos.on_write = lambda data: written.append(data)
        tasks = []
        for i, (c, bus) in enumerate(callers):
            if mode == "lock":
                tasks.append(asyncio.ensure_future(d.send(c)))
            else:
                tasks.append(asyncio.ensure_future(d.send(c, in_transaction=True)))
        await sim.settle(4)
        # which caller wrote which packet: match by frame bytes in order of task creation
        pending = {}       # alloc idx -> [reports still to deliver]
        owner = {}         # alloc idx -> caller
        nalloc = 0
        done_reported = set()
        history = []

        def absorb_writes():
            nonlocal nalloc
            while written:
                data = written.pop(0)
                seq, fr = data[1], data[4:8]
                # the caller whose frame this is and who has no allocation yet
                for i, (c, bus) in enumerate(callers):
                    if i not in owner.values() and bytes(c.frame.pack_len(4)) == fr:
                        idx = nalloc
                        nalloc += 1
                        owner[idx] = i
                        enc = ask(["enc tridonic %d %d %s 0" % (c.sendtwice, len(c.frame) == 24, bus)])[0].split()[1:]
                        pending[idx] = [tuple(int(x) for x in m.split(".")) for m in enc]
                        toks.append("A.%s.%d" % (ids.tok(c.response), c.sendtwice))
                        expect.append("seq=%d" % seq)
                        history.append("caller %d writes %s seq %d" % (i, c.frame, seq))
                        break
                else:
                    raise AssertionError("unattributed write")
        absorb_writes()
        step = 0
        finished = {}

        async def poll():
            """let the callers run, then ask every unfinished one where it stands"""
            await sim.settle(5)
            absorb_writes()
            for idx, i in list(owner.items()):
                if idx in finished:
                    continue
                toks.append("R.%d" % idx)
                t = tasks[i]
                if t.done():
                    try:
                        r = canon_answer(t.result(), ids)
                        expect.append("done:" + r)
                    except BaseException as e:  # noqa
                        expect.append("raise." + exc_name(e))
                    finished[idx] = True
                else:
                    expect.append("blocked")
        while True:
            live = [idx for idx, reps in pending.items() if reps]
            if not live:
                break
            # choose which command's next report arrives
            pick = live[order_ix[step % len(order_ix)] % len(live)]
            step += 1
            m = pending[pick].pop(0)
            seq = int(expect[[k for k, t in enumerate(toks) if t.startswith("A.")][pick]].split("=")[1])
            was_out = seq in d._outstanding
            ts.deliver(sim.tri_packet(0x12, m[0], m[1:5], seq))
            toks.append("D.%d.%s" % (pick, tri_tok(m)))
            expect.append(("to=%d" % pick) if was_out else "drop")
            history.append("report %s for seq %d" % (tri_tok(m), seq))
            if stale and not pending[pick] and (step + stale) % 2 == 0:
                # the firmware's duplicate echo of the last transmitted frame (another master repeated
                # it): it carries the sequence number of a command whose last report has been delivered
                if stale >= 2:
                    await poll()              # … and whose caller has already gone
                was_out = seq in d._outstanding
                echo = (0x76 if len(callers[owner[pick]][0].frame) == 24 else 0x73, 0, 0, 0, 0)
                ts.deliver(sim.tri_packet(0x12, echo[0], echo[1:5], seq))
                toks.append("D.%d.%s" % (pick, tri_tok(echo)))
                expect.append(("to=%d" % pick) if was_out else "drop")
                history.append("duplicate echo for seq %d after its last report" % seq)
            await poll()
        await sim.settle(5)
        results = []
        for i, t in enumerate(tasks):
            if t.done():
                try:
                    results.append("ok " + canon_answer(t.result(), ids))
                except BaseException as e:  # noqa
                    results.append("err " + exc_name(e))
            else:
                results.append("blocked")
        return toks, expect, results, history, dict(d._outstanding)

    def run_one(callers, order_ix, mode, seq0, stale):
        nonlocal traces
        toks, expect, results, history, leftover = sim.run(scenario, callers, order_ix, mode, seq0, stale)
        line = "triroute %d %s" % (seq0, " ".join(toks))
        ans = ask([line])[0]
        got = ans.split()[1:] if ans.startswith("ok") else [ans]
        # the model prints done.<consumed>.<answer>; compare answers only
        norm = []
        for g in got:
            if g.startswith("done."):
                norm.append("done:" + g.split(".", 2)[2])
            else:
                norm.append(g)
        if norm != expect:
            corr.disagree("tridonic_routing", {"trace": line, "history": history}, norm, expect)
        # oracle: every caller got the answer to ITS command
        for i, (c, bus) in enumerate(callers):
            check_table(corr, "tridonic", c, bus, results[i], ids,
                        history={"routing": history, "caller": i, "command": str(c), "bus": bus, "mode": mode})
        if leftover:
            corr.disagree("tridonic_routing", {"trace": line}, "outstanding empty", "entries left: %s" % list(leftover))
        traces += 1
    rng = ctx.rng
    # exhaustive small: 2 callers in flight, every merge of their report lists
    for ca, cb in itertools.product(cmdpool, repeat=2):
        if ca is cb:
            continue
        callers = [(ca, bus_of(rng, ca.response)), (cb, bus_of(rng, cb.response))]
        na = (2 if ca.sendtwice else 1) + 1
        nb = (2 if cb.sendtwice else 1) + 1
        for merge in interleavings([[0] * na, [1] * nb]):
            run_one(callers, merge, "flight", rng.choice([1, 100, 253, 254, 255]), 0)
    n = 1500 if ctx.thorough else 300
    for _ in range(n):
        k = rng.randrange(1, 4)
        callers = []
        for _ in range(k):
            c = rng.choice(cmdpool)
            callers.append((c, bus_of(rng, c.response)))
        # distinct frames so that writes can be attributed
        if len({bytes(c.frame.pack_len(4)) for c, _ in callers}) != k:
            continue
        order = [rng.randrange(3) for _ in range(12)]
        run_one(callers, order, rng.choice(["lock", "flight"]), rng.choice([1, 7, 254, 255]), rng.choice([0, 0, 1, 2, 3]))
    corr.count("traces", traces)
    corr.count("tridonic_routing", traces)


def route_tridonic_late(ctx, corr, ids, picks):
    """Reports that arrive AFTER their command has left the driver, while the next command is in flight: (a) the
    first send is abandoned by its caller (cancelled while the bus is busy) and the gateway still transmits it and
    reports on it; (b) the first send completed and the gateway reports on that sequence number again (the firmware
    repeats the echo of the last transmitted frame when another master sends the same frame, then that frame's
    answer).  The second caller must get the answer to ITS command (oracle only: the answer table)."""
    rng = ctx.rng
    queries = [picks[k] for k in KINDS if picks[k].response is not None]
    n = 0

    async def scenario(loop, ca, busa, cb, busb, seq0, variant):
        ts = await sim.TriSim(seq0=seq0).start()
        d = ts.d
        history = []
        ta = asyncio.ensure_future(d.send(ca))
        await sim.settle(4)
        seqa = ts.fos.written[-1][1]
        history.append("caller A writes %s with sequence number %d" % (ca.frame, seqa))
        ra = [tuple(int(x) for x in m.split(".")) for m in
              ask(["enc tridonic %d %d %s 0" % (ca.sendtwice, len(ca.frame) == 24, busa)])[0].split()[1:]]
        if variant == "abandoned":
            ta.cancel()
            history.append("caller A is cancelled before the gateway reports")
        else:
            for m in ra:
                ts.deliver(sim.tri_packet(0x12, m[0], m[1:5], seqa))
            history.append("the gateway reports %s for sequence number %d; caller A returns" % (
                " ".join(tri_tok(m) for m in ra), seqa))
        await sim.settle(5)
        tb = asyncio.ensure_future(d.send(cb))
        await sim.settle(4)
        seqb = ts.fos.written[-1][1]
        history.append("caller B writes %s with sequence number %d" % (cb.frame, seqb))
        rb = [tuple(int(x) for x in m.split(".")) for m in
              ask(["enc tridonic %d %d %s 0" % (cb.sendtwice, len(cb.frame) == 24, busb)])[0].split()[1:]]
        for m in ra:
            ts.deliver(sim.tri_packet(0x12, m[0], m[1:5], seqa))
            await sim.settle(2)
        history.append("late: the gateway reports %s for sequence number %d" % (" ".join(tri_tok(m) for m in ra), seqa))
        for m in rb:
            ts.deliver(sim.tri_packet(0x12, m[0], m[1:5], seqb))
            await sim.settle(2)
        history.append("the gateway reports %s for sequence number %d" % (" ".join(tri_tok(m) for m in rb), seqb))
        await sim.settle(5)
        if tb.done():
            try:
                res = "ok " + canon_answer(tb.result(), ids)
            except BaseException as e:  # noqa
                res = "err " + exc_name(e)
        else:
            res = "blocked"
            tb.cancel()
        if not ta.done():
            ta.cancel()
        await sim.settle(2)
        return res, history, dict(d._outstanding)

    for ca, cb in itertools.product(queries, repeat=2):
        for variant in ("abandoned", "repeated"):
            for busa, busb in (("v%d" % rng.randrange(1, 255), "s"), ("v%d" % rng.randrange(1, 128), "v%d" % rng.randrange(128, 255)),
                               ("g", "v%d" % rng.randrange(256)), ("v7", "g")):
                for seq0 in (1, rng.choice([2, 100, 254, 255])):
                    res, history, left = sim.run(scenario, ca, busa, cb, busb, seq0, variant)
                    check_table(corr, "tridonic", cb, busb, res, ids,
                                history={"routing": history, "caller": "B", "command": str(cb), "bus": busb,
                                         "variant": variant})
                    if left:
                        corr.disagree("tridonic_routing_late", {"history": history}, "outstanding empty",
                                      "entries left: %s" % list(left))
                    n += 1
    corr.count("tridonic_late_reports", n)


def route_two_tridonic(ctx, corr, ids, picks):
    """Two Tridonic interfaces in one process (two DALI lines), each with a command in flight at the same moment
    and - the start values being random - possibly with the SAME sequence number: each driver is an instance of the
    one-driver model, nothing is shared between them; each caller receives the answer its own gateway gave to its
    own command.  (Strengthening after seeded round 6: per-driver tables must be per driver.)"""
    cmdpool = [picks[k] for k in KINDS]
    n = 0

    async def scenario(loop, ca, busa, cb, busb, seqa, seqb, order):
        hub = sim.OSHub()
        t1 = await sim.TriSim(seq0=seqa, hub=hub).start()
        t2 = await sim.TriSim(seq0=seqb, hub=hub).start()
        ta = asyncio.ensure_future(t1.d.send(ca))
        tb = asyncio.ensure_future(t2.d.send(cb))
        await sim.settle(5)
        history = []
        lanes = []
        for name, ts, c, bus in (("A", t1, ca, busa), ("B", t2, cb, busb)):
            if not ts.fos.written:
                lanes.append([])
                history.append("driver %s wrote nothing" % name)
                continue
            seq = ts.fos.written[-1][1]
            enc = ask(["enc tridonic %d %d %s 0" % (c.sendtwice, len(c.frame) == 24, bus)])[0].split()[1:]
            reps = [tuple(int(x) for x in m.split(".")) for m in enc]
            history.append("driver %s writes %s with sequence number %d" % (name, c.frame, seq))
            lanes.append([(name, ts, seq, m) for m in reps])
        k = 0
        while any(lanes):
            live = [l for l in lanes if l]
            lane = live[order[k % len(order)] % len(live)]
            k += 1
            name, ts, seq, m = lane.pop(0)
            ts.deliver(sim.tri_packet(0x12, m[0], m[1:5], seq))
            history.append("gateway %s reports %s for sequence number %d" % (name, tri_tok(m), seq))
            await sim.settle(5)
        await sim.settle(6)
        res = []
        for t in (ta, tb):
            if t.done():
                try:
                    res.append("ok " + canon_answer(t.result(), ids))
                except BaseException as e:  # noqa
                    res.append("err " + exc_name(e))
            else:
                res.append("blocked")
        left = (dict(t1.d._outstanding), dict(t2.d._outstanding))
        return res, history, left
    rng = ctx.rng
    for _ in range(250 if ctx.thorough else 60):
        ca, cb = rng.choice(cmdpool), rng.choice(cmdpool)
        busa, busb = bus_of(rng, ca.response), bus_of(rng, cb.response)
        same = rng.random() < 0.6
        seqa = rng.choice([1, 7, 100, 254, 255])
        seqb = seqa if same else rng.choice([1, 7, 100, 254, 255])
        order = [rng.randrange(2) for _ in range(10)]
        try:
            res, history, left = sim.run(scenario, ca, busa, cb, busb, seqa, seqb, order)
        except Exception as e:  # noqa
            res, history, left = ["err " + exc_name(e)] * 2, ["the scenario itself raised %r" % (e,)], ({}, {})
        for i, (c, bus) in enumerate(((ca, busa), (cb, busb))):
            check_table(corr, "tridonic", c, bus, res[i], ids,
                        history={"routing": history, "driver": "AB"[i], "command": str(c), "bus": bus,
                                 "two drivers in one process": True})
        if left[0] or left[1]:
            corr.violate("routing:tridonic:two-drivers", {"routing": history}, "both tables empty at the end",
                         "entries left: %s / %s" % (list(left[0]), list(left[1])))
        n += 1
    corr.count("tridonic_two_drivers", n)


def route_hasseb(ctx, corr, ids, picks):
    traces = 0
    pool = [picks[k] for k in KINDS if k[0] == 16]

    async def scenario(loop, callers, stale_before, late_dup, queued):
        hs = await sim.HassebSim().start()
        d = hs.d
        toks, expect, history = [], [], []
        tasks = {}
        if queued:
            for i, (c, _) in enumerate(callers):
                tasks[i] = asyncio.ensure_future(d.send(c))
        results = [None] * len(callers)
        for i, (c, bus) in enumerate(callers):
            if stale_before[i] and not queued:
                # a report nobody waits for (left over / unsolicited) is stored before this command is written
                hs.deliver(2, 0xEE)
                toks.append("P.2.238")
                expect.append("-")
                history.append("unsolicited report status 2 byte 0xEE while idle")
            if not queued:
                tasks[i] = asyncio.ensure_future(d.send(c))
            await sim.settle(4)
            # caller i holds the locks now and has written
            toks.append("W.%d.%s.%d" % (i, ids.tok(c.response), c.sendtwice))
            if c.response is None:
                try:
                    r = "ok." + canon_answer(tasks[i].result(), ids)
                except BaseException as e:  # noqa
                    r = "err." + exc_name(e)
                expect.append(r)
                results[i] = (r.replace(".", " ", 1), False)
                history.append("caller %d writes non-query %s" % (i, c.frame))
                continue
            expect.append("-")
            history.append("caller %d writes query %s" % (i, c.frame))
            rep = ask(["enc hasseb 0 0 %s 77" % bus])[0].split()[1]
            st, by = (int(x) for x in rep.split("."))
            hs.deliver(st, by)
            toks.append("P.%d.%d" % (st, by))
            expect.append("-")
            history.append("report status %d byte %d" % (st, by))
            if late_dup[i]:
                # a second report before the caller runs: the slot is overwritten
                hs.deliver(2, 0x5A)
                toks.append("P.2.90")
                expect.append("-")
                history.append("second report status 2 byte 0x5A before the caller resumes")
            await sim.settle(4)
            toks.append("K.%d" % i)
            try:
                r = "ok." + canon_answer(tasks[i].result(), ids)
            except BaseException as e:  # noqa
                r = "err." + exc_name(e)
            expect.append(r)
            results[i] = (r.replace(".", " ", 1), late_dup[i])
        return toks, expect, results, history

    rng = ctx.rng
    n = 1500 if ctx.thorough else 300
    for _ in range(n):
        k = rng.randrange(1, 4)
        callers = []
        for _ in range(k):
            c = rng.choice(pool)
            callers.append((c, bus_of(rng, c.response)))
        stale = [rng.random() < 0.5 for _ in range(k)]
        dup = [rng.random() < 0.15 for _ in range(k)]
        toks, expect, results, history = sim.run(scenario, callers, stale, dup, rng.random() < 0.4)
        line = "slotroute " + " ".join(toks)
        ans = ask([line])[0]
        got = ans.split()[1:] if ans.startswith("ok") else [ans]
        if got != expect:
            corr.disagree("hasseb_routing", {"trace": line, "history": history}, got, expect)
        for i, (c, bus) in enumerate(callers):
            r, overwritten = results[i]
            if not overwritten:
                check_table(corr, "hasseb", c, bus, r, ids,
                            history={"routing": history, "caller": i, "command": str(c), "bus": bus})
        traces += 1
    corr.count("traces", traces)
    corr.count("hasseb_routing", traces)


def route_serial(ctx, corr, ids, picks):
    """LUBA / SCI: 1-3 callers queued on the transaction lock; between and
    around their sends the receiver sees 0-3 backward frames that belong to
    nobody (another master's transaction, a late answer)."""
    traces = 0
    pool = [picks[k] for k in KINDS]

    async def scenario(loop, kind, callers, strays, late, info_stale):
        ss = await sim.SerialSim(kind).start()
        d = ss.d
        ss.auto_confirm(0.017)
        toks, expect, history = [], [], []
        results = []
        for i, (c, bus) in enumerate(callers):
            for b in strays[i]:
                ss.rx([b])
                toks.append("X.%d" % b)
                expect.append("-")
                history.append("backward frame %d seen while idle" % b)
            if info_stale[i] and kind == "sci":
                # the gateway reports a bus error while idle: an info item nobody waits for
                ss.feed(sim.sci_frame(0x17, 0, 0, 3))
                history.append("SCI error report while idle")
            ss.tr.written.clear()
            t = asyncio.ensure_future(d.send(c))
            await sim.settle(3)
            toks.append("L.%d.%s" % (i, ids.tok(c.response)))
            expect.append("-")
            history.append("caller %d sends %s" % (i, c.frame))
            # each frame goes out ~17 ms after its write, then the gateway confirms
            for _ in range(8):
                n = len(ss.tr.written)
                await asyncio.sleep(0.0171)
                await sim.settle(3)
                if len(ss.tr.written) == n:
                    break
            w = ask(["enc %s %d 0 %s 0" % (kind, c.sendtwice, bus)])[0].split()[1]
            if w != "T":
                delay = 0.040 if late[i] else [0.005, 0.012, 0.020][(i + len(strays[i])) % 3]
                await asyncio.sleep(delay)
                ss.rx([int(w)])
                toks.append("X.%d" % int(w))
                expect.append("-")
                history.append("backward frame %d, %d ms after the confirmation" % (int(w), round(delay * 1000)))
            try:
                r = "ok." + canon_answer(await t, ids)
            except BaseException as e:  # noqa
                r = "err." + exc_name(e)
            if c.response is not None:
                # did the real driver take an item or time out?  the model is told which
                took = r.startswith("ok.resp") and not r.endswith(".s")
                if w != "T" and late[i]:
                    # the answer came after the window: the caller gave up first
                    toks.insert(len(toks) - 1, "Q.%d.giveup" % i)
                    expect.insert(len(expect) - 1, r)
                else:
                    toks.append("Q.%d.%s" % (i, "take" if w != "T" else "giveup"))
                    expect.append(r)
            else:
                toks.append("Q.%d.giveup" % i)
                expect.append(r)
            results.append((r.replace(".", " ", 1), w != "T" and late[i]))
            await sim.settle(2)
        return toks, expect, results, history

    rng = ctx.rng
    n = 800 if ctx.thorough else 150
    for kind in ("luba", "sci"):
        for _ in range(n):
            k = rng.randrange(1, 4)
            callers = []
            for _ in range(k):
                c = rng.choice(pool)
                callers.append((c, bus_of(rng, c.response) if rng.random() < 0.8 else "s"))
            callers = [(c, "s" if b == "g" else b) for c, b in callers]
            strays = [[rng.randrange(256) for _ in range(rng.choice([0, 0, 1, 2, 3]))] for _ in range(k)]
            late = [rng.random() < 0.2 for _ in range(k)]
            info_stale = [rng.random() < 0.3 for _ in range(k)]
            toks, expect, results, history = sim.run(scenario, kind, callers, strays, late, info_stale)
            line = "queroute 1 " + " ".join(toks)
            ans = ask([line])[0]
            got = ans.split()[1:] if ans.startswith("ok") else [ans]
            if got != expect:
                corr.disagree(kind + "_routing", {"trace": line, "history": history}, got, expect)
            for i, (c, bus) in enumerate(callers):
                r, was_late = results[i]
                # an answer after the window counts as silence for this caller (and must not reach the next one)
                check_table(corr, kind, c, "s" if was_late else bus, r, ids,
                            history={"routing": history, "caller": i, "command": str(c), "bus": bus})
            traces += 1
    corr.count("traces", traces)
    corr.count("serial_routing", traces)


def route_serial_late_in_prefix(ctx, corr, ids):
    """LUBA / SCI: the answer to caller A's query arrives after A gave up, WHILE caller B's EnableDeviceType frame
    is on its way (before that frame's confirmation).  B's command needs that device type; the flush of stale
    answers belongs directly before B's own command, so the late byte must never come back as B's answer."""
    from dali.gear import general as gg, led, colour, emergency
    from dali.address import GearBroadcast, GearShort, GearGroup
    A_pool = [gg.QueryActualLevel(GearShort(1)), gg.QueryStatus(GearBroadcast()), gg.QueryVersionNumber(GearGroup(3))]
    B_pool = [led.QueryGearType(GearShort(2)), led.QueryDimmingCurve(GearShort(2)),
              colour.QueryColourStatus(GearShort(5)), emergency.QueryBatteryCharge(GearShort(7)),
              led.QueryFeatures(GearBroadcast())]
    traces = 0

    async def scenario(loop, kind, A, B, busB, late_byte, when):
        ss = await sim.SerialSim(kind).start()
        d = ss.d
        ss.auto_confirm(0.017)
        history = ["caller A sends %s; the gear's answer is delayed" % A.frame]
        rA = await d.send(A)                       # silence within the window: A gives up
        history.append("caller A gave up: %s" % canon_answer(rA, ids))
        ss.tr.written.clear()
        t = asyncio.ensure_future(d.send(B))
        await sim.settle(3)
        n0 = len(ss.tr.written)
        history.append("caller B sends %s (device type %d): %d frame(s) written so far" % (B.frame, B.devicetype, n0))
        await asyncio.sleep(when)                  # the prefix frame is not confirmed before 17 ms
        ss.rx([late_byte])
        history.append("A's late answer %d arrives %d ms into B's EnableDeviceType frame" % (late_byte, round(when * 1000)))
        for _ in range(8):
            n = len(ss.tr.written)
            await asyncio.sleep(0.0171)
            await sim.settle(3)
            if len(ss.tr.written) == n:
                break
        w = ask(["enc %s %d 0 %s 0" % (kind, B.sendtwice, busB)])[0].split()[1]
        if w != "T":
            await asyncio.sleep(0.005)
            ss.rx([int(w)])
            history.append("B's own answer %d, 5 ms after the confirmation of its command" % int(w))
        try:
            r = "ok " + canon_answer(await t, ids)
        except BaseException as e:  # noqa
            r = "err " + exc_name(e)
        return r, history, len(ss.tr.written)

    rng = ctx.rng
    n = 60 if ctx.thorough else 16
    for kind in ("luba", "sci"):
        for _ in range(n):
            A, B = rng.choice(A_pool), rng.choice(B_pool)
            busB = rng.choice(["s", "s", "v%d" % rng.randrange(256)])
            late_byte = rng.randrange(256)
            when = rng.choice([0.002, 0.008, 0.015])
            r, history, nw = sim.run(scenario, kind, A, B, busB, late_byte, when)
            if nw < 2:
                # the driver sent no separate prefix frame: nothing to place the late answer into
                corr.bump("late_in_prefix:no-prefix-frame")
                continue
            check_table(corr, kind, B, busB, r, ids,
                        history={"routing": history, "command": str(B), "bus": busB, "late answer of A": late_byte})
            traces += 1
    corr.count("traces", traces)
    corr.count("serial_late_in_prefix", traces)


def route_serial_slow_confirm(ctx, corr, ids, picks):
    """LUBA / SCI: the gateway confirms each transmission of a frame in its own time (a busy bus; the repeat of a
    send-twice frame is confirmed one frame time and a gap after the first), always inside the driver's documented
    `timeout_tx_confirm`.  A send-twice command followed by queries: every send() still gets the answer to its own
    command — a confirmation that is merely slow must not be left behind for the next command."""
    traces = 0
    pool = [picks[k] for k in KINDS]
    twice = [c for c in pool if c.sendtwice] or pool
    queries = [c for c in pool if c.response is not None] or pool

    async def scenario(loop, kind, cmds, buses, delays):
        ss = await sim.SerialSim(kind).start()
        d = ss.d
        history, results = [], []
        pending = {"i": 0}

        def on_write(b):
            reps = ss.confirmations(b)
            dl = delays[pending["i"] % len(delays)]
            pending["i"] += 1
            t = 0.0
            for k, rep in enumerate(reps):
                t += dl[k % len(dl)]
                loop.call_later(t, ss.feed, rep)
            history.append("write #%d confirmed after %s ms" % (pending["i"], "+".join(str(round(x * 1000)) for x in dl[:len(reps)])))
            ss.last_conf_at = loop.time() + t
        ss.tr.on_write = on_write
        for i, (c, bus) in enumerate(zip(cmds, buses)):
            n0 = pending["i"]
            t = asyncio.ensure_future(d.send(c))
            await sim.settle(3)
            # wait until every frame of this command has been written and confirmed
            for _ in range(60):
                await asyncio.sleep(0.01)
                await sim.settle(2)
                if pending["i"] > n0 and loop.time() >= getattr(ss, "last_conf_at", 0) and \
                        pending["i"] == getattr(ss, "_seen_writes", -1):
                    break
                ss._seen_writes = pending["i"]
            w = ask(["enc %s %d 0 %s 0" % (kind, c.sendtwice, bus)])[0].split()[1]
            if w != "T":
                await asyncio.sleep(0.004)
                ss.rx([int(w)])
                history.append("backward frame %d, 4 ms after the last confirmation" % int(w))
            try:
                r = "ok " + canon_answer(await asyncio.wait_for(t, 5.0), ids)
            except BaseException as e:  # noqa
                r = "err " + exc_name(e)
            history.append("send %d: %s%s, bus %s -> %s" % (i, c, " (twice)" if c.sendtwice else "", bus, r))
            results.append((r, list(history)))
            await sim.settle(2)
        return results

    rng = ctx.rng
    n = 80 if ctx.thorough else 24
    for kind in ("luba", "sci"):
        lim = 0.9 if kind == "luba" else 0.09
        choices = [x for x in (0.005, 0.017, 0.03, 0.045, 0.06, 0.2, 0.8) if x < lim]
        for _ in range(n):
            cmds = [rng.choice(twice), rng.choice(queries)] + [rng.choice(pool) for _ in range(rng.randrange(0, 3))]
            buses = [bus_of(rng, c.response) for c in cmds]
            buses = ["s" if b == "g" else b for b in buses]
            delays = [(rng.choice(choices), rng.choice(choices)) for _ in range(8)]
            results = sim.run(scenario, kind, cmds, buses, delays)
            for (r, hist), c, bus in zip(results, cmds, buses):
                check_table(corr, kind, c, bus, r, ids,
                            history={"routing": hist, "command": str(c), "bus": bus, "gateway": "slow confirmations"})
            traces += 1
    corr.count("traces", traces)
    corr.count("serial_slow_confirm", traces)


def route_atx_sequence(ctx, corr, ids, picks, allcmds):
    """ATX LED hat: several commands one after the other on ONE driver object and port.  The hat writes its
    line(s) for a command when it has put it on the bus; every send() must read exactly the lines of its own
    command, so that the next one starts on a clean line."""
    import logging
    import threading
    from dali.driver import atxled
    from dali.gear import general as gg
    from dali.address import GearShort, GearBroadcast
    atxled.time = types.SimpleNamespace(sleep=lambda s: None)
    log = logging.getLogger("verif-atx")
    log.disabled = True
    rng = ctx.rng

    class Hat:
        def __init__(self):
            self.lines, self.script, self.written = [], [], []

        def write(self, b):
            self.written.append(bytes(b) if not isinstance(b, str) else b.encode("ascii"))
            self.lines += self.script.pop(0) if self.script else []

        def read_until(self, term):
            return (self.lines.pop(0) if self.lines else "").encode("ascii")

        def close(self):
            pass

    pool16 = [c for c in allcmds if len(c.frame) == 16]
    levels = [gg.DAPC(GearShort(1), 100), gg.DAPC(GearBroadcast(), 254), gg.DAPC(GearShort(63), 0)]
    queries = [c for c in pool16 if c.response is not None]
    n = 0
    for _ in range(300 if ctx.thorough else 100):
        cmds = [rng.choice(levels if rng.random() < 0.4 else pool16) for _ in range(rng.randrange(1, 4))] + \
               [rng.choice(queries)] + [rng.choice(pool16) for _ in range(rng.randrange(0, 2))]
        buses = ["s" if b == "g" else b for b in (bus_of(rng, c.response) for c in cmds)]
        drv = object.__new__(atxled.SyncDaliHatDriver)
        drv.port, drv.lock, drv.buffer, drv.LOG = "fake", threading.RLock(), [], log
        hat = Hat()
        drv.conn = hat
        for c, bus in zip(cmds, buses):
            toks = ask(["enc atx %d 0 %s 0" % (c.sendtwice, bus)])[0].split()[1:]
            hat.script.append(["N\n" if t.startswith("N") else "J%02X\n" % int(t.split(".")[1]) for t in toks])
        history = []
        for i, (c, bus) in enumerate(zip(cmds, buses)):
            try:
                r = "ok " + canon_answer(drv.send(c), ids)
            except BaseException as e:  # noqa
                r = "err " + exc_name(e)
            history.append("send %d: %s, bus %s -> %s" % (i, c, bus, r))
            check_table(corr, "atx", c, bus, r, ids,
                        history={"routing": list(history), "port": "one hat, commands in sequence",
                                 "command": str(c), "bus": bus})
        n += 1
    corr.count("traces", n)
    corr.count("atx_sequence", n)


def route_serial_cancel_queued(ctx, corr, ids, picks):
    """LUBA / SCI: three callers on one driver; the second is cancelled while it is still queued behind the first.
    The gateway answers every frame 5 ms after confirming it, according to the bus outcome scripted for THAT frame.
    The first and the third caller must each come back with the outcome of their own command."""
    traces = 0
    pool = [picks[k] for k in KINDS]
    queries = [c for c in pool if c.response is not None and not c.sendtwice] or pool

    async def scenario(loop, kind, c1, c2, c3, bus1, bus3, when):
        ss = await sim.SerialSim(kind).start()
        d = ss.d
        history = []
        outcome_of = {bytes(c1.frame.pack): bus1, bytes(c3.frame.pack): bus3}

        def on_write(b):
            loop.call_later(0.017, ss.confirm, b)
            bus = outcome_of.get(bytes(ss.frame_of_write(b)), "s")
            w = ask(["enc %s 0 0 %s 0" % (kind, bus)])[0].split()[1]
            if w != "T":
                loop.call_later(0.022, ss.rx, [int(w)])
        ss.tr.on_write = on_write
        t1 = asyncio.ensure_future(d.send(c1))
        await sim.settle(3)
        t2 = asyncio.ensure_future(d.send(c2))
        t3 = asyncio.ensure_future(d.send(c3))
        await sim.settle(3)
        if when:
            await asyncio.sleep(when)
        t2.cancel()
        history.append("caller 1 sends %s (bus %s); callers 2 and 3 queue; caller 2 is cancelled %d ms later"
                       % (c1.frame, bus1, round(when * 1000)))
        res = []
        for t in (t1, t3):
            try:
                res.append("ok " + canon_answer(await asyncio.wait_for(t, 5.0), ids))
            except BaseException as e:  # noqa
                res.append("err " + exc_name(e))
        try:
            await t2
        except BaseException:   # noqa
            pass
        history.append("caller 1 -> %s; caller 3 (%s, bus %s) -> %s" % (res[0], c3.frame, bus3, res[1]))
        return res, history

    rng = ctx.rng
    for kind in ("luba", "sci"):
        for _ in range(60 if ctx.thorough else 16):
            c1, c3 = rng.choice(queries), rng.choice(queries)
            if c1.frame.pack == c3.frame.pack:
                continue
            c2 = rng.choice(pool)
            bus1 = rng.choice(["s", "s", "v%d" % rng.randrange(256)])
            bus3 = "v%d" % rng.randrange(256)
            when = rng.choice([0.0, 0.003, 0.012, 0.02])
            res, history = sim.run(scenario, kind, c1, c2, c3, bus1, bus3, when)
            for c, bus, r, who in ((c1, bus1, res[0], 1), (c3, bus3, res[1], 3)):
                check_table(corr, kind, c, bus, r, ids,
                            history={"routing": history, "caller": who, "command": str(c), "bus": bus})
            traces += 1
    corr.count("traces", traces)
    corr.count("serial_cancel_queued", traces)


DELIVERY = ["separate", "one-chunk", "back-to-back", "straddled"]


def route_serial_delivery(ctx, corr, ids, picks, found):
    """LUBA / SCI: how the gateway's reports for ONE transmission reach `data_received`.

    For every frame the driver writes, the fake gateway produces the protocol's
    reports - "frame sent" (twice for a LUBA send-twice command) and, after the
    caller's own command, the bus outcome (8-bit backward frame / framing-error
    event / nothing) - and hands them to the real protocol object 17 ms later
      separate      one `data_received` per report, the outcome 12 ms after the confirmation
      one-chunk     every pending report in ONE `data_received` call (one serial read)
      back-to-back  one call per report, but without the event loop running in between
                    (the loop was busy: both reader callbacks run before the sender resumes)
      straddled     the chunk boundary falls inside the outcome report
    for single callers (every command kind incl. device-type-prefixed ones x
    silent / value / garbled) and for 2-3 callers queued on the transaction lock.
    Oracle: each caller gets the value the gateway reported for ITS command."""
    traces = 0
    ks = cmdlib.kinds(found)
    pool = [picks[k] for k in KINDS] + [c for (bits, q, tw, dt), c in sorted(ks.items(), key=lambda kv: kv[0]) if dt]

    async def scenario(loop, kind, callers, pattern, stray, queued):
        ss = await sim.SerialSim(kind).start()
        d = ss.d
        history, toks, expect = [], [], []
        serving = [0]

        def say(reports):
            return [r.hex() for r in reports]

        def on_write(b):
            i = serving[0]
            c, bus = callers[i]
            fr = ss.frame_of_write(b)
            own = fr == bytes(c.frame.as_byte_sequence)
            confs = ss.confirmations(b)
            outcome = ss.outcome_report(bus) if own else []
            history.append("caller %d writes %s%s" % (i, fr.hex(), "" if own else " (ENABLE DEVICE TYPE prefix)"))
            history.append("gateway, 17 ms later, %s: confirmation %s%s" % (
                pattern, say(confs), (" + outcome %s" % say(outcome)) if outcome else ""))
            if own:
                serving[0] += 1
            if pattern == "separate":
                def first():
                    for r in confs:
                        ss.feed(r)
                loop.call_later(0.017, first)
                for r in outcome:
                    loop.call_later(0.029, ss.feed, r)
            elif pattern == "one-chunk":
                loop.call_later(0.017, ss.feed, b"".join(confs + outcome))
            elif pattern == "back-to-back":
                def burst():
                    for r in confs + outcome:
                        ss.feed(r)
                loop.call_later(0.017, burst)
            else:
                data = b"".join(confs + outcome)
                cut = len(b"".join(confs)) + 2 if outcome else len(data) - 2
                loop.call_later(0.017, ss.feed, data[:cut])
                loop.call_later(0.019, ss.feed, data[cut:])
        ss.tr.on_write = on_write
        if stray is not None:
            ss.rx([stray])
            toks.append("X.%d" % stray)
            expect.append("-")
            history.append("backward frame %d seen while idle" % stray)
        tasks = []
        if queued:
            tasks = [asyncio.ensure_future(d.send(c)) for c, _ in callers]
        results = []
        for i, (c, bus) in enumerate(callers):
            t = tasks[i] if queued else asyncio.ensure_future(d.send(c))
            try:
                r = "ok." + canon_answer(await t, ids)
            except BaseException as e:  # noqa
                r = "err." + exc_name(e)
            toks.append("L.%d.%s" % (i, ids.tok(c.response)))
            expect.append("-")
            if bus[0] == "v":
                toks.append("X.%s" % bus[1:])
                expect.append("-")
            toks.append("Q.%d.%s" % (i, "take" if (bus[0] == "v" and c.response is not None) else "giveup"))
            expect.append(r)
            results.append(r.replace(".", " ", 1))
            await sim.settle(2)
        return toks, expect, results, history

    def run_one(kind, callers, pattern, stray, queued):
        nonlocal traces
        toks, expect, results, history = sim.run(scenario, kind, callers, pattern, stray, queued)
        line = "queroute 1 " + " ".join(toks)
        ans = ask([line])[0]
        got = ans.split()[1:] if ans.startswith("ok") else [ans]
        if got != expect:
            corr.disagree(kind + "_routing", {"trace": line, "history": history}, got, expect)
        for i, (c, bus) in enumerate(callers):
            check_table(corr, kind, c, bus, results[i], ids,
                        history={"routing": history, "delivery": pattern, "caller": i, "command": str(c),
                                 "bus": bus, "queued": queued})
            corr.nontrivial((kind, "delivery", pattern, c.response is not None, bus[0], len(callers) > 1))
        traces += 1
    rng = ctx.rng
    for kind in ("luba", "sci"):
        for pattern in DELIVERY:
            for c in pool:
                for bus in (["s", "g", "v%d" % rng.randrange(256), "v0", "v255"] if c.response is not None else ["s"]):
                    run_one(kind, [(c, bus)], pattern, rng.choice([None, None, rng.randrange(256)]), False)
            for _ in range(60 if ctx.thorough else 12):
                k = rng.randrange(2, 4)
                callers = []
                for _ in range(k):
                    c = rng.choice(pool)
                    callers.append((c, bus_of(rng, c.response)))
                run_one(kind, callers, pattern, rng.choice([None, rng.randrange(256)]), rng.random() < 0.7)
            # K6 (found by this suite, then fixed): whatever report the previous exchange leaves behind - the error
            # information frame after a garbled answer, the answer nobody took of a command sent as a non-query -
            # must not be taken for the confirmation of the NEXT command's EnableDeviceType prefix: every command
            # kind with every outcome, directly followed by a device-type query that is answered
            dtq = [c for c in pool if c.devicetype and c.response is not None]
            for first in pool:
                for bus in (["s", "g", "v9"] if first.response is not None else ["s"]):
                    for queued in (False, True):
                        second = dtq[(len(bus) + pool.index(first)) % len(dtq)]
                        run_one(kind, [(first, bus), (second, "v%d" % (77 + pool.index(first)))], pattern, None, queued)
    corr.count("traces", traces)
    corr.count("serial_delivery", traces)


# ---- ATX LED hat used from two threads ------------------------------------------

class HatPort:
    """fake `serial.Serial` of an ATX LED hat.  One reply line per transmitted
    frame, in wire order, no identification (the hat's protocol, Spec.atxLines):
    `J<hex>` when gear answered, `N` otherwise; a send-twice command is
    answered twice.  `slow[k]` = number of reads that time out (return b"")
    before the reply to the k-th written command becomes available (the bus was
    busy).  No real waiting anywhere."""

    def __init__(self, answers, slow, sched):
        self.answers = answers          # command line (bytes) -> reply lines (Spec.atxLines)
        self.slow = list(slow)
        self.sched = sched
        self.pending = []               # [reads still to time out, line]
        self.events = []
        self.nwrites = 0

    def write(self, data):
        data = bytes(data)
        who = self.sched.who()
        self.events.append("thread %s writes %r" % (who, data.decode("ascii").strip()))
        wait = self.slow[self.nwrites] if self.nwrites < len(self.slow) else 0
        self.nwrites += 1
        lines = self.answers.get(data, [b"N\n"])
        self.sched.trace.append(("W.%s.%d" % (who, len(lines)), "-"))
        for line in lines:
            self.pending.append([wait, line, who])
            wait = 0

    def read_until(self, term=b"\n"):
        who = self.sched.who()
        if self.pending and self.pending[0][0] <= 0:
            _, line, owner = self.pending.pop(0)
            self.sched.trace.append(("G.%s" % who, "from=%s" % owner))
            self.events.append("thread %s reads %r" % (who, line.decode("ascii").strip()))
            return line
        if self.pending:
            self.pending[0][0] -= 1
        self.events.append("thread %s: read times out" % who)
        self.sched.timed_out(who)
        return b""

    def close(self):
        pass


class HandOff:
    """deterministic two-thread schedule.  Thread 2 is released when thread 1's
    `at`-th read of the port times out and thread 1 goes on only once thread 2
    stands at the driver's lock (or is through with its send); from then on,
    whenever thread 1 lets go of the lock completely, thread 2 runs until its
    send() has returned.  If thread 1 keeps the lock from its write until it
    has its reply (the unchanged driver), thread 2 simply waits its turn."""

    def __init__(self, at):
        import threading
        self.threading = threading
        self.at = at
        self.ids = {}
        self.timeouts1 = 0
        self.go2 = threading.Event()
        self.at_lock2 = threading.Event()
        self.done2 = threading.Event()
        self.problems = []
        self.trace = []                 # (model event, what happened) in real order

    def who(self):
        return self.ids.get(self.threading.get_ident(), "?")

    def timed_out(self, who):
        if who == 1:
            self.timeouts1 += 1
            if self.timeouts1 == self.at and not self.go2.is_set():
                self.go2.set()
                if not self.at_lock2.wait(10):
                    self.problems.append("thread 2 never reached the lock")

    def make_lock(self):
        sched = self
        inner = self.threading.RLock()

        class Lock:
            owner, depth = None, 0

            def acquire(self, *a, **kw):
                me = sched.who()
                if me == 2:
                    sched.at_lock2.set()
                r = inner.acquire(*a, **kw)
                if r:
                    if Lock.owner != me:
                        Lock.owner, Lock.depth = me, 0
                    Lock.depth += 1
                    if Lock.depth == 1:
                        sched.trace.append(("A.%s" % me, "-"))
                return r

            def release(self):
                me = sched.who()
                Lock.depth -= 1
                free = Lock.depth == 0
                if free:
                    Lock.owner = None
                    sched.trace.append(("R.%s" % me, "-"))
                inner.release()
                if me == 1 and free and sched.go2.is_set() and not sched.done2.is_set():
                    if not sched.done2.wait(10):
                        sched.problems.append("thread 2 did not finish while thread 1 was off the lock")

            __enter__ = acquire

            def __exit__(self, *a):
                self.release()
        return Lock()


def route_atx_threads(ctx, corr, ids, picks, found):
    """the real SyncDaliHatDriver, one driver object, two threads, every pair of
    command kinds x bus outcomes, the first caller's reply late by 1-2 reads:
    each caller must get the answer to its own command."""
    import logging
    import threading
    from dali.driver import atxled
    atxled.time = types.SimpleNamespace(sleep=lambda s: None)
    log = logging.getLogger("verif-atx")
    log.disabled = True
    traces = 0
    pool = [picks[k] for k in KINDS]

    def run_pair(c1, bus1, c2, bus2, late1, late2, at):
        nonlocal traces
        sched = HandOff(at)
        drv = object.__new__(atxled.SyncDaliHatDriver)
        drv.port = "fake"
        drv.lock = sched.make_lock()
        drv.buffer = []
        drv.LOG = log
        answers = {}
        for c, bus in ((c1, bus1), (c2, bus2)):
            toks = ask(["enc atx %d 0 %s 0" % (c.sendtwice, bus)])[0].split()[1:]
            answers[bytes(drv.construct(c))] = [
                b"N\n" if t.startswith("N") else b"J%02X\n" % int(t.split(".")[1]) for t in toks]
        port = HatPort(answers, [late1, late2], sched)
        drv.conn = port
        results = {}

        def first():
            sched.ids[threading.get_ident()] = 1
            try:
                results[1] = "ok " + canon_answer(drv.send(c1), ids)
            except BaseException as e:  # noqa
                results[1] = "err " + exc_name(e)

        def second():
            sched.ids[threading.get_ident()] = 2
            sched.go2.wait(10)
            try:
                results[2] = "ok " + canon_answer(drv.send(c2), ids)
            except BaseException as e:  # noqa
                results[2] = "err " + exc_name(e)
            finally:
                sched.at_lock2.set()
                sched.done2.set()
        t1, t2 = threading.Thread(target=first, daemon=True), threading.Thread(target=second, daemon=True)
        t2.start()
        t1.start()
        t1.join(30)
        if not sched.go2.is_set():
            sched.go2.set()          # thread 1 never saw a time-out: thread 2 follows it
        t2.join(30)
        history = {"routing": list(port.events), "thread 1": "%s, bus %s, reply late by %d reads" % (c1, bus1, late1),
                   "thread 2": "%s, bus %s, started at thread 1's time-out no. %d" % (c2, bus2, at)}
        for p in sched.problems:
            corr.disagree("atx_threads", history, "schedule completes", p)
        # model vs code: the port's lock / write / read events are a run of the hat model, line by line
        line = "hatroute " + " ".join(e for e, _ in sched.trace)
        ans = ask([line])[0]
        got = ans.split()[1:] if ans.startswith("ok") else [ans]
        if got != [o for _, o in sched.trace]:
            corr.disagree("atx_threads", dict(history, trace=line), got, [o for _, o in sched.trace])
        for n, c, bus in ((1, c1, bus1), (2, c2, bus2)):
            if n not in results:
                corr.violate("routing:atx:hang", dict(history, caller=n), "send() returns", "thread %d still inside send()" % n,
                             "send() did not return with two threads on one driver object")
                continue
            check_table(corr, "atx", c, bus, results[n], ids, history=dict(history, caller=n, command=str(c), bus=bus))
            corr.nontrivial(("atx-threads", n, c.response is not None, bool(c.sendtwice), bus[0]))
        traces += 1
    rng = ctx.rng
    for c1 in pool:
        for c2 in pool:
            v1, v2 = rng.randrange(256), rng.randrange(256)
            if v1 == v2:
                v2 = (v2 + 1) % 256
            b1s = ["s", "v%d" % v1] if c1.response is not None else ["s"]
            b2s = ["s", "v%d" % v2] if c2.response is not None else ["s"]
            for bus1 in b1s:
                for bus2 in b2s:
                    for late1, at in ((1, 1), (2, 1), (2, 2)):
                        if bytes(c1.frame.pack) == bytes(c2.frame.pack) and bus1 != bus2:
                            continue      # the same frame cannot be answered differently by the table below
                        run_pair(c1, bus1, c2, bus2, late1, rng.choice([0, 0, 1]), at)
    corr.count("traces", traces)
    corr.count("atx_threads", traces)


# ---------------------------------------------------------------------------

def replay(ctx, payload):
    """re-run the quick correspondence and report whether the same key still fails"""
    key = payload.get("failure", {}).get("key")
    return replay_known(ctx, key)


def replay_known(ctx, key):
    import common
    c = common.Corr()
    ctx.thorough = False
    correspond(ctx, c)
    hit = [v for v in c.violations if v["key"] == key]
    if hit:
        print("input:", hit[0]["input"], "\nexpected:", hit[0]["expected"], "\nobserved:", hit[0]["observed"])
    return bool(hit)


LEVEL_TEXT = ("Lean 4 theorems: for each of the six drivers the status->response mapping is typed by the command "
              "(typed_by_command), returns None exactly for commands without response class "
              "(none_iff_no_answer_expected) and maps the protocol's report of silent / value b / garbled to "
              "cls(None) / cls(BackwardFrame(b)) / cls(BackwardFrameError) (per-gateway tables against "
              "Spec/AnswerTable); routing: in every reachable state of the outstanding-by-sequence-number model each "
              "queued report is about the command of the caller that owns the list, including 255-cycle wrap "
              "(routing_tridonic), and the single-slot / flushed-queue models hand a caller only reports stored "
              "after its own flush (routing_slot, routing_queue) and never lose a byte queued after it "
              "(routing_queue_complete); with the ATX hat's port lock held across the exchange every reply line is "
              "read by the thread that transmitted (routing_hat). Models tied to the real drivers exhaustively "
              "(status codes x bytes) and by trace validation in a virtual-time loop.")
LEVEL_NOTE = ("Trusted: Lean kernel; hand-written models tied by exhaustive differential execution (pure mappings) "
              "and trace validation (routing; explored schedules only); protocol literals of Spec/AnswerTable pinned; "
              "virtual-time loop and fake devices; asyncio semantics.")
TECHNIQUE = ("Lean 4 proofs about executable models (answer tables, routing invariants for every event order) + "
             "exhaustive model-vs-driver correspondence + trace validation of the real asyncio drivers in virtual time")
