"""C08 — gear query/set sequences report and establish exactly the gear's state.

Lock-step: the real generators QueryDeviceTypes / QueryGroups / SetGroups of
dali/sequences.py against the Lean specification bus (m_gearseq); the driver
checks every yielded command against the Lean model of the sequence and
evaluates the property's post-condition (Spec/GearPost.lean) on what the real
code did."""
import itertools
from props import gearseq_lib as L

ID = "C08"
MODULE = "DaliVerif.Props.C08"
EXES = ["m_gearseq"]
GEN = True
THEOREMS = ["qdt_conforming", "qdt_silent", "qdt_collision", "qdt_bus", "qdt_adversarial",
            "queryGroups_spec", "setGroups_spec",
            "cmd_sendtwice_gen", "cmd_frames_gen"]
TRUSTED = ["hand-written models Model/GearSeq.lean of QueryDeviceTypes (as repaired), QueryGroups, SetGroups "
           "(dali/sequences.py), tied by lock-step execution of the real generators",
           "specification bus Spec/GearBus.lean: my reading of IEC 62386-102 (QUERY (NEXT) DEVICE TYPE, "
           "group bits, addressing, answer collision = framing error); post-conditions Spec/GearPost.lean"]
ASSUMPTIONS = ["backward frames carry a byte (answers < 256) in the adversarial-stream theorem",
               "SetGroups: the requested set has members 0..15; Python's set iteration order is arbitrary "
               "(the theorem quantifies over every permutation)"]
PARTIAL = ""
LEVEL_TEXT = ("Lean 4 theorems about the models of the three generators run against a specification bus of any "
              "size: QueryDeviceTypes returns exactly the type list of a conforming unit (any strictly ascending "
              "list within 0..253), and against EVERY answer stream ends within 257 commands with "
              "DALISequenceError or the strictly ascending list it was given (induction on 256 - last_seen); "
              "QueryGroups returns exactly the 16 membership bits; SetGroups leaves every addressed unit with "
              "exactly the requested set for all 2^16 x 2^16 pairs (bitwise proof) and every destination kind, "
              "issuing exactly ADD for requested\\current and REMOVE for current\\requested for short/int.")
LEVEL_NOTE = ("Trusted: Lean kernel; the specification bus (my reading of IEC 62386-102); the hand-written models, "
              "tied to dali/sequences.py by lock-step runs (exhaustive over all 2^16 group sets for the query and over "
              "every adversarial answer stream of length <= 6 over {none,error,0,1,6,6,254,255}; sampled elsewhere).")
TECHNIQUE = ("Lean 4 proof over resumption-program models of the generators run against a specification bus "
             "+ lock-step model-vs-code correspondence with the Lean bus as the only oracle")

ALPHABET = ["n", "e", "0", "1", "6", "6", "254", "255"]


def key_of(sc):
    return "%s:%s" % (sc["kind"], sc.get("class", "general"))


def run(sess, ctx, corr, suite, sc, note=""):
    res = sess.run(sc, rng=ctx.rng)
    L.judge(corr, suite, key_of(sc), sc, res, note)
    return res


def types_answers(types):
    if not types:
        return ["254"]
    if len(types) == 1:
        return [str(types[0])]
    return ["255"] + [str(t) for t in types] + ["254"]


def correspond(ctx, corr):
    rng = ctx.rng
    sess = L.Session()
    try:
        _correspond(ctx, corr, sess, rng)
    finally:
        sess.close()


def _correspond(ctx, corr, sess, rng):
    corr.rule.append(
        "lock-step runs of the real generators against the Lean specification bus; QueryDeviceTypes: type lists of "
        "every length 0..8 (ascending, incl. 0 and 253), every ordering of small lists and repeats for the "
        "non-conforming case, no / two units at the address, all destination kinds, and EVERY answer stream of "
        "length <= 6 over {none,error,0,1,6,6,254,255} (prefix tree, exhaustive); QueryGroups: all 2^16 group sets; "
        "SetGroups: structured current x requested grid and random pairs x short/int/group/broadcast/unaddressed, "
        "multi-unit buses, absent and duplicate units; non-trivial = distinct (sequence, destination kind, outcome, "
        "number of commands) classes")

    # ---- QueryDeviceTypes : conforming units --------------------------------
    suite = "qdt_lists"
    lists = [[], [0], [6], [253], [0, 6], [0, 1], [252, 253], [1, 3, 6], [0, 1, 2, 3, 4, 5, 6, 7],
             [6, 8], [0, 253], list(range(246, 254))]
    nrand = 400 if ctx.thorough else 60
    for _ in range(nrand):
        k = rng.randrange(0, 9)
        lists.append(sorted(rng.sample(range(254), k)))
    for tl in lists:
        a = rng.randrange(64)
        for dest, ukw in (("S%d" % a, dict(s=a)), ("I%d" % a, dict(s=a)), ("B", dict(s=a)),
                          ("G3", dict(s=a, g=8)), ("U", dict(s=None))):
            if dest != "S%d" % a and rng.random() < 0.6 and len(lists) > 20:
                continue
            bus = [L.unit(t=tl, **ukw)]
            # bystanders at other addresses
            for _ in range(rng.randrange(0, 3)):
                b = rng.randrange(64)
                if b != a:
                    bus.append(L.unit(s=b, t=sorted(rng.sample(range(254), rng.randrange(0, 4)))))
            if dest in ("B",):
                bus = bus[:1]
            sc = {"kind": "qdt", "class": "conforming", "dest": dest, "bus": bus}
            res = run(sess, ctx, corr, suite, sc)
            # the property's statement, checked here too: exactly the unit's list
            if res["result"] != "ret " + L.lst(tl):
                corr.violate("qdt:conforming", sc, "ret " + L.lst(tl), res["result"],
                             "QueryDeviceTypes must return exactly the unit's device types")
            corr.nontrivial(("qdt", dest[0], len(tl), res["result"].split()[0]))
            corr.bump("qdt:len%d" % len(tl))
    corr.sample({"suite": suite, "types": [0, 6], "expected": "ret l:0,6"})

    # ---- QueryDeviceTypes : misbehaving units (every ordering) ---------------
    suite = "qdt_orderings"
    base = [[0, 6], [6, 8], [0, 1, 6], [1, 6, 8, 253]] + ([[0, 1, 6, 8, 253]] if ctx.thorough else [])
    seen = set()
    for b in base:
        for p in itertools.permutations(b):
            seen.add(tuple(p))
        for x in b:
            seen.add(tuple(b + [x]))
            seen.add(tuple([x] + b))
            seen.add((x, x))
    seen.update({(254, 6), (6, 254, 8), (255, 6), (6, 255), (255, 255)})
    for tl in sorted(seen):
        sc = {"kind": "qdt", "class": "misordered", "dest": "S1", "bus": [L.unit(s=1, t=list(tl))]}
        res = run(sess, ctx, corr, suite, sc)
        asc = all(x < y for x, y in zip(tl, tl[1:])) and all(x < 254 for x in tl)
        if not asc and res["result"].startswith("ret"):
            got = [int(x) for x in res["result"][6:].split(",") if x]
            if not all(x < y for x, y in zip(got, got[1:])):
                corr.violate("qdt:misordered", sc, "DALISequenceError or a strictly ascending list",
                             res["result"])
        corr.nontrivial(("qdt-order", asc, res["result"].split()[0], res["n"]))
    # nobody / two units / stale cursor
    for bus, cls in (([], "silent"), ([L.unit(s=2, t=[6])], "silent"),
                     ([L.unit(s=1, t=[6]), L.unit(s=1, t=[6])], "collision"),
                     ([L.unit(s=1, t=[1, 6]), L.unit(s=1, t=[])], "collision"),
                     ([L.unit(s=1, t=[1, 6], c=1)], "conforming")):
        sc = {"kind": "qdt", "class": cls, "dest": "S1", "bus": bus}
        res = run(sess, ctx, corr, suite, sc)
        corr.nontrivial(("qdt-fault", cls, res["result"]))

    # ---- QueryDeviceTypes : every adversarial answer stream, length <= 6 -----
    suite = "qdt_streams"
    distinct = sorted(set(ALPHABET), key=ALPHABET.index)
    runs = [0]
    covered = [0]
    mult = {s: ALPHABET.count(s) for s in distinct}

    def weight(prefix):
        w = 1
        for s in prefix:
            w *= mult[s]
        return w

    def rec(prefix):
        sc = {"kind": "qdt", "class": "stream", "dest": "S0", "stream": list(prefix)}
        res = sess.run(sc, rng=rng, cap=400)
        L.judge(corr, suite, "qdt:stream", sc, res,
                "QueryDeviceTypes against an adversarial answer stream must end with DALISequenceError or the "
                "strictly ascending list it was given, within 257 commands")
        runs[0] += 1
        k = res["n"]
        corr.nontrivial(("qdt-stream", res["result"], k))
        if k <= len(prefix) or len(prefix) == 6:
            # decided by the first k answers: covers every extension to length 6
            covered[0] += weight(prefix) * len(ALPHABET) ** (6 - len(prefix))
            return
        for s in distinct:
            rec(prefix + [s])
    rec([])
    corr.exhaustive["qdt_streams(len<=6, alphabet none/error/0/1/6/6/254/255)"] = (covered[0] == len(ALPHABET) ** 6)
    corr.bump("qdt_streams:distinct_runs", runs[0])
    corr.bump("qdt_streams:streams_covered", covered[0])
    # long adversarial streams: ascending chains, endless repeats, late faults
    longs = [["255"] + ["6"] * 50, ["255"] + [str(i) for i in range(0, 254)] + ["254"],
             ["255"] + [str(i) for i in range(0, 254)] + ["255", "254"],
             ["255"] + [str(i) for i in range(0, 254)] + ["255", "255"],
             ["255"] + [str(i) for i in range(0, 254)] + ["255", "n"],
             ["255", "0", "2", "4", "e"], ["255", "5", "4"], ["255", "255", "254"], ["255", "254"]]
    for _ in range(200 if ctx.thorough else 40):
        n = rng.randrange(1, 12)
        longs.append(["255"] + [rng.choice(["n", "e", "254", "255", str(rng.randrange(256))]) if rng.random() < 0.3
                                else str(min(253, i * rng.randrange(1, 30))) for i in range(n)])
    for st in longs:
        sc = {"kind": "qdt", "class": "stream", "dest": "S0", "stream": st}
        res = sess.run(sc, rng=rng, cap=400)
        L.judge(corr, "qdt_long_streams", "qdt:stream", sc, res)
        corr.nontrivial(("qdt-long", res["result"].split()[0], res["n"]))

    # ---- QueryGroups : all 2^16 sets -----------------------------------------
    suite = "groups_all"
    for g in range(65536):
        a = g % 64
        sc = {"kind": "groups", "class": "all", "dest": "S%d" % a, "bus": [L.unit(s=a, g=g)]}
        res = run(sess, ctx, corr, suite, sc)
        want = "ret " + L.lst([i for i in range(16) if g >> i & 1])
        if res["result"] != want:
            corr.violate("groups:value", sc, want, res["result"], "QueryGroups must return exactly the membership")
        if g < 64 or g % 1024 == 0:
            corr.nontrivial(("groups", g))
    corr.exhaustive["groups_all(2^16 group sets)"] = True
    # a second look at a sample of the same sets (after the results of the first pass were edited in place by
    # the harness): the answer is still the unit's membership
    for g in [0, 1, 0x8000, 0xFFFF, 0x0201] + [rng.randrange(65536) for _ in range(400)]:
        a = g % 64
        sc = {"kind": "groups", "class": "again", "dest": "S%d" % a, "bus": [L.unit(s=a, g=g)]}
        res = run(sess, ctx, corr, "groups_again", sc)
        want = "ret " + L.lst([i for i in range(16) if g >> i & 1])
        if res["result"] != want:
            corr.violate("groups:value-after-edit", sc, want, res["result"],
                         "QueryGroups must return the membership whatever callers did to earlier results")
    for bus, dest, cls in (([], "S1", "silent"), ([L.unit(s=1, g=5), L.unit(s=1, g=9)], "S1", "collision"),
                           ([L.unit(s=1, g=5), L.unit(s=2, g=9)], "B", "collision"),
                           ([L.unit(s=1, g=0x8001)], "I1", "all"), ([L.unit(s=1, g=0x8001)], "G0", "all"),
                           ([L.unit(s=None, g=0x0ff0), L.unit(s=1, g=3)], "U", "all"),
                           ([L.unit(s=1, g=0x8001)], "I64", "baddest"), ([L.unit(s=1, g=1)], "I-1", "baddest")):
        sc = {"kind": "groups", "class": cls, "dest": dest, "bus": bus}
        res = run(sess, ctx, corr, "groups_faults", sc)
        corr.nontrivial(("groups-fault", cls, dest, res["result"]))

    # ---- SetGroups --------------------------------------------------------------
    suite = "setgroups"
    bits = [0, 1, 2, 7, 8, 9, 14, 15] if ctx.thorough else [0, 1, 7, 8, 15]
    masks = []
    for sel in range(1 << len(bits)):
        m = 0
        for j, b in enumerate(bits):
            if sel >> j & 1:
                m |= 1 << b
        masks.append(m)

    def members(m):
        l = [i for i in range(16) if m >> i & 1]
        rng.shuffle(l)
        return l

    def one(dest, cur, req, extra=(), cls="pair"):
        ukw = {"S": dict(s=int(dest[1:]) if dest[0] == "S" else 0), "I": dict(s=int(dest[1:]) if dest[0] == "I" else 0),
               "G": dict(s=5), "B": dict(s=5), "U": dict(s=None)}[dest[0]]
        bus = [L.unit(g=cur, **ukw)] + list(extra)
        sc = {"kind": "setgroups", "class": cls, "dest": dest, "req": members(req), "cur": cur, "bus": bus}
        res = run(sess, ctx, corr, suite, sc)
        corr.nontrivial(("setgroups", dest[0], res["result"], res["n"]))
        corr.bump("setgroups:" + dest[0])
        return res

    for cur in masks:
        for req in masks:
            a = (cur ^ req) % 64
            one("S%d" % a, cur, req)
    corr.exhaustive["setgroups(short, %d x %d structured pairs)" % (len(masks), len(masks))] = True
    npairs = 3000 if ctx.thorough else 300
    for i in range(npairs):
        cur, req = rng.randrange(65536), rng.randrange(65536)
        if i % 7 == 0:
            req = cur
        if i % 11 == 0:
            cur = rng.choice([0, 65535])
        if i % 13 == 0:
            req = rng.choice([0, 65535])
        kind = rng.choice(["S", "I", "G", "G", "B", "U"])
        a = rng.randrange(64)
        if kind in "SI":
            one("%s%d" % (kind, a), cur, req)
        elif kind == "G":
            g = rng.randrange(16)
            extra = [L.unit(s=9, g=rng.randrange(65536) | 1 << g), L.unit(s=10, g=rng.randrange(65536) & ~(1 << g))]
            one("G%d" % g, cur | 1 << g, req, extra, cls="group")
        else:
            extra = [L.unit(s=rng.choice([None, 7]), g=rng.randrange(65536)) for _ in range(rng.randrange(0, 3))]
            one(kind, cur, req, extra)
    # every (destination group, requested-without-it) combination on a small grid
    for g in range(16):
        for req in (0, 1 << ((g + 1) % 16), 65535 & ~(1 << g), 1 << g, 65535):
            one("G%d" % g, 1 << g | 1 << ((g + 5) % 16) | 1 << 15, req, cls="group")
    # nobody there / two units there / bad destination
    for bus, dest in (([], "S1"), ([L.unit(s=1, g=5), L.unit(s=1, g=9)], "S1"), ([L.unit(s=2, g=5)], "I1"),
                      ([L.unit(s=2, g=5)], "I64"), ([], "B"), ([], "G3")):
        sc = {"kind": "setgroups", "class": "fault", "dest": dest, "req": [1, 2], "cur": 0, "bus": bus}
        res = run(sess, ctx, corr, "setgroups_faults", sc)
        corr.nontrivial(("setgroups-fault", dest, res["result"], res["n"]))
    corr.sample({"suite": "setgroups", "dest": "S3", "current": [0, 8], "requested": [8, 15],
                 "expected_commands": "QueryGroups x2, AddToGroup(15), RemoveFromGroup(0)"})


def replay(ctx, payload):
    sc = payload.get("failure", {}).get("input")
    if not isinstance(sc, dict) or "kind" not in sc:
        print("replay: no scenario recorded; run the quick check")
        return True
    return L.replay_scenario(sc)
