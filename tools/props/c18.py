"""C18 — bytes exchanged with each gateway follow that gateway's wire format.

The encoders / decoders of the real driver classes are called directly (objects
constructed without opening a port; `os`, the transport, the socket module are
replaced by recorders; `usb`, `hid`, `pymodbus.client.sync` are stubbed) and
compared with
  * the Lean models (m_wire `enc` / `dec` / `seq` / `trirecv`), and
  * the Lean gateway formats (m_wire `spec enc` / `spec dec`, the property's oracle):
    a width the gateway cannot carry must be refused, every other packet must be
    byte-identical to the format; a well-formed received packet must mean what the
    format says; sequence numbers must stay in 1..255 without immediate repetition;
  * UniPi receive side (hidden gateway state): the real `SyncUnipiDALIDriver.send` runs against a Modbus register
    backend that plays the registers the format's gateway shows (m_wire `spec unipolls`: 16-bit receive counter at every
    value near the wrap and at random values, stale registers, reply before poll 0..5, echo first, Compare + framing
    error) and against a session gateway whose counter persists over many exchanges; compared with the model
    (`unirecv`) and with what the exchange denotes (`spec unirecv`): an answered query returns its value whatever
    the counter."""
from common import exc_name  # noqa: E402
import logging
import sys
import types

from common import Model, InfraError

logging.disable(logging.CRITICAL)

ID = "C18"
MODULE = "DaliVerif.Props.C18"
EXES = ["m_wire", "m_rx"]
GEN = True
THEOREMS = []   # filled below
EXTRA_MODULES = ["DaliVerif.Props.EndToEnd"]
EXTRA_THEOREMS = ["EndToEnd.frame_of_legal", "EndToEnd.luba_delivers", "EndToEnd.sci_delivers",
                  "EndToEnd.tridonic_delivers", "EndToEnd.hidhasseb_delivers", "EndToEnd.daliserver_delivers"]
TRUSTED = ["hand-written models Model/Wire.lean of the nine drivers' encoders/decoders (tied by this correspondence: "
           "exhaustive over all 2^16 16-bit frames x send-twice for every driver, every width 1..64, sampled 24-bit "
           "frames, exhaustive over status/type codes on the receive side, > 600 consecutive sequence numbers)",
           "Spec/Gateways.lean: Tridonic, LUBA, SCI control byte and daliserver formats are my independent reading of the "
           "vendor descriptions; hid.hasseb, ATX, legacy hasseb, UniPi, the LUBA priority rule and the position of the data "
           "bytes in the SCI transmit frame are *pinned* to the tree (regression baseline, not independent evidence)"]
ASSUMPTIONS = ["frames satisfy the Frame invariant (0 <= data < 2^bits, C05)", "received bytes are 0..255"]
PARTIAL = ("the receive loop of hid.tridonic _send_raw is proved for report sequences with exactly the prescribed number of transmission confirmations and exactly one answering report, in any order, interleaved with meaningless reports (tridonic_receive_wellformed; tridonic_receive_waits while one is missing) — sequences with surplus confirmations or several answers (where the loop waits forever / keeps the last answer seen before completion) are only covered by the model tie; twice_iff for the ATX hat holds for 16-bit commands only because the hat has no send-twice letter for other widths (stated as: prefix 't' iff sendtwice and 16 bits); pinned formats (see trusted base); the SCI transmit frame puts a 16-bit frame into the HI/MI data bytes while the "
           "driver's own receiver reads 16-bit frames from MI/LO — recorded as a candidate finding, not adjudicated without the "
           "vendor document (sci_frame_recoverable states the transmit alignment the code uses); the UniPi receive theorems are about the gateway model of Spec/Gateways (one frame = counter + 1 mod 2^16, pinned) with a single backward frame arriving before one of the six polls; several frames per exchange (echo first), Compare with the framing-error counter and frames arriving between transmission and the sampling of the counter (lost by design of the driver) are covered by the tie only / not at all; the UniPi driver's _get_sn is dead code (always 1) and carries no theorem; ATX int(.., 16) "
           "leniencies (sign, blanks, underscores) are outside the modelled well-formed answers (atx_decode_wellformed covers <letter><hex><hex> with/without newline, either case)")
LEVEL_TEXT = ("Lean 4 theorems, for every frame of a carried width and every flag combination (universally quantified, no enumeration): each driver model's packet equals "
              "the gateway format (…_encode_conforms), has the fixed length (…_length_fixed, atx_length_exact: two hex digits per frame byte), a valid checksum "
              "(luba/sci_checksum_valid for the encoders, luba/sci_format_checksum_valid for the formats, via xor-fold lemmas), the send-twice "
              "flag/bit/prefix/repetition exactly when the command requires it (…_twice_iff for all nine drivers), the frame recoverable big-endian from the prescribed field together with the width/mode code "
              "(…_frame_recoverable for all nine, frame_bytes_recoverable for every width), and every other width is refused "
              "(…_refuses); every well-formed received packet decodes to what the format denotes (…_decode_wellformed for hid.tridonic — including the receive loop over the reports of one command, tridonic_receive_wellformed/_waits —, hid.hasseb, daliserver, ATX, legacy Tridonic, legacy hasseb, UniPi); the UniPi polling loop takes a reply iff the receive counter differs from the sample, for all counters in either order (unipi_reply_detected_iff/_across_wrap), at any of its six polls (unipi_poll_reply_any_position), so an answered query returns its value for every value 0..65535 of the gateway's hidden receive counter (unipi_answered_query_returns_value; unipi_unanswered_query, unipi_no_reply_expected); the "
              "three sequence-number generators stay in 1..255 and never repeat immediately, by induction on the number of "
              "sends (…_seq_range, …_seq_no_immediate_repeat).")
LEVEL_NOTE = ("Trusted: Lean kernel; the hand-written models correspond to the drivers as far as the correspondence suite "
              "exercises them (exhaustive on the 16-bit space, widths 1..64 and receive codes; sampled 24-bit); several "
              "formats are pinned to the tree rather than independently known.")
TECHNIQUE = ("Lean 4 proofs (arithmetic on div/mod, decide on constants, induction for sequence numbers) + exhaustive/sampled "
             "model-vs-code and code-vs-format differential execution")

DRIVERS = ["tridonic", "hidhasseb", "luba", "sci", "daliserver", "atx", "ltridonic", "lhasseb", "unipi"]
THEOREMS = (
    ["gen_consts"]
    + ["%s_encode_conforms" % d for d in DRIVERS]
    + ["%s_refuses" % d for d in DRIVERS]
    + ["tridonic_twice_iff", "hidhasseb_twice_iff", "daliserver_twice_iff",
       "luba_twice_iff", "luba_format_twice_iff", "sci_twice_iff", "sci_format_twice_iff", "atx_twice_iff",
       "ltridonic_twice_iff", "lhasseb_twice_iff", "unipi_twice_iff",
       "tridonic_length_fixed", "luba_length_fixed", "sci_length_fixed",
       "hidhasseb_length_fixed", "daliserver_length_fixed", "ltridonic_length_fixed", "lhasseb_length_fixed",
       "atx_length_exact",
       "luba_checksum_valid", "sci_checksum_valid", "luba_format_checksum_valid", "sci_format_checksum_valid",
       "hidhasseb_decode_wellformed", "daliserver_decode_wellformed", "unipi_decode_wellformed",
       "unipi_reply_detected_iff", "unipi_reply_detected_across_wrap", "unipi_poll_reply_any_position",
       "unipi_answered_query_returns_value", "unipi_unanswered_query", "unipi_no_reply_expected",
       "tridonic_decode_wellformed", "ltridonic_decode_wellformed", "lhasseb_decode_wellformed",
       "atx_decode_wellformed", "atx_hexByte_digits", "tridonic_receive_wellformed", "tridonic_receive_waits",
       "frame_bytes_recoverable"]
    + ["%s_frame_recoverable" % d for d in DRIVERS]
    + ["luba_format_frame_recoverable", "sci_format_frame_recoverable",
       "tridonic_seq_range", "tridonic_seq_no_immediate_repeat", "ltridonic_seq_range",
       "ltridonic_seq_no_immediate_repeat", "lhasseb_seq_range", "lhasseb_seq_no_immediate_repeat"])


class Captured(Exception):
    pass


def inject_stubs():
    import importlib
    sys.path.insert(0, __import__("os").path.join(__import__("os").path.dirname(__import__("os").path.abspath(__file__)), ".."))
    from gen import driverconsts
    driverconsts.inject_stubs()


# ---------------------------------------------------------------------------
# the real drivers, driven without ports or an event loop
# ---------------------------------------------------------------------------

class Env:
    def __init__(self):
        inject_stubs()
        import dali.command as command
        import dali.frame as frame
        import dali.gear.general as gg
        import dali.driver.hid as hidmod
        import dali.driver.serial as ser
        import dali.driver.daliserver as dsmod
        import dali.driver.atxled as atx
        import dali.driver.tridonic as ltri
        import dali.driver.hasseb as lhas
        import dali.driver.unipi as uni
        self.command, self.frame, self.gg = command, frame, gg
        self.hidmod, self.ser, self.dsmod, self.atx, self.ltri, self.lhas, self.uni = \
            hidmod, ser, dsmod, atx, ltri, lhas, uni
        # --- hid: replace the module's `os`
        self.writes = []
        self.on_write = None
        env = self

        class FakeOS:
            O_RDWR = 2
            O_NONBLOCK = 2048

            @staticmethod
            def write(fd, data):
                env.writes.append(bytes(data))
                if env.on_write:
                    env.on_write(data)
                return len(data)
        hidmod.os = FakeOS
        self.tri = hidmod.tridonic("/dev/verif-none")
        self.tri.connected.set()
        self.tri._f = 99
        self.has = hidmod.hasseb("/dev/verif-none")
        self.has.connected.set()
        self.has._f = 98
        # --- serial protocols with a recording transport
        class FakeTransport:
            def write(self, data):
                env.writes.append(bytes(data))
                raise Captured()
        self.luba = ser.DriverLubaRs232.LubaProtocol()
        self.luba.transport = FakeTransport()
        self.sci = ser.DriverSCIRS232.SCIRS232Protocol()
        self.sci.transport = FakeTransport()
        # --- daliserver with a fake socket module
        class FakeSock:
            def __init__(self):
                self.reply = bytes([2, 0, 0, 0])

            def send(self, data):
                env.writes.append(bytes(data))

            def recv(self, n):
                return self.reply

            def close(self):
                pass
        self.sock = FakeSock()
        fake_socket = types.SimpleNamespace(create_connection=lambda target: self.sock)
        dsmod.socket = fake_socket
        self.ds = dsmod.DaliServer()
        self.atxd = object.__new__(atx.DaliHatSerialDriver)
        self.atxd.LOG = logging.getLogger("verif-atx")
        self.ltrid = object.__new__(ltri.TridonicDALIUSBDriver)
        self.lhasd = object.__new__(lhas.HassebDALIUSBDriver)
        self.unid = object.__new__(uni.UnipiDALIDriver)
        uni.sleep = lambda secs: None      # the polling loop sleeps 11 ms per iteration
        self._unisync = {}

    # ---- commands
    def stub(self, bits, data, twice, query=False, kind="plain"):
        cls = {"plain": self.command.Command, "std": self.gg.Off, "dapc": self.gg.DAPC}[kind]
        c = object.__new__(cls)
        c._data = self.frame.ForwardFrame(bits, data)
        c.sendtwice = twice
        c.response = self.command.Response if query else None
        if kind != "plain":     # what __str__ reads (the drivers log the command)
            c.destination, c.power = "verif", 1
        return c

    def flags(self, c):
        return (1 if c.sendtwice else 0, 1 if c.response is not None else 0,
                1 if isinstance(c, self.gg._StandardCommand) else 0, 1 if isinstance(c, self.gg.DAPC) else 0)

    @staticmethod
    def drive(coro):
        try:
            coro.send(None)
        except StopIteration as e:
            return ("ok", e.value)
        except Captured:
            return ("captured", None)
        except Exception as e:  # noqa
            return ("err", exc_name(e))
        coro.close()
        return ("pending", None)

    # ---- encoders: canonical "ok <hex>[,<hex>]" / "err <Class>"
    def enc(self, drv, c, seq):
        self.writes = []
        self.on_write = None
        try:
            if drv == "tridonic":
                t = self.tri
                t._cmd_seq = iter(t._seqnum(seq))
                t._outstanding = {}

                def stop(data):
                    raise Captured()
                self.on_write = stop
                st, v = self.drive(t._send_raw(c))
                t._outstanding = {}
                if st == "err":
                    return "err " + v
                return "ok " + ",".join(w.hex() for w in self.writes)
            if drv == "hidhasseb":
                st, v = self.drive(self.has._send_raw(c))
                if st == "err" and not self.writes:
                    return "err " + v
                return "ok " + ",".join(w.hex() for w in self.writes)
            if drv in ("luba", "sci"):
                p = self.luba if drv == "luba" else self.sci
                st, v = self.drive(p.send_dali_command(c))
                if st == "err":
                    return "err " + v
                return "ok " + ",".join(w.hex() for w in self.writes)
            if drv == "daliserver":
                self.ds.send(c)
                return "ok " + ",".join(w.hex() for w in self.writes)
            if drv == "atx":
                return "ok " + self.atxd.construct(c).hex()
            if drv == "ltridonic":
                self.ltrid._next_sn = seq
                return "ok " + bytes(self.ltrid.construct(c)).hex()
            if drv == "lhasseb":
                self.lhasd.sn = seq
                d = self.lhasd.construct(c)
                return "ok %s/%d" % (bytes(d).hex(), self.lhasd.sn)
            if drv == "unipi":
                r = self.unid.construct(c)
                return "ok %d/%d" % (r[0], r[1])
        except Exception as e:  # noqa
            return "err " + exc_name(e)
        raise InfraError(drv)

    # ---- meanings
    def meaning(self, v):
        fr = self.frame
        if v is None:
            return "none"
        if isinstance(v, self.command.Response):
            v = v.raw_value
            if v is None:
                return "no"
        if isinstance(v, fr.BackwardFrameError):
            return "backerr:%d" % v.as_integer
        if isinstance(v, fr.BackwardFrame):
            return "back:%d" % v.as_integer
        if isinstance(v, fr.ForwardFrame):
            return "fwd:%d:%d" % (len(v), v.as_integer)
        n = type(v).__name__
        table = {"TridonicDALIUSBNoResponse": "no", "DALINoResponse": "no", "HassebDALIUSBNoAnswer": "no",
                 "HassebDALIUSBNoDataAvailable": "other:NoDataAvailable",
                 "HassebDALIUSBAnswerTooEarly": "other:AnswerTooEarly",
                 "HassebDALIUSBSnifferByte": "other:SnifferByte",
                 "HassebDALIUSBSnifferByteError": "other:SnifferByteError"}
        return table.get(n, "?" + n)

    def dec(self, drv, args):
        try:
            if drv == "hidhasseb":
                status, byte = args
                h = self.has
                c = self.stub(16, 0xA000, False, query=True)
                env = self

                class FakeEvent:
                    def __init__(self):
                        self.flag = False

                    def set(self):
                        self.flag = True

                    def clear(self):
                        self.flag = False

                    async def wait(self):
                        h._handle_read(bytes([status, byte]))
                        if not self.flag:
                            raise Captured()
                        return True
                h._response_available = FakeEvent()
                h._response = None
                self.writes = []
                self.on_write = None
                st, v = self.drive(h._send_raw(c))
                if st == "captured":
                    return "pending"
                if st == "err":
                    return "raise:" + v
                return self.meaning(v)
            if drv == "daliserver":
                q, status, rval = args
                c = self.stub(16, 0xA000, False, query=bool(q))
                return self.meaning(self.ds.unpack_response(c, bytes([2, status, rval, 0])))
            if drv == "atx":
                return self.meaning(self.atxd.extract(bytes(args).decode("latin-1")))
            if drv == "ltridonic":
                return self.meaning(self.ltrid.extract(bytes(args)))
            if drv == "lhasseb":
                return self.meaning(self.lhasd.extract(list(args)))
            if drv == "unipi":
                return self.meaning(self.unid.extract(tuple(args)))
        except Exception as e:  # noqa
            return "raise:" + exc_name(e)
        raise InfraError(drv)

    # ---- UniPi: the real SyncUnipiDALIDriver.send against a register backend
    def unicmd(self, name):
        if name == "stubq":
            return self.stub(16, 0xA000, False, query=True)
        if name == "stubq2":
            return self.stub(16, 0xA100, True, query=True)
        if name == "stubnq":
            return self.stub(16, 0xFE80, False)
        if name == "qal":
            return self.gg.QueryActualLevel(0)
        if name == "qstatus":
            return self.gg.QueryStatus(self.gg.address.Short(63))
        if name == "compare":
            return self.gg.Compare()
        raise InfraError("unipi command " + name)

    def unidrv(self, bus):
        if bus not in self._unisync:
            self._unisync[bus] = self.uni.SyncUnipiDALIDriver(bus=bus)
        return self._unisync[bus]

    def uniflags(self, c):
        """(expects a reply, what `_reply_compare_frame` tests, is a Compare command)"""
        return (1 if c.response is not None else 0,
                1 if (isinstance(c, self.gg._SpecialCommand) and len(c.frame) == 16 and
                      (c.frame.as_integer >> 8) == (self.gg.Compare().frame.as_integer >> 8)) else 0,
                1 if isinstance(c, self.gg.Compare) else 0)

    def unisend(self, drv, backend, c):
        """-> canonical result of the real `send`"""
        drv.backend = backend
        try:
            r = drv.send(c)
        except Exception as e:  # noqa
            return "raise:" + exc_name(e)
        if r is self.uni.DALI_NO_RESPONSE:
            return "noresponse"
        if isinstance(r, self.command.Response):
            raw = r.raw_value
            if raw is None:
                return "resp:none"
            if isinstance(raw, self.frame.BackwardFrame) and not isinstance(raw, self.frame.BackwardFrameError):
                return "resp:%d" % raw.as_integer
            return "resp:?%s" % type(raw).__name__
        return "?" + type(r).__name__

    def trirecv(self, twice, query, msgs):
        """run hid.tridonic._send_raw with the given response reports queued for its sequence number"""
        t = self.tri
        t._cmd_seq = iter(t._seqnum(7))
        t._outstanding = {}
        c = self.stub(16, 0xA000, twice, query=query)

        def deliver(data):
            try:
                ev, q = t._outstanding[7]
                q.extend(bytes(m) for m in msgs)
                q.append("fail")      # sentinel: running out of reports = still waiting
            except (TypeError, ValueError, AttributeError):
                # the library keeps its in-flight commands in some other form: hand the reports to its own read
                # handler and let its own shutdown path queue the sentinel
                for m in msgs:
                    t._handle_read(bytes(m))
                t._shutdown_device()
        self.writes = []
        self.on_write = deliver
        st, v = self.drive(t._send_raw(c))
        t._outstanding = {}
        if st == "err":
            return "pending" if v == "CommunicationError" else "raise:" + v
        return self.meaning(v)


class ScriptedUnipi:
    """Modbus register backend that plays a fixed script: the sampled counters, then the registers of each poll."""

    def __init__(self, drv, c1, fe1, polls):
        self.recvreg, self.fereg, self.sendreg = drv._recvreg, drv._fereg, drv._sendreg
        self.c1, self.fe1, self.polls = c1, fe1, polls
        self.i = -1
        self.fe_sampled = False
        self.writes, self.stray = [], []

    def write_regs(self, reg, values, unit=None):
        self.writes.append((reg, tuple(values)))

    def _poll(self):
        return self.polls[min(max(self.i, 0), len(self.polls) - 1)]

    def read_regs(self, reg, cnt, unit=None):
        if reg == self.recvreg and cnt == 1:
            return [self.c1]
        if reg == self.fereg and cnt == 1:
            if not self.fe_sampled:
                self.fe_sampled = True
                return [self.fe1]
            return [self._poll()[3]]
        if reg == self.recvreg and cnt == 3:
            self.i += 1
            return list(self._poll()[:3])
        self.stray.append((reg, cnt))
        return [0] * cnt


class SessionUnipi:
    """A gateway whose receive counter persists over a session of exchanges (the hidden state): frames scheduled
    for the current exchange arrive just before the poll with the given index."""

    def __init__(self, drv, counter):
        self.recvreg, self.fereg = drv._recvreg, drv._fereg
        self.counter, self.typ, self.data, self.fe = counter, 0, 0, 0
        self.begin({})

    def begin(self, events):
        self.events, self.poll, self.log, self.c1, self.writes = dict(events), -1, [], None, []

    def write_regs(self, reg, values, unit=None):
        self.writes.append((reg, tuple(values)))

    def read_regs(self, reg, cnt, unit=None):
        if reg == self.fereg:
            return [self.fe]
        if cnt == 1:
            self.c1 = self.counter
            return [self.counter]
        self.poll += 1
        if self.poll in self.events:
            self.typ, self.data = self.events[self.poll]
            self.counter = (self.counter + 1) & 0xFFFF
        self.log.append((self.counter, self.typ, self.data, self.fe))
        return [self.counter, self.typ, self.data]


def fmt_polls(polls):
    return ",".join("%d:%d:%d:%d" % tuple(p) for p in polls) or "-"


def fmt_events(events):
    return ",".join("%d:%d:%d" % tuple(e) for e in events) or "-"


def uni_scenarios(rng, thorough):
    """(command name, bus, counter, stale type, stale data, fe, events, feAt)"""
    counters = list(range(0xFFF0, 0x10000)) + [0, 1, 2, 0x7FFF, 0x8000, 0xFF, 0x100] + \
        [rng.randrange(65536) for _ in range(150 if thorough else 30)]
    queries = ["stubq", "qal", "compare", "stubq2", "qstatus"]
    out = []
    for n, c in enumerate(counters):
        def q():
            return rng.choice(queries)
        def stale():
            return rng.choice([(0, 0), (0x100, rng.randrange(256)), (0x200, rng.randrange(65536)), (0x300, 5)])
        bus = rng.choice([0, 0, 1, 2, 3])
        fe = rng.choice([0, 65535, rng.randrange(65536)])
        for k in range(6):                                     # answered, the reply arrives before poll k
            out.append((queries[(n + k) % len(queries)], bus, c, *stale(), fe, [(k, 0x100, rng.randrange(256))], None))
        out.append((q(), bus, c, *stale(), fe, [], None))      # unanswered, stale registers
        out.append((q(), bus, c, 0x100, rng.randrange(256), fe, [], None))
        j = rng.randrange(0, 5)
        k = rng.randrange(j + 1, 6)
        out.append((q(), bus, c, *stale(), fe, [(j, 0x200, rng.randrange(65536)), (k, 0x100, rng.randrange(256))], None))
        out.append((q(), bus, c, *stale(), fe, [(j, 0x200, rng.randrange(65536)), (k, 0x200, rng.randrange(65536))], None))
        out.append((q(), bus, c, *stale(), fe, [(j, 0x300, rng.randrange(65536))], None))
        out.append(("compare", bus, c, *stale(), fe, [], j))   # Compare: framing error counted / and answered
        out.append(("compare", bus, c, *stale(), fe, [(k, 0x100, 0xFF)], j))
        out.append(("compare", bus, c, *stale(), fe, [(j, 0x100, 0xFF)], k))
        out.append((q(), bus, c, *stale(), fe, [(k, 0x100, rng.randrange(256))], j))
        out.append(("stubnq", bus, c, *stale(), fe, [(0, 0x100, 7)], None))   # no reply expected
    return out


def uni_run(env, name, bus, line):
    """replay one `unirecv` line on the real driver"""
    parts = line.split()
    c1, fe1 = int(parts[3]), int(parts[4])
    polls = [] if parts[5] == "-" else [tuple(int(x) for x in p.split(":")) for p in parts[5].split(",")]
    drv = env.unidrv(bus)
    back = ScriptedUnipi(drv, c1, fe1, polls or [(c1, 0, 0, fe1)])
    c = env.unicmd(name)
    return env.unisend(drv, back, c), back, c, drv


def uni_check(corr, env, name, bus, line, specline, model, spec):
    impl, back, c, drv = uni_run(env, name, bus, line)
    inp = "%s ; %s ; cmd=%s bus=%d" % (line, specline, name, bus)
    if model != impl:
        corr.disagree("unipi_receive", inp, model, impl)
    if spec != impl:
        corr.violate("meaning:unipi-recv", inp, spec, impl,
                     "the UniPi receive registers denote %s for this exchange (whatever the receive counter), "
                     "send returned %s" % (spec, impl))
    want = [(drv._sendreg, tuple(env.unid.construct(c)))] * (2 if c.sendtwice else 1)
    if back.writes != want or back.stray:
        corr.disagree("unipi_send", inp, "writes %r, no other register read" % (want,),
                      "writes %r, stray reads %r" % (back.writes, back.stray))
    corr.nontrivial(("unipi", "recv", impl.split(":")[0], name))
    corr.bump("unipi-recv:" + ("answered" if impl.startswith("resp:") and impl != "resp:none" else impl))


def correspond_unipi(ctx, corr, env):
    """UniPi receive side: the real SyncUnipiDALIDriver.send against (a) the registers the format's gateway shows
    (Lean `unipiPolls`, receive counter at every value near the wrap and at random values) and (b) a session
    gateway whose counter persists across exchanges and crosses the wrap; oracle `unipiExchange`."""
    rng = ctx.rng
    sc = uni_scenarios(rng, ctx.thorough)
    ans = model_batch(["spec unipolls %d %d %d %d %s %s" % (c, t, d, fe, fmt_events(ev), "-" if fa is None else fa)
                       for (_, _, c, t, d, fe, ev, fa) in sc])
    lines, meta = [], []
    for (name, bus, c, t, d, fe, ev, fa), a in zip(sc, ans):
        if not a.startswith("ok "):
            raise InfraError("m_wire answered %r" % a)
        q, cmp_code, cmp_spec = env.uniflags(env.unicmd(name))
        line = "unirecv %d %d %d %d %s" % (q, cmp_code, c, fe, a[3:])
        specline = "spec unirecv %d %d %s %s" % (q, cmp_spec, fmt_events(ev), "-" if fa is None else fa)
        lines += [line, specline]
        meta.append((name, bus, line, specline))
    ans = model_batch(lines)
    for i, (name, bus, line, specline) in enumerate(meta):
        uni_check(corr, env, name, bus, line, specline, ans[2 * i], ans[2 * i + 1])
    corr.count("unipi_receive", len(meta))
    corr.exhaustive["UniPi receive counter 0xFFF0..0xFFFF,0,1,2 x reply before poll 0..5"] = True
    # (b) sessions: the counter is the gateway's, it persists and wraps
    lines, meta, impls = [], [], []
    for start in (0xFFE0, 0xFFFF, rng.randrange(65536)):
        bus = rng.choice([0, 1, 3])
        drv = env.unidrv(bus)
        gw = SessionUnipi(drv, start)
        for n in range(48):
            name = rng.choice(["stubq", "qal", "qstatus", "stubq2"])
            c = env.unicmd(name)
            ev = []
            if rng.random() < 0.3:
                ev.append((rng.randrange(0, 3), 0x200, rng.randrange(65536)))
            if n % 5 != 4:
                ev.append((rng.randrange(ev[0][0] + 1 if ev else 0, 6), 0x100, rng.randrange(256)))
            gw.begin({k: (t, d) for k, t, d in ev})
            impl = env.unisend(drv, gw, c)
            polls = list(gw.log) + [gw.log[-1]] * (6 - len(gw.log))
            q, cmp_code, cmp_spec = env.uniflags(c)
            line = "unirecv %d %d %d %d %s" % (q, cmp_code, gw.c1, gw.fe, fmt_polls(polls))
            specline = "spec unirecv %d %d %s -" % (q, cmp_spec, fmt_events(ev))
            lines += [line, specline]
            meta.append((name, bus, line, specline))
            impls.append(impl)
    ans = model_batch(lines)
    for i, ((name, bus, line, specline), impl) in enumerate(zip(meta, impls)):
        inp = "%s ; %s ; cmd=%s bus=%d" % (line, specline, name, bus)
        if ans[2 * i] != impl:
            corr.disagree("unipi_session", inp, ans[2 * i], impl)
        if ans[2 * i + 1] != impl:
            corr.violate("meaning:unipi-recv", inp, ans[2 * i + 1], impl,
                         "session: the gateway delivered %s, send returned %s" % (ans[2 * i + 1], impl))
    corr.count("unipi_session", len(meta))


REFUSE_WIDTHS = {"hasseb": (8, 15, 17, 24, 25, 32), "tridonic": (8, 12, 17, 25, 32, 64)}
REFUSE_MODES = {"default": ({}, None), "exceptions=True": ({"exceptions": True}, None),
                "exceptions=False": ({"exceptions": False}, None), "exceptions_on_send=False": ({}, False),
                "in_transaction": ({"in_transaction": True}, None), "run_sequence": (None, None),
                "run_sequence,exceptions_on_send=False": (None, False)}


def refuse_one(env, drv, bits, mname):
    """one refusal scenario on the real asyncio HID driver -> (outcome text, packets written, lock held, spun)"""
    import asyncsim_watch as sim
    import common
    kw, eos = REFUSE_MODES[mname]
    hidmod = env.hidmod
    saved_os = hidmod.os
    c = env.stub(bits, (1 << bits) - 2, False)
    state = {}

    async def scenario(loop):
        hs = await (sim.HassebSim() if drv == "hasseb" else sim.TriSim()).start()
        d = hs.d
        state["fos"], state["d"] = hs.fos, d
        hs.fos.written.clear()
        if eos is not None:
            d.exceptions_on_send = eos
        if kw is None:
            def seq():
                yield c
            return await d.run_sequence(seq())
        if kw.get("in_transaction"):
            async with d.transaction_lock:
                return await d.send(c, **kw)
        return await d.send(c, **kw)
    spun = False
    try:
        r = sim.run(scenario, spin_limit_s=6)
        out = "returned %r" % (r,)
    except common.Spin:
        spun = True
        out = "never returns: spins without yielding to the event loop"
    except BaseException as e:  # noqa
        names = [k.__name__ for k in type(e).__mro__]
        out = "err " + ("UnsupportedFrameTypeError" if "UnsupportedFrameTypeError" in names else exc_name(e))
    finally:
        hidmod.os = saved_os
    written = [w.hex()[:24] for w in state["fos"].written[:2]] if "fos" in state else []
    locked = state["d"].transaction_lock.locked() if "d" in state and not spun else False
    return out, written, locked, spun


def refusal_through_send(ctx, corr, env):
    """'each driver ... refuses command frames of a length the gateway cannot carry' through the PUBLIC entry points
    of the asyncio HID drivers, in every send mode (default, exceptions on, exceptions off, the per-driver default
    switched off, inside a caller's transaction) and through run_sequence: UnsupportedFrameTypeError at once,
    nothing written to the device, the transaction lock free afterwards.  A virtual-time loop with a wall-clock
    watchdog: a refusal that turns into a busy retry loop is reported as 'never returns'.  (Strengthening after
    seeded round 6: the encoders themselves - `_send_raw` - are compared with the model in suite 2; this suite
    covers the retry / lock layer around them.)"""
    n = 0
    spun = set()
    for drv in ("hasseb", "tridonic"):
        for bits in REFUSE_WIDTHS[drv]:
            for mname in REFUSE_MODES:
                if (drv, mname) in spun:
                    continue        # one witness per driver and mode; each spin costs the watchdog's limit
                inp = {"driver": drv, "frame bits": bits, "mode": mname}
                out, written, locked, sp = refuse_one(env, drv, bits, mname)
                if sp:
                    spun.add((drv, mname))
                if out != "err UnsupportedFrameTypeError":
                    corr.violate("refuse:%s:send" % drv, inp, "err UnsupportedFrameTypeError", out,
                                 "a frame length the gateway cannot carry must be refused in every send mode")
                elif written:
                    corr.violate("refuse:%s:send" % drv, inp, "nothing written", written)
                elif locked and mname != "in_transaction":
                    corr.violate("refuse:%s:send" % drv, inp, "transaction lock free after the refusal", "locked")
                n += 1
        corr.nontrivial((drv, "refuse-through-send"))
    corr.count("refusal_through_send", n)


def model_batch(lines):
    return Model("m_wire").batch(lines)


def tri_report(rtype, f0, f1, f2, f3, seq=7, mode=0x12):
    return [mode, rtype, f0, f1, f2, f3, 0, 0, seq] + [0] * 55


def reuse_step(c, op):
    """one step of the history of a re-used command object (suite 2, replay)"""
    if op[0] == "views":
        str(c.frame), c.frame.pack, c.frame.as_byte_sequence, c.frame.as_integer
    elif op[0] == "pack_len":
        try:
            c.frame.pack_len(4)
        except Exception:   # noqa
            pass
    elif op[0] == "setslice":
        c.frame[op[1]:op[2]] = op[3]
    elif op[0] == "setbit":
        c.frame[op[1]] = bool(op[2])


def spec_vs_impl(corr, drv, desc, spec, impl):
    """oracle: the real packet against the gateway format"""
    if spec == "refuse":
        if not impl.startswith("err"):
            corr.violate("refuse:%s" % drv, desc, "refused (the gateway cannot carry this width)", impl,
                         "a frame of a width the gateway cannot carry was encoded")
    elif spec != impl:
        corr.violate("format:%s" % drv, desc, spec, impl, "packet differs from the gateway's wire format")


def correspond(ctx, corr):
    env = Env()
    rng = ctx.rng
    corr.rule.append(
        "real encoders/decoders of the 9 drivers vs Lean model and vs Lean gateway format: EXHAUSTIVE all 2^16 16-bit "
        "frames x send-twice per driver (stub commands), every width 1..64 x twice, all status/type codes x bytes on the "
        "receive side, all 255 Tridonic sequence starts x 600 sends; all 2^16 decoded real commands through LUBA "
        "(priority rule) and Tridonic; UniPi receive: the real SyncUnipiDALIDriver.send against the gateway's registers "
        "with the receive counter at 0xFFF0..0xFFFF,0,1,2 and random values x reply before poll 0..5 / unanswered / "
        "echo first / Compare with framing error, plus sessions whose counter persists across the wrap; "
        "SAMPLED 24-bit frames, sequence positions; non-trivial = distinct (driver, packet "
        "shape / meaning / exception class)")

    # ---- 1. exhaustive 16-bit space x twice, stub commands, in blocks
    BLOCK = 4096
    stride_drivers = DRIVERS
    for drv in stride_drivers:
        for twice in (0, 1):
            seq = rng.randrange(1, 255)
            lines = []
            for lo in range(0, 65536, BLOCK):
                lines.append("encrange %s %d 0 0 0 %d %d %d" % (drv, twice, seq, lo, lo + BLOCK))
                lines.append("spec encrange %s %d 0 0 0 %d %d %d" % (drv, twice, seq, lo, lo + BLOCK))
            ans = model_batch(lines)
            k = 0
            for lo in range(0, 65536, BLOCK):
                impl = [env.enc(drv, env.stub(16, d, bool(twice)), seq) for d in range(lo, lo + BLOCK)]
                joined = ";".join(impl)
                if ans[k] != joined:
                    m = ans[k].split(";")
                    for i, (a, b) in enumerate(zip(m, impl)):
                        if a != b:
                            corr.disagree("enc16", "enc %s 16 %d %d 0 0 0 %d" % (drv, lo + i, twice, seq), a, b)
                            break
                if ans[k + 1] != joined:
                    s = ans[k + 1].split(";")
                    for i, (a, b) in enumerate(zip(s, impl)):
                        if a != b:
                            spec_vs_impl(corr, drv, "enc %s 16 %d %d 0 0 0 %d" % (drv, lo + i, twice, seq), a, b)
                            break
                k += 2
                corr.count("enc16", BLOCK)
            corr.nontrivial((drv, "enc16", twice))
    corr.exhaustive["all 2^16 16-bit frames x twice x 9 drivers"] = True
    corr.sample({"suite": "enc16", "request": "enc luba 16 65024 1 0 0 0 5",
                 "impl": env.enc("luba", env.stub(16, 0xFE00, True), 5)})

    # ---- 2. every width 1..64 x twice (+ flags), sampled data; 24-bit sampled
    lines, impls, descs = [], [], []
    def add(drv, c, seq, hist=None):
        t, q, s, d = env.flags(c)
        f = c.frame
        line = "enc %s %d %d %d %d %d %d %d" % (drv, len(f), f.as_integer, t, q, s, d, seq)
        lines.append(line)
        lines.append("spec " + line)
        impls.append(env.enc(drv, c, seq))
        descs.append((drv, line if hist is None else
                      {"line": line, "driver": drv, "history of this command object": hist + [["enc", seq]]}))
    for drv in DRIVERS:
        for w in range(1, 65):
            for twice in (False, True):
                for data in {0, (1 << w) - 1, rng.randrange(1 << w)}:
                    add(drv, env.stub(w, data, twice, query=rng.random() < 0.3,
                                      kind=rng.choice(["plain", "std", "dapc"])), rng.randrange(1, 256))
        for _ in range(4000 if ctx.thorough else 500):
            add(drv, env.stub(24, rng.randrange(1 << 24), rng.random() < 0.5, query=rng.random() < 0.3,
                              kind=rng.choice(["plain", "std", "dapc"])), rng.randrange(1, 256))
        for seq in (0, 1, 254, 255):
            add(drv, env.stub(16, 0xFF08, False), seq)
    # ONE command object sent, edited, sent again (a frame is mutable and `Command.frame` hands out the object
    # itself: an application that re-uses a command with another level / scene number, or merely logged it before):
    # every transmission carries the bits the frame holds NOW  (strengthening after seeded round 6)
    for drv in DRIVERS:
        for _ in range(60 if ctx.thorough else 12):
            w = rng.choice([16, 16, 24])
            spec_ = [w, rng.randrange(1 << w), rng.random() < 0.3, rng.random() < 0.3, rng.choice(["plain", "std"])]
            c = env.stub(spec_[0], spec_[1], spec_[2], query=spec_[3], kind=spec_[4])
            hist = [["new"] + spec_]
            for step_ in range(rng.randrange(2, 6)):
                k = rng.randrange(5)
                if k <= 1:
                    hist.append(["views"] if k == 0 else ["pack_len"])
                    reuse_step(c, hist[-1])
                seq = rng.randrange(1, 256)
                add(drv, c, seq, hist)
                hist.append(["enc", seq])
                lo = rng.randrange(w)
                hi = rng.randrange(lo, min(w, lo + 9))
                if rng.random() < 0.7:
                    hist.append(["setslice", hi, lo, rng.randrange(1 << (hi - lo + 1))])
                else:
                    hist.append(["setbit", lo, rng.random() < 0.5])
                reuse_step(c, hist[-1])
            add(drv, c, rng.randrange(1, 256), hist)
    # real decoded commands (natural flags) through LUBA and Tridonic: the whole 16-bit space
    step = 1
    for d in range(0, 65536, step):
        c = env.command.Command.from_frame(env.frame.ForwardFrame(16, d))
        add("luba", c, 1)
        if d % 8 == 0 or ctx.thorough:
            add("tridonic", c, 1 + d % 255)
    ans = model_batch(lines)
    for i, (drv, desc) in enumerate(descs):
        m, s, impl = ans[2 * i], ans[2 * i + 1], impls[i]
        line = desc if isinstance(desc, str) else desc["line"]
        if m != impl:
            corr.disagree("enc_widths", desc, m, impl)
        spec_vs_impl(corr, drv, desc, s, impl)
        corr.nontrivial((drv, line.split()[2], impl.split()[0] + (impl.split()[1] if impl.startswith("err") else "")))
        corr.bump("enc:%s:%s" % (drv, "refused" if impl.startswith("err") else "sent"))
    corr.count("enc_widths", len(descs))
    corr.exhaustive["widths 1..64 x twice x 9 drivers"] = True
    corr.exhaustive["LUBA priority over all 2^16 decoded commands"] = True

    # ---- 3. receive side, exhaustive over status/type codes
    lines, impls = [], []
    def addd(drv, args, spec=True):
        line = "dec %s %s" % (drv, " ".join(str(a) for a in args))
        lines.append((line, spec))
        impls.append(env.dec(drv, args))
    for status in range(256):
        for byte in (0, 1, 0x55, 255):
            addd("hidhasseb", [status, byte])
        for rval in (0, 7, 255):
            for q in (0, 1):
                addd("daliserver", [q, status, rval])
    for dr in list(range(0x0F, 0x15)) + [0, 255]:
        for ty in range(256):
            addd("ltridonic", [dr, ty, 0, 0, rng.randrange(256), rng.randrange(256), 0xFF, 0xFF, 3] + [0] * 55)
    for b1 in range(256):
        for st in list(range(0, 9)) + [255]:
            for b4 in (0, 1, 2):
                if b1 in (0, 7) or st < 3:
                    addd("lhasseb", [0xAA, b1, 3, st, b4, rng.randrange(256), 0, 0, 0, 0])
    for r0 in [0, 0x100, 0x200, 0x300, 0x101, 0xFF]:
        for r1 in list(range(0, 256)) + [0x1234, 0xFFFF]:
            addd("unipi", [r0, r1], spec=(r1 < 256 or r0 not in (0x100, 0x200) or (r0 == 0x200 and r1 < 65536)))
    HEX = b"0123456789ABCDEFabcdef"
    for letter in range(256):
        for hi, lo in ((48, 48), (70, 70), (rng.choice(HEX), rng.choice(HEX))):
            if letter in (10, 13):
                continue
            addd("atx", [letter, hi, lo, 10])
    for v in range(256):
        addd("atx", [74] + list(b"%02X" % v) + [10])
    addd("atx", [74, 49, 70, 70, 10], spec=False)   # J1FF: out of range
    addd("atx", [74, 10], spec=False)
    addd("atx", [74, 71, 48, 10], spec=False)
    req = []
    for line, spec in lines:
        req.append(line)
        if spec:
            req.append("spec " + line)
    ans = model_batch(req)
    k = 0
    for (line, spec), impl in zip(lines, impls):
        m = ans[k]
        k += 1
        if m != impl:
            corr.disagree("decode", line, m, impl)
        if spec:
            s = ans[k]
            k += 1
            if s != impl:
                corr.violate("meaning:%s" % line.split()[1], line, s, impl,
                             "a well-formed gateway packet is not decoded to what it denotes")
        corr.nontrivial((line.split()[1], "dec", impl.split(":")[0]))
    corr.count("decode", len(lines))
    corr.exhaustive["receive status/type codes"] = True

    # Tridonic response reports: every response type x frame bytes, through the real _send_raw loop
    lines, impls, singles = [], [], []
    fin = tri_report(0x71, 0, 0, 0, 0)
    for rtype in range(256):
        for f in ((0, 0, 0, 0), (0, 0, 0, 3), (0, 0, 0, 0x7F), (0, 0, 0, 255), (0, 0, 1, 3), (1, 0, 0, 0)):
            rep = tri_report(rtype, *f)
            for twice, query in ((0, 1), (1, 0), (0, 0), (1, 1)):
                msgs = [tri_report(0x73, 0, 0, 0xA0, 0)] * (2 if twice else 1) + [rep, fin]
                lines.append("trirecv %d %d %s" % (twice, query, ",".join(bytes(m).hex() for m in msgs)))
                impls.append(env.trirecv(bool(twice), bool(query), msgs))
            singles.append(rep)
    for msgs in ([], [fin], [tri_report(0x73, 0, 0, 0, 0)], [tri_report(0x72, 0, 0, 0, 9)],
                 [tri_report(0x72, 0, 0, 0, 9), tri_report(0x73, 0, 0, 0, 0)]):
        for twice, query in ((0, 1), (1, 1), (1, 0)):
            lines.append("trirecv %d %d %s" % (twice, query, ",".join(bytes(m).hex() for m in msgs) or "-"))
            impls.append(env.trirecv(bool(twice), bool(query), msgs))
    n_recv = len(lines)
    # single-report meaning: model vs format for well-formed reports
    for rep in singles:
        lines.append("dec tridonic1 " + " ".join(str(b) for b in rep))
        lines.append("spec dec tridonic1 " + " ".join(str(b) for b in rep))
    ans = model_batch(lines)
    for line, m, impl in zip(lines[:n_recv], ans[:n_recv], impls):
        if m != impl:
            corr.disagree("tridonic_receive", line[:200], m, impl)
        corr.nontrivial(("tridonic", "recv", impl.split(":")[0]))
    for i, rep in enumerate(singles):
        m, s = ans[n_recv + 2 * i], ans[n_recv + 2 * i + 1]
        wellformed = rep[1] != 0x72 or (rep[2], rep[3], rep[4]) == (0, 0, 0)
        if wellformed and m != s:
            # model is tied to the code by the receive suite above; a difference here is code vs format
            corr.violate("meaning:tridonic", "dec tridonic1 " + bytes(rep[:9]).hex(), s, m,
                         "a well-formed Tridonic report is not decoded to what it denotes")
    corr.count("tridonic_receive", n_recv + len(singles))

    # ---- 4. sequence numbers
    N = 700
    lines = ["seq tridonic %d %d" % (st, N) for st in range(1, 256)] + ["seq ltridonic 0 %d" % N, "seq lhasseb 0 %d" % N]
    ans = model_batch(lines)
    def check_seq(name, seq, model_ans):
        got = "ok " + ",".join(str(x) for x in seq)
        if got != model_ans:
            corr.disagree("seq", name, model_ans[:120], got[:120])
        bad = [i for i, x in enumerate(seq) if not (1 <= x <= 255)]
        rep = [i for i in range(1, len(seq)) if seq[i] == seq[i - 1]]
        if bad:
            corr.violate("seq:%s:range" % name.split()[0], name, "1..255", "position %d: %d" % (bad[0], seq[bad[0]]))
        if rep:
            corr.violate("seq:%s:repeat" % name.split()[0], name, "no immediate repetition",
                         "positions %d,%d: %s" % (rep[0] - 1, rep[0], seq[max(0, rep[0] - 3):rep[0] + 2]))
        corr.count("seq", len(seq))
    for st in range(1, 256):
        g = env.hidmod.tridonic._seqnum(st)
        check_seq("tridonic start=%d" % st, [next(g) for _ in range(N)], ans[st - 1])
    d = object.__new__(env.ltri.TridonicDALIUSBDriver)
    check_seq("ltridonic", [d._get_sn() for _ in range(N)], ans[255])
    d = object.__new__(env.lhas.HassebDALIUSBDriver)
    c = env.stub(16, 0xFF00, False)
    check_seq("lhasseb", [d.construct(c)[2] for _ in range(N)], ans[256])
    # the numbers really are the ones on the wire
    d = object.__new__(env.ltri.TridonicDALIUSBDriver)
    wire = [d.construct(c)[1] for _ in range(N)]
    check_seq("ltridonic (on the wire)", wire, ans[255])
    corr.exhaustive["Tridonic sequence starts 1..255 x 700 sends"] = True
    corr.nontrivial(("seq", "wrap"))

    # ---- 4b. LUBA / SCI packets: every well-formed packet of the two serial gateways, one at a time, through the
    # real protocol objects against the reference deframer of Spec/Deframe (the C19 machinery): every SCI status byte
    # x every error code / data bytes, every LUBA event type and command code.  No packet makes the receiver raise,
    # each is decoded to the item it denotes.  (Strengthening after seeded round 7: the serial receive side was left
    # to C19's stream suites; 'every well-formed gateway packet decodes to the … error it denotes' is C18's own.)
    from props import c19 as rxlib
    ls = rxlib.Lockstep()
    try:
        for status in range(256):
            code = status & 0x0F
            datas = [(0, 0, e) for e in range(256)] if code == 7 else \
                    [(0, 0, 0), (rng.randrange(256), rng.randrange(256), rng.randrange(256)), (0xFF, 0xFE, 0x80)]
            for d in datas:
                rxlib.compare(ctx, corr, ls, "sci", "sci_packets", [list(rxlib.sci_frame(status, *d))])
        for cmdcode in range(256):
            for n in (1, 2, 3, 7, 20):
                rxlib.compare(ctx, corr, ls, "luba", "luba_packets",
                              [list(rxlib.luba_frame(cmdcode, [rng.randrange(256) for _ in range(n)]))])
        for info in range(256):
            for data in ([], [0x21], [0xFE, 0x80], [0x01, 0xFE, 0x30], [9, 0xFE, 0x80], [9, 0x01, 0xFE, 0x30]):
                rxlib.compare(ctx, corr, ls, "luba", "luba_packets",
                              [list(rxlib.luba_frame(0x31, [0, 0, 0, info] + data))])
    finally:
        ls.close()
    corr.exhaustive["SCI status bytes x error codes, LUBA command codes and event-info bytes (single packets)"] = True

    # ---- 5. UniPi receive side (hidden gateway state: the receive counter)
    correspond_unipi(ctx, corr, env)
    refusal_through_send(ctx, corr, env)


def replay(ctx, payload):
    v = payload.get("failure") or {}
    inp = v.get("input")
    if isinstance(inp, dict) and "history of this command object" in inp:
        env = Env()
        hist = inp["history of this command object"]
        n = hist[0]
        c = env.stub(n[1], n[2], bool(n[3]), query=bool(n[4]), kind=n[5])
        impl = None
        for op in hist[1:]:
            if op[0] == "enc":
                impl = env.enc(inp["driver"], c, op[1])
            else:
                reuse_step(c, op)
        m, sp = model_batch([inp["line"], "spec " + inp["line"]])
        print("history:", hist, "\nlast transmission:", inp["line"], "\ncode  :", impl, "\nmodel :", m, "\nformat:", sp)
        return (sp == "refuse" and not impl.startswith("err")) or (sp != "refuse" and sp != impl)
    if isinstance(inp, dict) and "mode" in inp:
        out, written, locked, _sp = refuse_one(Env(), inp["driver"], inp["frame bits"], inp["mode"])
        print("input :", inp, "\ncode  :", out, "| written:", written, "| lock held:", locked,
              "\nformat: err UnsupportedFrameTypeError, nothing written, lock free")
        return out != "err UnsupportedFrameTypeError" or bool(written) or (locked and inp["mode"] != "in_transaction")
    if not isinstance(inp, str):
        ds = [d for d in payload.get("disagreements", []) if d and isinstance(d.get("input"), str)]
        if not ds:
            print("nothing to replay")
            return True
        inp = ds[0]["input"]
    env = Env()
    parts = inp.split()
    if parts[0] == "unirecv":
        line, specline, rest = [x.strip() for x in inp.split(";")]
        kv = dict(x.split("=") for x in rest.split())
        impl, back, _, _ = uni_run(env, kv["cmd"], int(kv["bus"]), line)
        m, sp = model_batch([line, specline])
        print("input :", line, "\n        (%s, command %s on bus %s)" % (specline, kv["cmd"], kv["bus"]))
        print("code  :", impl, "\nmodel :", m, "\nformat:", sp)
        return sp != impl
    if parts[0] == "enc":
        drv, bits, data, t, q, s, d, seq = parts[1], *[int(x) for x in parts[2:9]]
        kind = "dapc" if d else ("std" if s else "plain")
        impl = env.enc(drv, env.stub(bits, data, bool(t), query=bool(q), kind=kind), seq)
        m, sp = model_batch([inp, "spec " + inp])
        print("input :", inp, "\ncode  :", impl, "\nmodel :", m, "\nformat:", sp)
        return (sp == "refuse" and not impl.startswith("err")) or (sp != "refuse" and sp != impl)
    if parts[0] == "dec" and parts[1] != "tridonic1":
        impl = env.dec(parts[1], [int(x) for x in parts[2:]])
        m, sp = model_batch([inp, "spec " + inp])
        print("input :", inp, "\ncode  :", impl, "\nmodel :", m, "\nformat:", sp)
        return sp != impl
    if parts[0] in ("tridonic", "ltridonic", "lhasseb"):
        if parts[0] == "tridonic":
            g = env.hidmod.tridonic._seqnum(int(parts[1].split("=")[1]))
            seq = [next(g) for _ in range(700)]
        elif parts[0] == "ltridonic":
            d = object.__new__(env.ltri.TridonicDALIUSBDriver)
            seq = [d._get_sn() for _ in range(700)]
        else:
            d = object.__new__(env.lhas.HassebDALIUSBDriver)
            seq = [d.construct(env.stub(16, 0xFF00, False))[2] for _ in range(700)]
        rep = [i for i in range(1, len(seq)) if seq[i] == seq[i - 1]]
        bad = [x for x in seq if not 1 <= x <= 255]
        print("sequence around the first problem:", seq[max(0, (rep or [3])[0] - 3):(rep or [3])[0] + 3], "out of range:", bad[:3])
        return bool(rep or bad)
    print("replay: re-run the quick check for", inp[:100])
    return True
