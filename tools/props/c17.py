"""C17 — gateway loss or silence fails sends promptly and recovery is clean.

Trace mode (tools/asyncsim_conc): loss (EOF, read error, write error) injected at
every quiescent point of explored schedules of the REAL HID drivers, reconnect
limits None/0/1/3, device returning, a caller cancelled at every await followed
by 300 sends, serial gateways dropping confirmations/answers or going silent in the
middle of a report (truncated frame, then nothing) before further sends.  Every trace must be
accepted by the Lean model; the property's statements are asserted on the real
objects."""
import os
import sys

sys.path.insert(0, os.path.dirname(os.path.dirname(os.path.abspath(__file__))))
from common import Model  # noqa
from asyncsim_conc import suite, explore, checks  # noqa

ID = "C17"
MODULE = "DaliVerif.Props.C17"
EXES = ["m_drv"]
GEN = False
THEOREMS = ["no_leak", "no_leak_drivers", "wrap_safe", "inflight_fail", "inflight_fail_must_raise",
            "retry_resends_whole_unit",
            "status_language", "status_language_ok", "status_language_conn", "status_language_strict",
            "retry_pending_while_disconnected", "never_silent", "failed_after_limit", "retry_until_limit",
            "attempts_reset_on_connect", "connect_resets_counter", "limit_is_per_outage",
            "reconnect_when_back", "handshake_completes", "recovery",
            "serial_timeout", "serial_answer_wait_ends",
            "f8_witness_old_code_leaks", "f8_fixed_code_clean", "f9_witness_old_code_silent",
            "f9_fixed_code_reports"]
TRUSTED = ["hand-written models Model/Async.lean, Model/CallerProgram.lean, Model/Conn.lean (connect/_reconnect/"
           "disconnect of hid.hid), bound to the real drivers by trace validation over explored schedules only",
           "virtual-time loop, fake hidraw/serial transports, gateway models and fault injection of tools/asyncsim_conc",
           "CPython asyncio (cancellation is delivered at the await the task is blocked in)"]
ASSUMPTIONS = ["callers use send() / run_sequence() only",
               "the OS reports a vanished hidraw device to the reader (EOF/error) once a write to it has failed"]
PARTIAL = ("Theorems are about the model for every schedule and fault placement; the tie to the real drivers is trace "
           "validation. The model cannot exhibit real event-loop scheduling, OS fd behaviour, wall-clock, pyserial. "
           "status_language, failed_after_limit, attempts_reset_on_connect and recovery are proved for the connection "
           "machine Model/Conn.lean inside the interleaving model (invariant Conn.CInv, every event sequence, every "
           "limit None/0/n, every interleaving with callers). Not in the model, asserted on the real driver's virtual "
           "clock only: that retries happen at exactly the configured interval. recovery proves that after the device "
           "returns the retry and the handshake are enabled and set `connected` again with the callers' state "
           "untouched and every caller queued in connected.wait() enabled; that queued and new sends then COMPLETE is "
           "C15.progress / nobody_hangs under two explicit hypotheses - `connected` stays set and GatewayAnswers (the "
           "report each waiting caller waits for is delivered) - which are assumptions about the environment, not "
           "proved of any gateway; that the answers are the right ones is C16. The serial drivers have no reconnect "
           "machine in the model (their connection is opened once). The model has no byte-level receive parser: a report "
           "of which only the first bytes arrive is, for the model, a report that is never delivered, and the serial "
           "`rx_idle` event (always set in the unchanged code) is not modelled - that a half-received frame cannot "
           "block later sends is asserted on the real drivers only (hang / timeout checks on every explored trace). Open: on hasseb/LUBA/SCI (no sequence numbers) "
           "the late answer of a cancelled send is handed to the next command (xtalk-cancel:*).")
LEVEL_TEXT = ("Lean 4 theorems, every schedule and fault placement of the model: in every reachable state in which all "
              "callers have finished - normally, by exception or by cancellation - the transaction lock is free, the "
              "inner serialiser is at capacity and _outstanding is empty (no_leak); a sequence number is never "
              "allocated while occupied, for any number of further sends (wrap_safe); the callback sequence never "
              "leaves the automaton of connected (disconnected (connected|failed))* (status_language; literal form "
              "with failed final when connect() is called once: status_language_strict), after `disconnected` a retry "
              "is always pending (retry_pending_while_disconnected) and the driver stops retrying only after reporting "
              "`failed` (never_silent), `failed` is reported after exactly `limit` failed "
              "attempts of the outage, never earlier, never later, never with limit None (failed_after_limit, "
              "retry_until_limit), _reconnect_count is 0 whenever the device is open and counts per outage "
              "(attempts_reset_on_connect, connect_resets_counter, limit_is_per_outage); when the device returns the "
              "retry re-opens it, the handshake is repeated, `connected` is set and queued callers are enabled "
              "(recovery); on loss every outstanding command gets a fail message, the table is "
              "emptied and the waiting task can only leave with CommunicationError or retry (inflight_fail), and the "
              "retry runs the whole unit again, prefix and command never retried separately "
              "(retry_resends_whole_unit); serial "
              "confirmation time-out raises with every lock released, answer time-out returns (serial_timeout). "
              "Witness theorems show the unrepaired code leaks the slot (F8) and never reports failed (F9).")
LEVEL_NOTE = ("partial: proof about the model; tie by trace validation over explored schedules with loss injected at "
              "every quiescent point; timing (retry interval, timeouts) asserted on the real driver's virtual clock; "
              "completion of sends after recovery needs the stated gateway-liveness hypothesis (C15.progress).")
TECHNIQUE = ("Lean 4 invariant proofs over all schedules and fault placements of an interleaving + connection model, "
             "trace validation of the real drivers in a virtual-time loop with fault injection")

KNOWN = {
    "xtalk-cancel:hasseb": dict(driver="hasseb", budget={"cancel": 1},
                                callers=[("send", "dtq", {}), ("seq", ["q", "off"], {})]),
    "xtalk-cancel:luba": dict(driver="luba", budget={"cancel": 1},
                              callers=[("send", "dtq", {}), ("seq", ["q", "off"], {})]),
    "xtalk-cancel:sci": dict(driver="sci", budget={"cancel": 1},
                             callers=[("send", "dtq", {}), ("seq", ["q", "off"], {})]),
}


def correspond(ctx, corr):
    corr.rule.append(
        "real HID drivers x reconnect limit None/0/1/3 x loss (EOF | read error | failing write) at every quiescent "
        "point (before/after the write, between echo and answer, during the handshake, during the reconnect wait, "
        "repeated), device returning or not, absent at start, exceptions on/off, 0-3 waiting callers; a caller "
        "cancelled at every await followed by 300 sends on all four drivers; LUBA/SCI dropping confirmation or "
        "answer, or going silent PART-WAY THROUGH a report (first 1 / 3 bytes of a confirmation / answer / stray frame "
        "delivered, then nothing ever) followed by further sends; single-fault sweep (one loss / truncation at every "
        "quiescent point of the fault-free run, device back) + DFS prefix + seeded random; each trace accepted by the "
        "Lean model + no leak, callbacks language, attempt instants, prompt CommunicationError, a retried send "
        "re-sends EnableDeviceType + command and returns the answer to its own command (bus model answers a "
        "device-type command only behind its prefix), every serial caller ends within the documented timeouts of "
        "getting the lock, nobody hangs, lock free - asserted on the real objects")
    model = Model("m_drv") if ctx.model_available else None
    r = suite.run_configs(ctx, corr, suite.c17_configs(ctx.thorough), suite.C17_KEYS, model)
    corr.sample({"traces": r.ntraces})


def replay(ctx, payload):
    return suite.replay_failure(payload)


def replay_known(ctx, key):
    cfg = KNOWN.get(key)
    if cfg is None:
        return False
    hit = []

    def visit(sim):
        if any(p[0] == key for p in checks.check_all(sim)):
            hit.append(sim.schedule)
            return False
    explore.dfs(cfg, visit, max_runs=400)
    return bool(hit)
