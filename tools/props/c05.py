"""C05 — Frame is a fixed-width unsigned bit vector under all operations.

Correspondence: real `dali.frame.Frame` vs the Lean model (m_frame), and
oracle: real code vs the Lean reference list-of-bits (`spec` prefix)."""
from common import exc_name  # noqa: E402
import itertools
from common import Model, tok, outcome

ID = "C05"
MODULE = "DaliVerif.Props.C05"
EXES = ["m_frame"]
GEN = True        # the source translator (gen/src_frame.py) feeds the tie by translation
TIE_MODULES = ["DaliVerif.Tie.Frame"]
TIE_THEOREMS = ["Tie.Frame.%s_tie" % n for n in
                ("init", "getSlice", "getBit", "setSlice", "setBit", "containsTrue", "containsFalse", "add", "eq", "ne")]
THEOREMS = ["new_spec", "new_inv", "apply_refines", "history_refines", "value_in_range",
            "eq_iff", "ne_eq_not_eq", "pack_spec", "packLen_spec", "packLen_roundtrip",
            "pack_reconstructs", "render_spec"]
TRUSTED = ["hand-written model Model/Frame.lean of dali/frame.py (tied by this correspondence: "
           "exhaustive for widths <= 5 (quick) / <= 8 (thorough), sampled histories up to width 256)",
           "reference Spec/Bits.lean (list of bits) is the meaning of 'bit vector' used by the theorems"]
ASSUMPTIONS = ["operand frames of add/==/!= are themselves reachable frames (Inv)"]
PARTIAL = ("the ForwardFrame/BackwardFrame subclasses are modelled and tied but carry no theorem of their own (str: render_spec); "
           "as_byte_sequence is list(pack) by definition in both model and code")

def fbits(f):
    """width of a frame through the public API (private attribute names are the library's business)"""
    return len(f)


def fdata(f):
    """contents of a frame through the public API"""
    return f.as_integer


ODD = [True, False, None, 1.5, 1.0, 0.0, "a", "", [1], (), object]


def odd_values():
    return [True, False, None, 1.5, 1.0, 0.0, "a", "", [1], (), object()]


class Run:
    """collects (line, impl answer, has spec counterpart, description)"""

    def __init__(self, corr, suite):
        self.corr, self.suite = corr, suite
        self.lines, self.impl, self.spec = [], [], []

    def add(self, line, impl, spec):
        self.lines.append(line)
        self.impl.append(impl)
        self.spec.append(spec)

    def flush(self, ctx):
        if not self.lines:
            return
        m = Model("m_frame")
        req = list(self.lines) + ["spec " + l for l, s in zip(self.lines, self.spec) if s]
        ans = m.batch(req)
        n = len(self.lines)
        si = n
        for i, (l, a) in enumerate(zip(self.lines, self.impl)):
            if ans[i] != a:
                self.corr.disagree(self.suite, l, ans[i], a)
            if self.spec[i]:
                if ans[si] != a:
                    self.corr.violate("frame:" + l.split()[0], l, ans[si], a,
                                      "implementation differs from the reference list-of-bits model")
                si += 1
        self.corr.count(self.suite, n)
        self.lines, self.impl, self.spec = [], [], []


def fmt_out(o):
    if o is None:
        return "unit"
    if isinstance(o, bool):
        return "bit %d" % o
    if isinstance(o, int):
        return "num %d" % o
    return "frame %d %d" % (fbits(o), int(fdata(o)))


def impl_op(F, bits, data, name, ops):
    """Perform one operation on a fresh real frame; canonical answer."""
    f = F(bits, data)
    try:
        if name == "geti":
            r = f[ops[0]]
        elif name == "gets":
            r = f[slice(ops[0], ops[1], ops[2])]
        elif name == "seti":
            f[ops[0]] = ops[1]
            r = None
        elif name == "sets":
            f[slice(ops[0], ops[1], ops[2])] = ops[3]
            r = None
        elif name == "contains":
            r = bool(ops[0] in f)
        elif name == "add":
            r = f + ops[0]
        elif name == "eq":
            r = bool(f == ops[0])
        elif name == "ne":
            r = bool(f != ops[0])
        else:
            raise AssertionError(name)
    except Exception as e:
        changed = "" if (fbits(f) == bits and fdata(f) == data) else " frame-changed"
        return "err " + exc_name(e) + changed, f
    if not (0 <= fdata(f) < (1 << fbits(f))) or fbits(f) != bits:
        return "ok OUT-OF-RANGE %d %d" % (fbits(f), fdata(f)), f
    return "ok %d %d %s" % (fbits(f), int(fdata(f)), fmt_out(r)), f


def line_of(name, bits, data, ops, F):
    parts = [name, str(bits), str(data)]
    if name in ("add", "eq", "ne"):
        o = ops[0]
        if isinstance(o, F):
            parts += [str(fbits(o)), str(int(fdata(o)))]
        else:
            parts += ["-", "-"]
    else:
        parts += [tok(x) for x in ops]
    return " ".join(parts)


def correspond(ctx, corr):
    from dali import frame as fr
    F = fr.Frame
    W = 8 if ctx.thorough else 6
    FULL = 7 if ctx.thorough else 5
    corr.rule.append(
        "exhaustive: every width 1..%d x every value x every (a,b) in [-1,w] x every written value in [-1,2^w] "
        "(bit and slice reads/writes), plus non-integer operands at every position; "
        "random histories (width<=256, 40 ops) of get/set bit/slice, contains, add, ==, !=, pack, pack_len; "
        "constructor grid; non-trivial = distinct (operation, outcome class) pairs that change or read a "
        "non-zero frame or raise" % W)
    run = Run(corr, "exhaustive_small")
    for w in range(1, W + 1):
        idxs = list(range(-1, w + 1))
        vals = list(range(-1, (1 << w) + 1))
        datas = range(1 << w) if w <= FULL else sorted(set(
            [0, 1, (1 << w) - 1, 1 << (w - 1)] + [ctx.rng.randrange(1 << w) for _ in range(24)]))
        for d in datas:
            for a in idxs:
                ans, _ = impl_op(F, w, d, "geti", [a])
                run.add("geti %d %d %s" % (w, d, tok(a)), ans, True)
                for v in (0, 1, True, False, None, "x", ""):
                    ans, _ = impl_op(F, w, d, "seti", [a, v])
                    run.add("seti %d %d %s %s" % (w, d, tok(a), tok(v)), ans, True)
                for b in idxs:
                    ans, _ = impl_op(F, w, d, "gets", [a, b, None])
                    run.add("gets %d %d %s %s n" % (w, d, tok(a), tok(b)), ans, True)
                    if ans.startswith("ok") and d:
                        corr.nontrivial(("gets", w, abs(a - b)))
                    # written values: all that could fit the widest slice, +-1
                    hi, lo = max(a, b), min(a, b)
                    wv = vals if (w <= FULL or d in (0, (1 << w) - 1)) else \
                        [-1, 0, 1, (1 << (hi - lo + 1)) - 1, 1 << (hi - lo + 1), (1 << w)]
                    for v in wv:
                        ans, _ = impl_op(F, w, d, "sets", [a, b, None, v])
                        run.add("sets %d %d %s %s n %s" % (w, d, tok(a), tok(b), tok(v)), ans, True)
                        corr.nontrivial(("sets", w, hi - lo, ans.split()[0] + ans.split()[1][:5]))
        run.flush(ctx)
    corr.exhaustive["exhaustive_small(width<=%d)" % FULL] = True
    corr.sample({"suite": "exhaustive_small", "request": "sets 5 21 i:3 i:1 n i:7",
                 "impl": impl_op(F, 5, 21, "sets", [3, 1, None, 7])[0]})

    # ---- non-integer / stepped operands at every position ----
    run = Run(corr, "odd_operands")
    for w, d in ((1, 1), (4, 9), (8, 0xA5), (16, 0xFFFF), (24, 0x123456)):
        for o in odd_values():
            for name, ops in (("geti", [o]), ("seti", [o, 1]), ("seti", [1 % w, o]),
                              ("gets", [o, 0, None]), ("gets", [0, o, None]), ("gets", [0, 0, o]),
                              ("gets", [0, w - 1, o]),
                              ("sets", [o, 0, None, 0]), ("sets", [0, o, None, 0]),
                              ("sets", [0, 0, o, 0]), ("sets", [0, w - 1, None, o]),
                              ("sets", [w, 0, 2, o]), ("sets", [0, 0, 2, 0]), ("gets", [0, 0, 1]),
                              ("gets", [0, 0, 2]), ("gets", [0, 0, -1]),
                              ("contains", [o]), ("add", [o]), ("eq", [o]), ("ne", [o])):
                ans, _ = impl_op(F, w, d, name, ops)
                run.add(line_of(name, w, d, ops, F), ans, True)
                corr.nontrivial((name, type(o).__name__, ans.split()[1] if ans.startswith("err") else "ok"))
                corr.bump("odd:" + ans.split()[0] + (":" + ans.split()[1] if ans.startswith("err") else ""))
    run.flush(ctx)

    # ---- constructor grid ----
    run = Run(corr, "constructor")
    bitsv = [-1, 0, 1, 2, 8, 9, 16, 24, 64, True, False, None, 1.0, "8", [8]]
    for b in bitsv:
        bi = b if isinstance(b, int) and not isinstance(b, bool) and b > 0 else 8
        datav = [-1, 0, 1, (1 << bi) - 1, 1 << bi, (1 << bi) + 1, True, False, None, 1.5, "ab", [], [0],
                 [255], [256], [-1], [1, 2], [255] * ((bi + 7) // 8), [1] + [0] * (bi // 8),
                 [1] + [255] * ((bi + 7) // 8), [0, 0] + [255] * ((bi + 7) // 8), [2, 0, 0, 0],
                 bytes([3, 4]), (7,)]
        for d in datav:
            for cls in (fr.Frame, fr.ForwardFrame):
                st, r = outcome(lambda: cls(b, d))
                ans = "ok %d %d" % (int(fbits(r)), int(fdata(r))) if st == "ok" else "err " + r
                run.add("new %s %s" % (tok(b), tok(d)), ans, False)
                # the property's statement: accepted exactly when the number (an int, or the big-endian value
                # of a byte sequence) fits the width, and then the frame holds exactly that number
                if isinstance(b, int) and not isinstance(b, bool) and b >= 1:
                    num = None
                    if isinstance(d, int) and not isinstance(d, bool):
                        num = d
                    elif isinstance(d, (list, tuple, bytes)) and all(isinstance(x, int) and 0 <= x < 256 for x in d):
                        num = int.from_bytes(bytes(d), "big")
                    if num is not None:
                        want = "ok %d %d" % (b, num) if 0 <= num < (1 << b) else "err ValueError"
                        if ans != want:
                            corr.violate("frame:new", "new %s %s" % (tok(b), tok(d)), want, ans,
                                         "construction must accept exactly the numbers that fit the width")
                corr.nontrivial(("new", ans.split()[0], ans.split()[1] if st == "err" else ""))
                # "an iterable sequence of integers": the same bytes handed over as a one-shot iterator, a
                # generator, a map object or a bytearray must build the same frame as the list does
                if isinstance(d, (list, tuple, bytes)) and all(isinstance(x, int) and not isinstance(x, bool)
                                                               and 0 <= x < 256 for x in d) and cls is fr.Frame:
                    for form, mk in (("iter", lambda: iter(list(d))), ("generator", lambda: (x for x in list(d))),
                                     ("map", lambda: map(int, list(d))), ("bytearray", lambda: bytearray(d)),
                                     ("tuple", lambda: tuple(d)), ("list", lambda: list(d)),
                                     ("bytes", lambda: bytes(d)),
                                     ("reversed", lambda: reversed(list(d)[::-1]))):
                        st2, r2 = outcome(lambda: cls(b, mk()))
                        ans2 = "ok %d %d" % (int(fbits(r2)), int(fdata(r2))) if st2 == "ok" else "err " + r2
                        if ans2 != ans:
                            corr.violate("frame:new-iterable", "new %s %s as %s" % (tok(b), tok(list(d)), form), ans, ans2,
                                         "the same byte sequence must build the same frame whatever iterable carries it")
                        corr.bump("new-iterable:" + form)
    run.flush(ctx)

    # ---- views: pack / pack_len / as_byte_sequence / str + direct oracle ----
    run = Run(corr, "views")
    nv = 4000 if ctx.thorough else 600
    for i in range(nv):
        w = ctx.rng.choice([1, 7, 8, 9, 12, 16, 17, 24, 25, 32, 64, ctx.rng.randrange(1, 257)])
        d = ctx.rng.choice([0, (1 << w) - 1, ctx.rng.randrange(1 << w)])
        cls = ctx.rng.choice([fr.Frame, fr.ForwardFrame])
        f = cls(w, d)
        pk = f.pack
        run.add("pack %d %d" % (w, d), "ok " + ",".join(str(x) for x in pk), False)
        # the property's statement, evaluated directly
        if not (len(pk) == (w + 7) // 8 and int.from_bytes(pk, "big") == d and
                f.as_byte_sequence == list(pk) and cls(w, pk) == f and f.as_integer == d):
            corr.violate("frame:pack", "pack %d %d" % (w, d), "big-endian bytes of the value, ceil(w/8) long",
                         list(pk))
        run.add("str %s %d %d" % (cls.__name__, w, d), "ok " + str(f).replace(" ", ""), False)
        for l in (ctx.rng.choice([-1, 0, 1, (w + 7) // 8 - 1, (w + 7) // 8, (w + 7) // 8 + 3, True, None,
                                  2.0, "1"]),):
            st, r = outcome(lambda: f.pack_len(l))
            ans = "ok " + ",".join(str(x) for x in r) if st == "ok" else "err " + r
            run.add("packlen %d %d %s" % (w, d, tok(l)), ans, False)
            if st == "ok":
                ll = int(l)
                if not (len(r) == ll and int.from_bytes(r, "big") == d):
                    corr.violate("frame:pack_len", "packlen %d %d %s" % (w, d, tok(l)),
                                 "right-aligned zero-padded bytes", list(r))
            elif isinstance(l, int) and l >= 0 and d < 256 ** int(l):
                corr.violate("frame:pack_len", "packlen %d %d %s" % (w, d, tok(l)), "fits", ans)
            corr.nontrivial(("packlen", ans.split()[0], st == "err" and r))
    for bf in (fr.BackwardFrame, fr.BackwardFrameError):
        for d in (0, 1, 255):
            f = bf(d)
            if str(f) != "%s(%d)" % (bf.__name__, d) or len(f) != 8 or f.error != (bf is fr.BackwardFrameError):
                corr.violate("frame:backward", "%s(%d)" % (bf.__name__, d), "8-bit frame", str(f))
    # equality is "same width and same bits" for every kind of frame: the subclass and the framing-error mark of a
    # backward frame are not part of it (all ordered pairs of the five kinds, equal and unequal contents)
    kinds = [("Frame", lambda d: fr.Frame(8, d)), ("ForwardFrame", lambda d: fr.ForwardFrame(8, d)),
             ("BackwardFrame", fr.BackwardFrame), ("BackwardFrameError", fr.BackwardFrameError),
             ("Frame-from-bytes", lambda d: fr.Frame(8, bytes([d])))]
    for (na, ma), (nb, mb) in itertools.product(kinds, kinds):
        for da, db in ((0, 0), (255, 255), (0x5A, 0x5A), (0, 1), (255, 254)):
            a, b = ma(da), mb(db)
            want = da == db
            got = (bool(a == b), bool(a != b))
            if got != (want, not want):
                corr.violate("frame:eq-kinds", "%s(%d) vs %s(%d)" % (na, da, nb, db),
                             "== %s, != %s" % (want, not want), "== %s, != %s" % got,
                             "equality holds exactly when width and bits agree")
            corr.bump("eq-kinds")
    run.flush(ctx)

    # ---- several live frames of different widths, operations interleaved: a frame's behaviour must not
    # depend on what was done to another frame ----
    run = Run(corr, "multi_frame")
    for h in range(300 if ctx.thorough else 40):
        ws = [ctx.rng.choice([8, 16, 24, 32, ctx.rng.randrange(1, 65)]) for _ in range(4)]
        frames = [F(w, ctx.rng.randrange(1 << w)) for w in ws]
        hist = []
        for step in range(60):
            k = ctx.rng.randrange(4)
            f, w = frames[k], ws[k]
            bits, data = fbits(f), int(fdata(f))
            if ctx.rng.random() < 0.7:
                a, b = ctx.rng.randrange(w), ctx.rng.randrange(w)
                if ctx.rng.random() < 0.5:      # reuse coordinates across frames of different widths
                    a, b = min(a, 15), min(b, 8) if w > 8 else b
                width = abs(a - b) + 1
                v = ctx.rng.choice([ctx.rng.randrange(1 << width), (1 << width) - 1, 0])
                name, ops = "sets", [a, b, None, v]
                try:
                    f[a:b] = v
                    ans = "ok %d %d unit" % (fbits(f), int(fdata(f)))
                except Exception as e:
                    ans = "err " + exc_name(e)
            else:
                i = ctx.rng.randrange(w)
                v = ctx.rng.random() < 0.5
                name, ops = "seti", [i, v]
                f[i] = v
                ans = "ok %d %d unit" % (fbits(f), int(fdata(f)))
            line = line_of(name, bits, data, ops, F)
            run.add(line, ans, True)
            hist.append("frame%d: %s" % (k, line))
            if not (fbits(f) == w and 0 <= fdata(f) < (1 << w)):
                corr.violate("frame:range", {"history": hist}, "0 <= value < 2^%d" % w, "value %d" % fdata(f))
                break
        corr.nontrivial(("multi", h))
    run.flush(ctx)

    # ---- random histories ----
    run = Run(corr, "histories")
    nh = 1500 if ctx.thorough else 150
    for h in range(nh):
        w = ctx.rng.choice([1, 2, 3, 8, 16, 24, ctx.rng.randrange(1, 257)])
        f = F(w, ctx.rng.randrange(1 << w))
        hist = []
        for step in range(40):
            bits, data = fbits(f), int(fdata(f))
            k = ctx.rng.random()
            def ridx():
                return ctx.rng.choice([ctx.rng.randrange(w), ctx.rng.randrange(w), -1, w, w + 3,
                                       ctx.rng.choice(odd_values())]) if ctx.rng.random() < 0.3 \
                    else ctx.rng.randrange(w)
            if k < 0.15:
                name, ops = "geti", [ridx()]
            elif k < 0.35:
                name, ops = "seti", [ridx(), ctx.rng.choice([0, 1, True, False, None, "a", 2])]
            elif k < 0.5:
                name, ops = "gets", [ridx(), ridx(), ctx.rng.choice([None, None, None, 1, 2, True])]
            elif k < 0.8:
                a, b = ridx(), ridx()
                width = (abs(a - b) + 1) if isinstance(a, int) and isinstance(b, int) and \
                    not isinstance(a, bool) and not isinstance(b, bool) else 3
                v = ctx.rng.choice([ctx.rng.randrange(1 << width), ctx.rng.randrange(1 << width),
                                    (1 << width) - 1, 1 << width, -1, ctx.rng.choice(odd_values())])
                name, ops = "sets", [a, b, ctx.rng.choice([None, None, None, 1, 3]), v]
            elif k < 0.85:
                name, ops = "contains", [ctx.rng.choice([True, False, 1, 0, None])]
            else:
                ow = ctx.rng.choice([w, w, ctx.rng.randrange(1, 40)])
                other = ctx.rng.choice([F(ow, ctx.rng.randrange(1 << ow)), F(bits, data), None, 5])
                name, ops = ctx.rng.choice(["add", "eq", "ne"]), [other]
            # apply to the live frame (not a fresh copy) so the history is real
            before = (fbits(f), fdata(f))
            try:
                if name == "geti":
                    r = f[ops[0]]
                elif name == "gets":
                    r = f[slice(ops[0], ops[1], ops[2])]
                elif name == "seti":
                    f[ops[0]] = ops[1]; r = None
                elif name == "sets":
                    f[slice(ops[0], ops[1], ops[2])] = ops[3]; r = None
                elif name == "contains":
                    r = bool(ops[0] in f)
                elif name == "add":
                    if ctx.rng.random() < 0.3:
                        # the augmented form: `g = f; g += other` must give the sum and leave f (an alias of
                        # the left operand) exactly as it was
                        # (the answer line below states f's width and contents after the operation)
                        g = f
                        g += ops[0]
                        r = g
                        corr.bump("hist:augmented-add")
                    else:
                        r = f + ops[0]
                elif name == "eq":
                    r = bool(f == ops[0])
                else:
                    r = bool(f != ops[0])
                ans = "ok %d %d %s" % (fbits(f), int(fdata(f)), fmt_out(r))
            except Exception as e:
                ans = "err " + exc_name(e) + ("" if (fbits(f), fdata(f)) == before else " frame-changed")
            line = line_of(name, bits, data, ops, F)
            run.add(line, ans, True)
            hist.append(line)
            # a frame produced by `+` is a frame like any other: carry on the history ON THE SUM half of the time
            # (every later line states the live frame's width and contents, so the model follows by itself)
            if name == "add" and ans.startswith("ok") and fbits(r) <= 300 and ctx.rng.random() < 0.5:
                f = r
                w = fbits(f)
                hist.append("(history continues on the sum)")
                corr.bump("hist:continued-on-sum")
            # the views must follow every mutation (read them at random points so that any caching is exercised)
            if ctx.rng.random() < 0.6 and fbits(f) == w and 0 <= fdata(f) < (1 << w):
                pk = f.pack
                if not (int.from_bytes(pk, "big") == fdata(f) == f.as_integer and len(pk) == (w + 7) // 8
                        and f.as_byte_sequence == list(pk) and F(w, pk) == f
                        and str(f) == "Frame(%d,%s)" % (w, list(pk))
                        and f.pack_len((w + 7) // 8 + 1) == b"\x00" + pk):
                    corr.violate("frame:views-after-history", {"history": hist}, "views encode value %d" % fdata(f),
                                 "pack=%s as_integer=%s str=%s" % (list(pk), f.as_integer, str(f)))
                    break
            if not (fbits(f) == w and 0 <= fdata(f) < (1 << w)):
                corr.violate("frame:range", {"history": hist}, "0 <= value < 2^%d, width %d" % (w, w),
                             "width %d value %d" % (fbits(f), fdata(f)))
                break
            corr.bump("hist:" + name + ":" + ans.split()[0])
        corr.nontrivial(("history", h))
        if h == 0:
            corr.sample({"suite": "histories", "history": hist[:8]})
    run.flush(ctx)


def replay(ctx, payload):
    from dali import frame as fr
    v = payload.get("failure", {})
    line = v.get("input", "")
    if not isinstance(line, str):
        line = ""
    m = Model("m_frame")
    if not line:
        print("re-running the oracle and looking for the same key")
        corr = __import__("common").Corr()
        correspond(ctx, corr)
        hits = [x for x in corr.violations if x["key"] == v.get("key")]
        for x in hits[:3]:
            print(x)
        return bool(hits)
    parts = line.split()
    name, bits, data = parts[0], int(parts[1]), int(parts[2])

    def untok(t):
        if t == "n": return None
        if t == "o": return object()
        if t.startswith("i:"): return int(t[2:])
        if t.startswith("b:"): return t == "b:1"
        if t.startswith("s:"): return t[2:]
        if t == "f:x": return 1.5
        if t.startswith("f:"): return float(t[2:])
        if t.startswith("l:"): return [int(x) for x in t[2:].split(",") if x]
        raise ValueError(t)
    if name in ("add", "eq", "ne"):
        ops = [fr.Frame(int(parts[3]), int(parts[4]))] if parts[3] != "-" else [None]
    elif name in ("pack", "packlen", "str", "new") or not line:
        print("re-running the oracle and looking for the same key")
        corr = __import__("common").Corr()
        correspond(ctx, corr)
        hits = [x for x in corr.violations if x["key"] == v.get("key")]
        for x in hits[:3]:
            print(x)
        return bool(hits)
    else:
        ops = [untok(t) for t in parts[3:]]
    ans, _ = impl_op(fr.Frame, bits, data, name, ops)
    spec = m.batch(["spec " + line])[0]
    print("input:", line, "\nimplementation:", ans, "\nreference:", spec)
    return ans != spec

LEVEL_TEXT = ("Lean 4 theorems: every operation of the Frame model refines a reference list-of-bits model "
              "(apply_refines), lifted by induction to every history of operations (history_refines) with the "
              "width fixed and 0 <= value < 2^width (value_in_range); exception classes are part of the refinement; "
              "pack/pack_len/constructor round trips (pack_spec, pack_reconstructs, packLen_spec). Unbounded in width, "
              "value and history length. The model is hand-written and tied to dali/frame.py by exhaustive "
              "differential execution for small widths and sampled histories up to width 256.")
LEVEL_NOTE = ("Trusted: Lean kernel; axioms propext/Classical.choice/Quot.sound; the hand-written model "
              "Model/Frame.lean corresponds to dali/frame.py only as far as the correspondence suite exercises it "
              "(exhaustive for widths <= 5/7, sampled beyond); Python int semantics."
              " The ten integer-only operations of dali/frame.py are in addition re-translated from the source on every run and proved equal to the model for every frame and all integers (Tie/Frame.lean); non-integer operands, pack/pack_len/str stay on the differential tie.")
TECHNIQUE = "Lean 4 refinement proof (model -> list-of-bits spec, induction over histories) + exhaustive/sampled model-vs-code correspondence + source translation tie (Tie/Frame: the integer operations of dali/frame.py re-translated on every run and proved equal to the model)"
