"""C13 — control-device sequences move multi-byte settings and scan results intact.

Lock-step: the real generators of dali/device/sequences.py and
DeviceInstanceTypeMapper.autodiscover are driven against the Lean
specification bus of IEC 62386-103 control devices (exe m_devseq); the driver
checks every yielded command against its own model of the sequence, answers
with the specification bus's response, and at the end compares the outcome
with the model's and evaluates the property's post-condition on the
specification bus (filter / scheme stored, value returned, mapping recorded,
quiescent mode off)."""
from common import exc_name  # noqa: E402
import itertools
from common import InfraError, hot_addr
from props._devmem_lockstep import LockStep, judge

ID = "C13"
MODULE = "DaliVerif.Props.C13"
EXES = ["m_devseq"]
GEN = False
THEOREMS = ["inputValue_spec", "inputValue_spec_queried", "inputValue_core", "setFilter_spec",
            "queryFilter_spec", "setScheme_spec", "setScheme_invalid", "autodiscover_spec",
            "autodiscover_mapping", "faults_benign_autodiscover", "faults_skip_autodiscover",
            "faults_benign_inputValue",
            "faults_benign_filter", "setFilter_old_code_wrong"]
TRUSTED = [
    "hand-written models Model/DevSeq.lean of dali/device/sequences.py and helpers.py (tied by this lock-step "
    "correspondence: sampled scenarios, every fault position of every sampled scenario)",
    "specification bus Spec/DeviceUnit.lean = my reading of IEC 62386-103 (DESIGN Appendix A); it is the only oracle",
    "Cmd.frame encodings of the ~25 commands these sequences use (checked against the real frames on every command "
    "of every lock-step run: a command that does not decode is a disagreement)",
]
ASSUMPTIONS = [
    "a command without a response class is resumed with None (what every driver does), so the "
    "`if rsp is not None: return` exits after DTR0/1/2, SET EVENT SCHEME/FILTER are not reachable and not modelled",
    "setFilter_spec: the filter enum's dali_width() equals the instance type's filter width, value < 2^width",
    "autodiscover_spec: short addresses are unique on the bus (collisions are covered by faults_benign_autodiscover), "
    "devices report at most 32 instances, addresses <= 63",
    "send-twice configuration commands are delivered to the unit as one accepted command (the driver's doubling is C15/C16)",
]
PARTIAL = ("faults_benign is proved per sequence against an arbitrary responder (Prog.Out): discovery, input value, "
           "filter read-back; SetEventSchemes returns the last response object unchanged and has no separate fault "
           "theorem. Plain-int filters wider than 8 bits are outside the property's quantifier (noted only). "
           "If a unit claims more than 32 instances autodiscover raises ValueError and leaves quiescent mode on "
           "(outside the quantifier 'instance counts 0..32'; noted).")
LEVEL_TEXT = ("Lean 4 theorems about the sequence models run against a specification bus of 103 control devices: "
              "input value reassembly for every resolution N >= 1 and value < 2^N (induction on the byte list, "
              "repeated-MSB fill), set/query event filter for 8/16/24-bit filters with arbitrary stale DTRs, set event "
              "scheme, discovery for every population and address list (induction on addresses and instances, the "
              "recorded mapping characterised key by key), and fault theorems against an arbitrary responder. "
              "No bounds on sizes. Models tied to the code by lock-step differential execution.")
LEVEL_NOTE = ("Trusted: Lean kernel; axioms propext/Classical.choice/Quot.sound; hand-written models (tied by sampled "
              "lock-step runs incl. a fault at every step of every sampled scenario); the specification bus is my "
              "reading of IEC 62386-103.")
TECHNIQUE = "Lean 4 proofs over resumption models vs a specification bus + lock-step model/code/spec correspondence"


# ---------------------------------------------------------------------------------------------

def mk_enum(n):
    """a user-defined InstanceEventFilter with n single-bit members"""
    from dali.device.general import InstanceEventFilter
    return InstanceEventFilter("UserFilter%d" % n, {"b%d" % i: 1 << i for i in range(n)})


_ENUMS = {}


def spec_width(E):
    """the number of filter bits an event-filter enum needs, from its members alone (8, 16 or 24): what part 103
    calls the filter's width, computed without asking the library"""
    top = max([int(m.value).bit_length() for m in E] + [1])
    return 8 * ((top + 7) // 8)


def enum_by_name(name):
    if name in _ENUMS:
        return _ENUMS[name]
    if not _ENUMS:
        # the generic base class is asked for its width before any enum of this run exists (it has no members; it
        # may answer or raise): what it answers must not rub off on the enums declared afterwards
        try:
            from dali.device.general import InstanceEventFilter
            InstanceEventFilter.dali_width()
        except Exception:   # noqa
            pass
    if name.startswith("user"):
        e = mk_enum(int(name[4:]))
    else:
        import importlib
        e = importlib.import_module("dali.device." + name).InstanceEventFilter
    _ENUMS[name] = e
    return e


ENUM_NAMES = ["pushbutton", "occupancy", "light", "user1", "user8", "user9", "user12", "user16",
              "user17", "user20", "user24"]


def inst_tok(x):
    return "inst %d %d %d %d %d %d %d %d" % (x["type"], 1 if x["en"] else 0, x["scheme"], x["filter"],
                                            x["fw"], x["res"], x["v0"], x["vstep"])


def bus_line(devs):
    parts = ["bus"]
    for a in sorted(devs):
        d = devs[a]
        parts.append("dev %d %d %d %d %d" % (a, d["status"], d["dtr"][0], d["dtr"][1], d["dtr"][2]))
        for x in d["insts"]:
            parts.append(inst_tok(x))
    return " ".join(parts)


def rand_inst(rng, **kw):
    res = rng.randrange(1, 33)
    fw = rng.choice([8, 16, 24])
    x = {"type": rng.choice([0, 1, 2, 3, 4, 6, 32, 255, rng.randrange(256)]), "en": rng.random() < 0.7,
         "scheme": rng.randrange(5), "filter": rng.randrange(1 << fw), "fw": fw, "res": res,
         "v0": rng.randrange(1 << res), "vstep": rng.choice([0, 0, 1, 3, rng.randrange(1 << res)])}
    x.update(kw)
    return x


def rand_dev(rng, ninst=None, status=None, insts=None):
    if insts is None:
        n = rng.randrange(0, 5) if ninst is None else ninst
        insts = [rand_inst(rng) for _ in range(n)]
    return {"status": rng.choice([0, 0, 0, 2, 8, 32, rng.randrange(256)]) if status is None else status,
            "dtr": [rng.randrange(256) for _ in range(3)], "insts": insts}


def canon_value(kind):
    def c(v):
        if kind == "schemes":
            if v is None:
                return "n"
            rv = v.raw_value
            if rv is None:
                return "r:none"
            return "r:err" if rv.error else "r:%d" % rv.as_integer
        if kind == "autodiscover":
            raise AssertionError
        if v is None:
            return "n"
        return "i:%d" % int(v)
    return c


def make_gen(call, mapper_box):
    """build the real generator for a scenario's `call` description"""
    from dali.device import sequences as ds
    from dali.device.helpers import DeviceInstanceTypeMapper
    from dali.device.general import EventScheme
    from dali.address import DeviceShort, InstanceNumber
    k = call["kind"]

    def addr():
        if call.get("intaddr"):
            return call["a"], call["i"]
        return DeviceShort(call["a"]), InstanceNumber(call["i"])
    if k == "schemes":
        a, i = addr()
        s = call["scheme"]
        if call.get("member"):
            s = EventScheme(s)
        return ds.SetEventSchemes(a, i, s)
    if k == "setfilter":
        a, i = addr()
        if call["enum"] is None:
            fv = call["value"]
        else:
            fv = enum_by_name(call["enum"])(call["value"])
        return ds.SetEventFilters(a, i, fv)
    if k == "queryfilter":
        a, i = addr()
        if call["enum"] in ("pushbutton", "occupancy", "light") and call.get("module"):
            import importlib
            ft = importlib.import_module("dali.device." + call["enum"])
        else:
            ft = enum_by_name(call["enum"])
        return ds.QueryEventFilters(a, i, ft)
    if k == "inputvalue":
        a, i = addr()
        return ds.query_input_value(a, i, call["res"])
    if k == "autodiscover":
        m = DeviceInstanceTypeMapper()
        if call.get("history"):
            # "one mapper per bus, re-used": the mapper was filled before (another population, partly the same keys
            # with other types), its mapping was looked at, and it was cleared for this scan (a re-scan after devices
            # were swapped): what it shows afterwards is this scan's population, nothing else
            for (a0, i0, t0) in call["history"]:
                m.add_type(short_address=a0, instance_number=i0, instance_type=t0)
            _ = m.mapping
            len(_)
            m.clear()
        mapper_box.append(m)
        form = call["form"]
        if form == "default":
            return m.autodiscover()
        if form == "int":
            return m.autodiscover(call["n"])
        if form == "tuple":
            return m.autodiscover((call["lo"], call["hi"]))
        return m.autodiscover(list(call["addrs"]))
    raise AssertionError(k)


def seq_line(call):
    k = call["kind"]
    if k == "schemes":
        return "seq schemes %d %d %d" % (call["a"], call["i"], call["scheme"])
    if k == "setfilter":
        w = "-" if call["enum"] is None else str(spec_width(enum_by_name(call["enum"])))
        return "seq setfilter %d %d %s %d" % (call["a"], call["i"], w, call["value"])
    if k == "queryfilter":
        return "seq queryfilter %d %d %d" % (call["a"], call["i"], spec_width(enum_by_name(call["enum"])))
    if k == "inputvalue":
        return "seq inputvalue %d %d %s" % (call["a"], call["i"], "-" if call["res"] is None else call["res"])
    if k == "autodiscover":
        form = call["form"]
        if form == "default":
            addrs = list(range(64))
        elif form == "int":
            addrs = list(range(call["n"]))
        elif form == "tuple":
            addrs = list(range(call["lo"], call["hi"] + 1))
        else:
            addrs = list(call["addrs"])
        return "seq autodiscover " + (",".join(map(str, addrs)) if addrs else "-")
    raise AssertionError(k)


def run_scenario(ls, sc):
    """returns (end_token, res, badop, trace)"""
    lines = [sc["bus"]]
    if sc.get("fault"):
        lines.append(sc["fault"])
    lines.append(seq_line(sc["call"]))
    ls.setup(lines)
    box = []
    gen = make_gen(sc["call"], box)
    kind = sc["call"]["kind"]
    if kind == "autodiscover":
        def canon(v):
            mp = box[0].mapping
            return "m:" + ",".join("%d.%d.%d" % (a, i, t) for (a, i), t in sorted(mp.items()))
    else:
        canon = canon_value(kind)
    end, trace, badop = ls.drive(gen, canon)
    if kind == "autodiscover" and end.startswith("ok"):
        # the model reports the add_type log in order; compare as the final mapping
        pass
    res = ls.finish(end)
    if kind == "autodiscover" and res.get("model", "").startswith("ok~m:") and end.startswith("ok m:"):
        # model = log of add_type calls (in call order); impl = final dict (sorted): compare as dicts
        def as_map(tok):
            d = {}
            for e in [x for x in tok.split(",") if x]:
                a, i, t = e.split(".")
                d[(int(a), int(i))] = int(t)
            return d
        if as_map(res["model"][5:]) == as_map(end[5:]):
            res["model"] = end.replace(" ", "~")
    return end, res, badop, trace


def with_faults(ls, corr, suite, sc, key, ntrace, rng, limit=None):
    """inject silence / framing error at each command position of the fault-free run"""
    pos = list(range(ntrace))
    if limit is not None and len(pos) > limit:
        pos = sorted(rng.sample(pos, limit))
    n = 0
    for k in pos:
        for kindf in ("none", "err"):
            sc2 = dict(sc)
            sc2["fault"] = "fault %d %s" % (k, kindf)
            end, res, badop, _ = run_scenario(ls, sc2)
            judge(corr, suite, sc2, end, res, badop, key + ":fault")
            corr.bump("fault:" + sc["call"]["kind"] + ":" + end.split()[0] +
                      (":" + end.split()[1] if end.startswith("err") else ""))
            n += 1
    corr.count(suite, n)


def correspond(ctx, corr):
    rng = ctx.rng
    T = ctx.thorough
    ls = LockStep("m_devseq")
    try:
        _correspond(ctx, corr, rng, T, ls)
    finally:
        ls.close()


def _correspond(ctx, corr, rng, T, ls):
    from dali import command
    from dali.frame import BackwardFrame, BackwardFrameError
    from dali.device.helpers import check_bad_rsp
    from dali.device import general as dg

    corr.rule.append(
        "check_bad_rsp exhaustive over 5 response classes x 258 bus outcomes; lock-step against the Lean 103 "
        "specification bus: input value for every resolution 1..32 x boundary/random values x resolution "
        "given/queried x drifting values; SetEventFilters/QueryEventFilters for 11 filter enums (library + "
        "user-defined 1..24 members) x single bits/all ones/random x random stale DTRs; SetEventSchemes 0..4, members "
        "and invalid; autodiscover on buses of 0..64 devices with random status bits / 0..32 instances / flags / types "
        "and every address-argument form; silence and framing error injected at each command position (the "
        "post-condition depends on the fault: the affected instance/device is skipped, a read-back gives None, an "
        "input value DALISequenceError). "
        "non-trivial = distinct (sequence, outcome class, width/resolution/fault kind) combinations")

    # ---- check_bad_rsp: exhaustive ----------------------------------------------------------
    kinds = [("plain", command.Response), ("numeric", command.NumericResponse), ("yesno", command.YesNoResponse),
             ("bitmap", dg.QueryDeviceStatusResponse), ("enum5", dg.QueryEventSchemeResponse)]
    lines, impl = [], []
    for kn, cls in kinds:
        for o in ["none", "err"] + ["byte %d" % b for b in range(256)]:
            if o == "none":
                r = cls(None)
            elif o == "err":
                r = cls(BackwardFrameError(255))
            else:
                r = cls(BackwardFrame(int(o[5:])))
            try:
                impl.append("ok %d" % (1 if check_bad_rsp(r) else 0))
            except Exception as e:  # noqa
                impl.append("err " + exc_name(e))
            lines.append("check_bad %s %s" % (kn, o))
    for l, a in zip(lines, impl):
        m = ls.ask(l)
        if m != a:
            corr.disagree("check_bad_rsp", l, m, a)
        corr.nontrivial(("check_bad", l.split()[1], a))
    if check_bad_rsp(None) is not True:
        corr.violate("check_bad:None", "check_bad_rsp(None)", True, False)
    corr.count("check_bad_rsp", len(lines) + 1)
    corr.exhaustive["check_bad_rsp(5 classes x 258 outcomes)"] = True
    corr.exhaustive["lock-step sequence suites (sampled)"] = False

    # ---- input value ------------------------------------------------------------------------
    suite = "input_value"
    n = 0
    for N in range(1, 33):
        vals = {0, 1, (1 << N) - 1, 1 << (N - 1), (1 << N) // 3, ((1 << N) - 1) ^ ((1 << N) // 3)}
        for _ in range(12 if T else 5):
            vals.add(rng.randrange(1 << N))
        for v in sorted(vals):
            for given in (False, True):
                a, i = hot_addr(rng), rng.randrange(0, 4)
                insts = [rand_inst(rng) for _ in range(i)] + [rand_inst(rng, res=N, v0=v, vstep=rng.choice([0, 1, 5]))]
                devs = {a: rand_dev(rng, insts=insts)}
                if rng.random() < 0.3:
                    devs[(a + 1) % 64] = rand_dev(rng)
                sc = {"suite": suite, "bus": bus_line(devs),
                      "call": {"kind": "inputvalue", "a": a, "i": i, "res": N if given else None,
                               "intaddr": rng.random() < 0.2}}
                end, res, badop, trace = run_scenario(ls, sc)
                judge(corr, suite, sc, end, res, badop, "inputvalue:res%d" % N)
                corr.nontrivial(("inputvalue", N, given, end.split()[0]))
                n += 1
                if v in (0, (1 << N) - 1) and given is False and (T or N in (1, 7, 8, 9, 10, 16, 17, 24, 25, 32)):
                    with_faults(ls, corr, suite + "_faults", sc, "inputvalue", len(trace), rng)
    # wrong resolution supplied by the caller / resolution 0 / absent instance
    for _ in range(200 if T else 60):
        N = rng.randrange(0, 41)
        a = hot_addr(rng)
        devs = {a: rand_dev(rng, insts=[rand_inst(rng)])}
        sc = {"suite": suite, "bus": bus_line(devs),
              "call": {"kind": "inputvalue", "a": rng.choice([a, a, (a + 1) % 64]), "i": rng.choice([0, 0, 1]),
                       "res": rng.choice([None, N])}}
        end, res, badop, trace = run_scenario(ls, sc)
        judge(corr, suite, sc, end, res, badop, "inputvalue:odd")
        corr.nontrivial(("inputvalue-odd", end))
        n += 1
    for a, i in ((64, 0), (0, 32), (100, 100)):
        sc = {"suite": suite, "bus": "bus", "call": {"kind": "inputvalue", "a": a, "i": i, "res": None, "intaddr": True}}
        end, res, badop, trace = run_scenario(ls, sc)
        judge(corr, suite, sc, end, res, badop, "inputvalue:badaddr")
        n += 1
    corr.count(suite, n)
    corr.sample({"suite": suite, "last": sc, "outcome": end})

    # ---- event filters ------------------------------------------------------------------------
    suite = "event_filters"
    n = 0
    for en in ENUM_NAMES:
        E = enum_by_name(en)
        w = spec_width(E)
        try:
            lw = E.dali_width()
        except Exception as e:  # noqa
            lw = "raises " + exc_name(e)
        if lw != w:
            corr.violate("filter:width", {"enum": en, "members": len(list(E))}, w, lw,
                         "the filter enum's width is not the width its members need")
        vals = {0, (1 << w) - 1, 0xABCDEF & ((1 << w) - 1), 0x800000 >> (24 - w), 1 << (w - 1)}
        vals |= {1 << b for b in range(w)} if (T or en.startswith("user")) else {1, 1 << (w - 1)}
        for _ in range(40 if T else 12):
            vals.add(rng.randrange(1 << w))
        for v in sorted(vals):
            a, i = hot_addr(rng), rng.randrange(0, 3)
            fw = w if rng.random() < 0.9 else rng.choice([8, 16, 24])
            insts = [rand_inst(rng) for _ in range(i)] + [rand_inst(rng, fw=fw, filter=rng.randrange(1 << fw))]
            devs = {a: rand_dev(rng, insts=insts)}
            devs[a]["dtr"] = [rng.choice([0, 0xFF, rng.randrange(256)]) for _ in range(3)]
            sc = {"suite": suite, "bus": bus_line(devs),
                  "call": {"kind": "setfilter", "a": a, "i": i, "enum": en, "value": v, "intaddr": rng.random() < 0.2}}
            end, res, badop, trace = run_scenario(ls, sc)
            judge(corr, suite, sc, end, res, badop, "setfilter:w%d" % w)
            corr.nontrivial(("setfilter", en, end.split()[0], v.bit_length() > 16, v.bit_length() > 8))
            corr.bump("setfilter:w%d" % w)
            n += 1
            if v in (0xABCDEF & ((1 << w) - 1), 0) and fw == w:
                with_faults(ls, corr, suite + "_faults", sc, "setfilter", len(trace), rng)
            # query it back with QueryEventFilters (fresh bus holding that filter)
            x = rand_inst(rng, fw=fw, filter=v & ((1 << fw) - 1))
            devs = {a: rand_dev(rng, insts=[rand_inst(rng) for _ in range(i)] + [x])}
            sc = {"suite": suite, "bus": bus_line(devs),
                  "call": {"kind": "queryfilter", "a": a, "i": i, "enum": en, "module": rng.random() < 0.5}}
            end, res, badop, trace = run_scenario(ls, sc)
            judge(corr, suite, sc, end, res, badop, "queryfilter:w%d" % w)
            corr.nontrivial(("queryfilter", en, end.split()[0]))
            n += 1
            if v == 0xABCDEF & ((1 << w) - 1):
                with_faults(ls, corr, suite + "_faults", sc, "queryfilter", len(trace), rng)
    # plain ints, out-of-range values, absent instances
    for v in [0, 1, 255, 256, 0xFFFF, 0x10000, 0xFFFFFF, 0x1000000, -1, rng.randrange(1 << 24)]:
        a = hot_addr(rng)
        devs = {a: rand_dev(rng, insts=[rand_inst(rng, fw=24)])}
        sc = {"suite": suite, "bus": bus_line(devs),
              "call": {"kind": "setfilter", "a": a, "i": 0, "enum": None, "value": v}}
        end, res, badop, trace = run_scenario(ls, sc)
        judge(corr, suite, sc, end, res, badop, "setfilter:int")
        corr.nontrivial(("setfilter-int", end.split()[0], v.bit_length() > 8))
        n += 1
    for en in ("pushbutton", "user12", "user20"):
        a = rng.randrange(63)
        devs = {a: rand_dev(rng, insts=[rand_inst(rng)])}
        for (aa, ii) in ((a + 1, 0), (a, 1)):
            for kind in ("setfilter", "queryfilter"):
                sc = {"suite": suite, "bus": bus_line(devs),
                      "call": {"kind": kind, "a": aa, "i": ii, "enum": en, "value": 1}}
                end, res, badop, trace = run_scenario(ls, sc)
                judge(corr, suite, sc, end, res, badop, kind + ":absent")
                n += 1
    corr.count(suite, n)
    corr.sample({"suite": suite, "last": sc, "outcome": end})

    # ---- event schemes ------------------------------------------------------------------------
    suite = "event_schemes"
    n = 0
    for s in [0, 1, 2, 3, 4, 5, 6, 255, -1, 256]:
        for member in ((False, True) if 0 <= s <= 4 else (False,)):
            for rep in range(3):
                a, i = hot_addr(rng), rng.randrange(0, 3)
                devs = {a: rand_dev(rng, insts=[rand_inst(rng) for _ in range(i + 1)])}
                if rep == 2:
                    devs = {(a + 1) % 64: devs[a]}          # nobody at that address
                sc = {"suite": suite, "bus": bus_line(devs),
                      "call": {"kind": "schemes", "a": a, "i": i, "scheme": s, "member": member,
                               "intaddr": rng.random() < 0.2}}
                end, res, badop, trace = run_scenario(ls, sc)
                judge(corr, suite, sc, end, res, badop, "schemes:%s" % ("valid" if 0 <= s <= 4 else "invalid"))
                corr.nontrivial(("schemes", s, end))
                n += 1
                if rep == 0 and 0 <= s <= 4:
                    with_faults(ls, corr, suite + "_faults", sc, "schemes", len(trace), rng)
    corr.count(suite, n)

    # ---- discovery ----------------------------------------------------------------------------
    suite = "autodiscover"
    n = 0
    sizes = (list(range(0, 65)) * 3) if T else [0, 1, 2, 3, 5, 8, 16, 33, 63, 64] + [rng.randrange(65) for _ in range(20)]
    for nd in sizes:
        addrs = rng.sample(range(64), nd)
        devs = {}
        for a in addrs:
            ni = rng.choice([0, 1, 1, 2, 3, 4, 8, 31, 32, rng.randrange(33)]) if rng.random() < 0.5 else rng.randrange(4)
            st = rng.choice([0, 0, 0, 0, 2, 8, 0x10, 0x20, 0x04, 0x40, 0x44, 0xFF, 0xBB, rng.randrange(256)])
            devs[a] = rand_dev(rng, ninst=ni, status=st)
        form = rng.choice(["default", "default", "int", "tuple", "list"])
        call = {"kind": "autodiscover", "form": form}
        if form == "int":
            call["n"] = rng.choice([0, 1, 64, rng.randrange(65)])
        elif form == "tuple":
            lo = hot_addr(rng)
            call["lo"], call["hi"] = lo, rng.randrange(lo, 64)
        elif form == "list":
            call["addrs"] = [hot_addr(rng) for _ in range(rng.randrange(0, 12))]
        if n % 2:
            call["history"] = [(rng.choice(addrs) if addrs and rng.random() < 0.6 else rng.randrange(64),
                                rng.randrange(4), rng.choice([1, 2, 3, 4, 6, 32]))
                               for _ in range(rng.randrange(1, 6))]
        sc = {"suite": suite, "bus": bus_line(devs), "call": call}
        end, res, badop, trace = run_scenario(ls, sc)
        judge(corr, suite, sc, end, res, badop, "autodiscover")
        corr.nontrivial(("autodiscover", nd, form, len(trace)))
        corr.bump("autodiscover:devices=%d" % nd)
        n += 1
        if nd in (1, 2, 3, 5) or (T and nd < 12):
            with_faults(ls, corr, suite + "_faults", sc, "autodiscover", len(trace), rng, limit=None if T else 40)
    # a missing / garbled answer at EVERY command position of buses on which every kind of answer occurs
    # (healthy devices with enabled and disabled instances, an unhealthy device, an absent address, an
    # address scanned twice): the fault-dependent post-condition says the affected instance / device is
    # skipped and everything else is recorded.
    for rep in range(4 if T else 2):
        aa = rng.sample(range(64), 5)
        devs = {}
        for a in aa[:3]:
            flags = [True, False, True, True, False][:rng.randrange(2, 6)]
            rng.shuffle(flags)
            flags[0] = True
            devs[a] = rand_dev(rng, insts=[rand_inst(rng, en=e) for e in flags],
                               status=rng.choice([0, 0, 2, 8, 0x20, 0x10]))
        devs[aa[3]] = rand_dev(rng, ninst=2, status=rng.choice([0x04, 0x40, 0x44]))
        order = aa[:]                                  # aa[4] is absent
        rng.shuffle(order)
        if rep % 2 == 1:
            order.append(aa[0])                        # scanned twice
        sc = {"suite": suite, "bus": bus_line(devs), "call": {"kind": "autodiscover", "form": "list", "addrs": order}}
        end, res, badop, trace = run_scenario(ls, sc)
        judge(corr, suite, sc, end, res, badop, "autodiscover")
        corr.nontrivial(("autodiscover-every-fault", rep, len(trace)))
        n += 1
        with_faults(ls, corr, suite + "_faults", sc, "autodiscover", len(trace), rng)
        for t in trace:
            corr.bump("autodiscover-fault-at:" + t[0])
    # bracket: first/last command of the real code (read off the trace) on a mid-size bus
    if trace:
        if trace[0][0] != "StartQuiescentMode" or trace[-1][0] != "StopQuiescentMode":
            corr.violate("autodiscover:bracket", sc, "START ... STOP QUIESCENT MODE", [trace[0][0], trace[-1][0]])
    # a unit that claims more than 32 instances (outside the quantifier; model must still agree)
    devs = {3: rand_dev(rng, ninst=33, status=0)}
    sc = {"suite": suite, "bus": bus_line(devs), "call": {"kind": "autodiscover", "form": "list", "addrs": [3]}}
    end, res, badop, trace = run_scenario(ls, sc)
    if res.get("sync") != "1" or res.get("model", "").replace("~", " ") != end:
        corr.disagree(suite, sc, res.get("answer"), end)
    n += 1
    corr.count(suite, n)
    corr.sample({"suite": suite, "last_bus_devices": len(devs), "outcome": end[:80]})


def replay(ctx, payload):
    v = payload.get("failure", {})
    sc = v.get("input")
    if not isinstance(sc, dict) or "call" not in sc:
        print("replay: nothing to re-run for", sc)
        return True
    ls = LockStep("m_devseq")
    try:
        end, res, badop, trace = run_scenario(ls, sc)
    finally:
        ls.close()
    print("scenario:", sc)
    print("commands sent by the real code:")
    for t in trace:
        print("   %s %d 0x%x -> %s" % t)
    print("real code outcome:", end)
    print("driver verdict:", res.get("answer"))
    return res.get("post", "ok") != "ok" or res.get("sync") != "1" or \
        res.get("model", "").replace("~", " ") != end
