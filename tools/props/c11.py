"""C11 — memory values decode any raw bytes totally and per the DiiA/IEC layout.

Correspondence: the real `dali.memory` value classes (`from_list`, `check_raw`,
`raw_to_value`, `is_valid`, `value_to_raw`) vs the Lean model (m_memval):
EXHAUSTIVE for every value of width 1 and 2 (all raw strings), boundary +
random strings for wider ones; the inverse direction over in-range numbers,
ASCII strings and malformed arguments.

Oracle: every result of the real code is compared with the Lean *reference
interpretation* `Spec.Mem.interpret` on the independently transcribed layout
row (`spec interp`), the declared map with the transcribed rows (`spec row`,
`spec bank`), round trips, overlap and lockability are evaluated directly on
the real classes.  Decimals are compared as normalised (mantissa, exponent)."""
from common import exc_name  # noqa: E402
from decimal import Decimal

from common import Model

ID = "C11"
MODULE = "DaliVerif.Props.C11"
EXES = ["m_memval"]
GEN = True
THEOREMS = ["layout_matches_standard", "banks_match_standard", "no_overlap", "occupied_consistent",
            "lockable_only_in_lock_banks", "mask_patterns_match_width", "be_allOnes", "be_allOnesMinusOne",
            "interpret_per_standard", "interpret_total", "interpret_generic", "mask_exact", "tmask_exact",
            "range_invalid", "scale_byte_invalid", "be_cons", "be_bound", "signedByte_spec",
            "unit_scaled_value", "temperature_value", "decimal_value", "version_byte", "flag_bit",
            "text_value", "roundtrip_number", "roundtrip_string", "roundtrip_declared_numbers",
            "roundtrip_signed", "signed_overflow"]
TRUSTED = ["hand-written model Model/MemValue.lean of check_raw / is_valid / raw_to_value / value_to_raw / "
           "from_list (dali/memory/*.py), tied by this correspondence: exhaustive for every 1- and 2-byte value, "
           "boundary + random raw strings for wider ones",
           "Spec/MemValue.lean (reference interpretation) and Spec/MemoryLayout.lean (memory map) are transcribed "
           "from my knowledge of IEC 62386-102 §9.10.6/7 and DiiA parts 251-253 (documents not available here); "
           "rows marked pinned are a regression baseline only",
           "translator plugin tools/gen/memory.py"]
ASSUMPTIONS = ["raw data are byte values 0..255 and have the value's declared length (what from_list / read_raw "
               "hand to the interpretation)",
               "no declared value is signed (rowOf refuses signed values: the table obligation would fail)"]
PARTIAL = ("round trip proved for plain numbers (unsigned, and the signed two's-complement branch that no declared "
           "value uses but the class offers: roundtrip_signed / signed_overflow, tied through values derived in a "
           "scratch bank) and strings; "
           "value_to_raw of scaled / fixed-scale / temperature / version values is the plain integer encoding in "
           "the library (not an inverse of raw_to_value) and is only tied, not specified; "
           "defaults / reset values of locations are generated but not part of the transcribed layout")


def canon(v):
    from dali.memory.location import FlagValue
    if isinstance(v, FlagValue):
        return "ok flag " + v.name
    if isinstance(v, bool):
        return "ok bool %d" % v
    if isinstance(v, int):
        return "ok int %d" % v
    if isinstance(v, Decimal):
        if not v.is_finite():
            return "ok other"
        sign, digits, exp = v.as_tuple()
        m = int("".join(map(str, digits)) or "0")
        if m == 0:
            return "ok dec 0 0"
        while m % 10 == 0:
            m //= 10
            exp += 1
        return "ok dec %d %d" % (-m if sign else m, exp)
    if isinstance(v, str):
        return ("ok str " + v.encode("utf-8").hex()).rstrip()
    if isinstance(v, (bytes, bytearray)):
        return ("ok bytes " + bytes(v).hex()).rstrip()
    if v is None:
        return "ok none"
    return "ok other"


EXC_MAP = {"UnicodeEncodeError": "ValueError", "UnicodeDecodeError": "ValueError"}


def run(fn, conv=canon):
    try:
        return conv(fn())
    except Exception as e:  # noqa
        n = exc_name(e)
        return "err " + EXC_MAP.get(n, n)


def hx(raw):
    return bytes(raw).hex() if len(raw) else "-"


def table():
    from gen import memory as plug
    bs, vals = plug.table()
    return plug, bs, vals


def raws_for(cls, d, rng, thorough):
    """raw strings for one value: everything for width <= 2, else boundaries + random"""
    n = len(d["locs"])
    if n == 1:
        return [bytes([a]) for a in range(256)], True
    if n == 2:
        return [bytes([a, b]) for a in range(256) for b in range(256)], True
    res = set()
    full = (1 << (8 * n)) - 1

    def add(i):
        if 0 <= i <= full:
            res.add(i.to_bytes(n, "big"))
    for i in (0, 1, 2, 0x7f, 0x80, 0xfd, 0xfe, 0xff, 0x100, full, full - 1, full - 2, full - 3, full >> 1,
              (full >> 1) - 1, (full >> 1) + 1, (full >> 1) + 2, 1 << (8 * (n - 1)), (1 << (8 * (n - 1))) - 1):
        add(i)
    for lim in (d["min_value"], d["max_value"]):
        if lim is not None:
            for k in (-2, -1, 0, 1, 2):
                add(lim + k)
    # scale-byte aware boundaries: every first byte x interesting payloads
    pfull = (1 << (8 * (n - 1))) - 1
    pays = {0, 1, pfull, pfull - 1, pfull - 2, pfull - 3, pfull >> 1, (pfull >> 1) - 1, 258}
    if d["max_value"] is not None:
        pays |= {d["max_value"], d["max_value"] + 1, d["max_value"] - 1}
    for s in range(256):
        for p in pays:
            if 0 <= p <= pfull:
                res.add(bytes([s]) + p.to_bytes(n - 1, "big"))
        res.add(bytes([s]) + rng.randrange(pfull + 1).to_bytes(n - 1, "big"))
    # string-ish patterns
    for fill in (0, 0x20, 0x41, 0x7f, 0x80, 0xff):
        res.add(bytes([fill] * n))
        res.add(bytes([0x41] * (n // 2) + [fill] + [0x42] * (n - n // 2 - 1)))
        res.add(bytes([0x41] * (n - 1) + [fill]))
        res.add(bytes([fill] + [0x41] * (n - 1)))
    res.add(bytes([0x48, 0x69, 0, 0x80] + [0xff] * (n - 4))[:n])
    for _ in range(600 if thorough else 120):
        res.add(bytes(rng.randrange(256) for _ in range(n)))
        t = rng.randrange(n + 1)
        res.add(bytes([rng.randrange(1, 128) for _ in range(t)] + [0] * (n - t)))
    return sorted(res), False


def interp_suite(ctx, corr, plug, vals, model):
    nbatch = 0
    for cls, d in vals:
        key = "%s/%s" % (d["bank"], d["name"])
        addrs = [a for a, _t, _df, _r in d["locs"]]
        raws, exhaustive = raws_for(cls, d, ctx.rng, ctx.thorough)
        size = max(addrs) + 1
        req, impl = [], []
        for raw in raws:
            lst = [None] * size
            for a, b in zip(addrs, raw):
                lst[a] = b
            impl.append(run(lambda: cls.from_list(lst)))
            req.append("interp %s %s %s" % (d["bank"], d["name"], hx(raw)))
        ans = model.batch(req + ["spec " + r for r in req])
        n = len(req)
        bad_m = bad_s = 0
        for i in range(n):
            if ans[i] != impl[i]:
                bad_m += 1
                if bad_m <= 3:
                    corr.disagree("interpret", req[i], ans[i], impl[i])
            if ans[n + i] != impl[i]:
                bad_s += 1
                if bad_s <= 3:
                    corr.violate("mem:%s:interpret" % key, {"value": key, "raw": hx(raws[i])},
                                 ans[n + i], impl[i],
                                 "from_list differs from the reference interpretation (Spec.Mem.interpret)")
            kind = impl[i].split(" ")[1] if impl[i].startswith("ok") else impl[i]
            if impl[i].startswith("ok flag"):
                kind = impl[i][3:]
            corr.bump("interp:" + kind)
        corr.nontrivial((key, "interp"))
        for k in {x.split(" ")[1] + (x.split(" ")[2] if x.startswith("ok flag") else "") for x in impl
                  if x.startswith("ok")}:
            corr.nontrivial((key, k))
        corr.count("interpret(exhaustive<=2 bytes)" if exhaustive else "interpret(boundary+random)", 2 * n)
        nbatch += 1
        # the parts, on a sample: check_raw / is_valid / raw_to_value separately, and from_list with holes
        sample = raws if len(raws) <= 256 else [raws[ctx.rng.randrange(len(raws))] for _ in range(64)]
        req2, impl2 = [], []
        from dali.memory.location import FlagValue
        for raw in sample:
            req2.append("check %s %s %s" % (d["bank"], d["name"], hx(raw)))
            impl2.append(run(lambda: cls.check_raw(raw),
                             lambda f: "ok none" if f is None else "ok " + f.name if isinstance(f, FlagValue)
                             else "ok other"))
            req2.append("r2v %s %s %s" % (d["bank"], d["name"], hx(raw)))
            impl2.append(run(lambda: cls.raw_to_value(raw)))
        for hole in range(min(len(addrs), 3)):
            lst = [7] * size
            lst[addrs[hole]] = None
            req2.append("fromlist %s %s %s" % (d["bank"], d["name"],
                                               ",".join("-" if x is None else str(x) for x in lst)))
            r = run(lambda: cls.from_list(lst))
            impl2.append(r)
            if r != "err MemoryLocationNotImplemented":
                corr.violate("mem:%s:from_list" % key, {"value": key, "list": lst},
                             "MemoryLocationNotImplemented", r, "a missing location must not be interpreted")
        # the bank image may be any sequence of bytes - what read_all builds is a list, an application that keeps
        # a dump has bytes / bytearray / tuple: the interpretation must be the same  (after seeded round 6)
        for raw in (sample if len(sample) <= 24 else [sample[ctx.rng.randrange(len(sample))] for _ in range(24)]):
            filled = [0xEE] * size
            for a, b in zip(addrs, raw):
                filled[a] = b
            want = run(lambda: cls.from_list(list(filled)))
            for fname, form in (("tuple", tuple), ("bytes", bytes), ("bytearray", bytearray),
                                ("memoryview", lambda x: memoryview(bytes(x)))):
                got = run(lambda: cls.from_list(form(filled)))
                if got != want:
                    corr.violate("mem:%s:from_list" % key, {"value": key, "raw": hx(raw), "image": fname},
                                 want, got, "the bank image given as %s must be interpreted like the list" % fname)
            corr.count("from_list(image forms)", 4)
        short = [9] * (max(addrs))
        req2.append("fromlist %s %s %s" % (d["bank"], d["name"], ",".join(map(str, short)) or "-"))
        impl2.append(run(lambda: cls.from_list(short)))
        ans2 = model.batch(req2)
        for r, a, m in zip(req2, impl2, ans2):
            if a != m:
                corr.disagree("parts", r, m, a)
        corr.count("parts(check_raw,raw_to_value,from_list holes)", len(req2))


def wtok(x):
    if isinstance(x, bool):
        return "b:%d" % x
    if isinstance(x, int):
        return "i:%d" % x
    if isinstance(x, str):
        return "s:" + ",".join(str(ord(c)) for c in x)
    return "o"


def inverse_suite(ctx, corr, plug, vals, model):
    rng = ctx.rng
    for cls, d in vals:
        key = "%s/%s" % (d["bank"], d["name"])
        n = len(d["locs"])
        full = (1 << (8 * n)) - 1
        args = [0, 1, 2, 0x7f, 0x80, 0xff, 0x100, full, full - 1, full - 2, full + 1, full >> 1, (full >> 1) + 1,
                -1, -128, -(full >> 1) - 1, -(full >> 1) - 2, True, False, "MASK", "TMASK", "mask", "", "Hi",
                "A" * n, "A" * (n + 1), "A" * max(n - 1, 0), "café", "a\x00b", "\x7f", None, 1.5, b"x"]
        for lim in (d["min_value"], d["max_value"]):
            if lim is not None:
                args += [lim - 1, lim, lim + 1]
        nr = 200 if ctx.thorough else 40
        args += [rng.randrange(full + 1) for _ in range(nr)]
        args += ["".join(chr(rng.randrange(1, 128)) for _ in range(rng.randrange(n + 2))) for _ in range(nr // 2)]
        req, impl = [], []
        for x in args:
            a = run(lambda: cls.value_to_raw(x),
                    lambda b: "ok " + hx(b) if isinstance(b, (bytes, bytearray)) else "ok other")
            req.append("v2r %s %s %s" % (d["bank"], d["name"], wtok(x)))
            impl.append(a)
            # the property's statement, evaluated directly on the real code
            plain_num = d["r2v"] == ".numeric" and d["v2r"] == ".numeric"
            if plain_num and isinstance(x, int) and not isinstance(x, bool) and 0 <= x <= full:
                if not a.startswith("ok "):
                    corr.violate("mem:%s:roundtrip" % key, {"value": key, "number": x},
                                 "%d bytes big-endian" % n, a, "an in-range number must be writable")
                else:
                    raw = bytes.fromhex(a[3:]) if a[3:] != "-" else b""
                    back = run(lambda: cls.raw_to_value(raw))
                    if len(raw) != n or back != "ok int %d" % x:
                        corr.violate("mem:%s:roundtrip" % key, {"value": key, "number": x},
                                     "raw_to_value(value_to_raw(x)) == x", "%s -> %s" % (a, back))
                corr.nontrivial((key, "roundtrip-number"))
            if d["r2v"] == ".string" and d["v2r"] == ".string" and isinstance(x, str) and len(x) <= n \
                    and all(1 <= ord(c) < 128 for c in x):
                back = "?"
                if a.startswith("ok "):
                    raw = bytes.fromhex(a[3:]) if a[3:] != "-" else b""
                    back = run(lambda: cls.raw_to_value(raw))
                if back != canon(x):
                    corr.violate("mem:%s:roundtrip" % key, {"value": key, "string": x},
                                 "raw_to_value(value_to_raw(s)) == s", "%s -> %s" % (a, back))
                corr.nontrivial((key, "roundtrip-string"))
            corr.bump("v2r:" + (a.split(" ")[1] if a.startswith("err") else "ok"))
        ans = model.batch(req)
        for r, a, m in zip(req, impl, ans):
            if a != m:
                corr.disagree("value_to_raw", r, m, a)
        corr.count("value_to_raw", len(req))


def signed_suite(ctx, corr, plug, vals, model):
    """the `signed = True` branch of NumericValue: no declared value sets it, but the class supports it (a vendor
    bank may).  From one declared plain number per width and per (MASK, TMASK) support, a value is DERIVED in a
    scratch bank with the sign flag set; its accessors are compared with the model of the same coding with the flag
    set (`derived … 1 <mask> <tmask>`, patterns as the real metaclass computed them), all raw strings for widths 1
    and 2, boundaries + random otherwise; the two's-complement round trip (theorem `roundtrip_signed`) and the
    refusal of numbers that do not fit (`signed_overflow`) are evaluated on the real code."""
    from dali.memory import location as L
    from dali.memory.location import FlagValue
    rng = ctx.rng
    seen, parents = set(), []
    for cls, d in vals:
        if d["r2v"] == ".numeric" and d["v2r"] == ".numeric" and not d["signed"]:
            k = (len(d["locs"]), d["mask_supported"], d["tmask_supported"], d["min_value"], d["max_value"])
            if k not in seen:
                seen.add(k)
                parents.append((cls, d))
    for cls, d in parents:
        n = len(d["locs"])
        key = "%s/%s[signed]" % (d["bank"], d["name"])
        scratch = L.MemoryBank(242, 0xfe)

        def derive(par=cls, b=scratch, w=n):
            class Derived(par):
                bank = b
                locations = L.MemoryRange(0x10, 0x10 + w - 1, default=0, type_=L.MemoryType.ROM)
                signed = True
            return Derived
        st, D = outcome(derive)
        if st != "ok":
            corr.violate("layout:derive", {"parent": d["name"], "signed": True}, "declared", D)
            continue
        half = 1 << (8 * n - 1)
        m = getattr(D, "mask", None) if d["mask_supported"] else None
        t = getattr(D, "tmask", None) if d["tmask_supported"] else None
        if d["mask_supported"] and m != (half - 1).to_bytes(n, "big"):
            corr.violate("mem:%s:mask" % key, {"value": key}, (half - 1).to_bytes(n, "big").hex(), repr(m),
                         "MASK of a signed value is the largest positive number")
        if d["tmask_supported"] and t != (half - 2).to_bytes(n, "big"):
            corr.violate("mem:%s:tmask" % key, {"value": key}, (half - 2).to_bytes(n, "big").hex(), repr(t))
        pre = "derived %s %s 1 %s %s " % (d["bank"], d["name"], "none" if m is None else hx(m),
                                          "none" if t is None else hx(t))
        raws, exhaustive = raws_for(D, d, rng, ctx.thorough)
        for lim in (d["min_value"], d["max_value"]):
            if lim is not None and n > 2:
                for k2 in (-1, 0, 1):
                    if -half <= lim + k2 < half:
                        raws.append((lim + k2).to_bytes(n, "big", signed=True))
        if exhaustive and n == 2 and not ctx.thorough:
            raws = [r for r in raws if r[1] in (0, 1, 0x7f, 0x80, 0xfe, 0xff) or r[0] in (0, 0x7f, 0x80, 0xff)
                    or rng.random() < 0.05]
        req, impl = [], []
        for raw in raws:
            lst = [None] * 0x10 + list(raw)
            req.append(pre + "interp " + hx(raw))
            impl.append(run(lambda: D.from_list(lst)))
            want = int.from_bytes(raw, "big", signed=True)
            r2 = run(lambda: D.raw_to_value(raw))
            if r2 != "ok int %d" % want:
                corr.violate("mem:%s:raw_to_value" % key, {"value": key, "raw": hx(raw)}, "ok int %d" % want, r2,
                             "a signed number is read as two's complement, big-endian")
        for raw in (raws if len(raws) <= 256 else [raws[rng.randrange(len(raws))] for _ in range(96)]):
            req.append(pre + "check " + hx(raw))
            impl.append(run(lambda: D.check_raw(raw),
                            lambda f: "ok none" if f is None else "ok " + f.name if isinstance(f, FlagValue)
                            else "ok other"))
            req.append(pre + "r2v " + hx(raw))
            impl.append(run(lambda: D.raw_to_value(raw)))
        args = [0, 1, -1, 127, 128, -128, -129, 255, 256, half - 1, half, half - 2, -half, -half - 1, -half + 1,
                2 * half - 1, 2 * half, True, False, "MASK", "TMASK", "x", None, 1.5]
        args += [rng.randrange(-half - 3, half + 3) for _ in range(200 if ctx.thorough else 60)]
        for x in args:
            a = run(lambda: D.value_to_raw(x),
                    lambda b: "ok " + hx(b) if isinstance(b, (bytes, bytearray)) else "ok other")
            req.append(pre + "v2r " + wtok(x))
            impl.append(a)
            if isinstance(x, int) and not isinstance(x, bool):
                if -half <= x < half:
                    back = "?"
                    if a.startswith("ok "):
                        raw = bytes.fromhex(a[3:]) if a[3:] != "-" else b""
                        back = run(lambda: D.raw_to_value(raw)) if len(raw) == n else "wrong length"
                    if back != "ok int %d" % x:
                        corr.violate("mem:%s:roundtrip" % key, {"value": key, "number": x},
                                     "raw_to_value(value_to_raw(x)) == x", "%s -> %s" % (a, back))
                    corr.nontrivial((key, "roundtrip-signed"))
                elif a != "err OverflowError":
                    corr.violate("mem:%s:overflow" % key, {"value": key, "number": x}, "err OverflowError", a,
                                 "a number that does not fit the signed width must be refused")
        ans = model.batch(req)
        bad = 0
        for r, a, mm in zip(req, impl, ans):
            if a != mm:
                bad += 1
                if bad <= 3:
                    corr.disagree("signed", r, mm, a)
        corr.count("signed-derived(exhaustive 1 byte, boundary+random wider)", len(req))
    corr.count("signed parents", len(parents))


KIND = {".plain": "raw", ".numeric": "number", ".scaled": "unitScaled", ".string": "text", ".binary": "flagBit",
        ".version": "version", ".cct": "cct", ".lightDist": "lightDist"}


def row_of(d):
    """the layout row of a real value class, in the format of `spec row`"""
    addrs = [a for a, _t, _df, _r in d["locs"]]
    if d["r2v"] == ".fixedScale":
        m, e, dec = d["scale"]
        kind = "decimal:%d:%d" % (m, e) if dec else "times:%d" % m
    elif d["r2v"] == ".temperature":
        kind = "temperature:%d" % d["offset"]
    else:
        kind = KIND.get(d["r2v"], d["r2v"])
    contiguous = addrs == list(range(addrs[0], addrs[0] + len(addrs)))
    return ("ok first=%d width=%d access=%s kind=%s mask=%d tmask=%d min=%s max=%s" % (
        addrs[0], len(addrs), ",".join((t or ".unknown")[1:] for _a, t, _df, _r in d["locs"]), kind,
        d["mask_supported"], d["tmask_supported"],
        "-" if d["min_value"] is None else d["min_value"], "-" if d["max_value"] is None else d["max_value"])
        + ("" if contiguous else " NOT-CONTIGUOUS"))


def layout_suite(ctx, corr, plug, bs, vals, model):
    from dali.memory.location import MemoryType
    listed = model.batch(["spec rows"])[0].split()[1:]
    have = ["%s/%s" % (d["bank"], d["name"]) for _c, d in vals]
    for k in have:
        if k not in listed:
            corr.violate("mem:%s:layout" % k, {"value": k}, "a value of the transcribed memory map", "not in the map")
    for k in listed:
        if k not in have:
            corr.violate("mem:%s:layout" % k, {"value": k}, "declared by the library", "missing")
    ans = model.batch(["spec row %s %s" % (d["bank"], d["name"]) for _c, d in vals])
    for (cls, d), a in zip(vals, ans):
        k = "%s/%s" % (d["bank"], d["name"])
        r = row_of(d)
        if a != "ok absent" and a != r:
            corr.violate("mem:%s:layout" % k, {"value": k}, a, r,
                         "declared location / width / access / encoding differs from the transcribed map")
        # mask patterns match width (sign- and scale-byte aware), on the real class
        n = len(d["locs"]) + d["mask_length_adjust"]
        if d["mask_supported"]:
            want = ((1 << (8 * n - 1)) - 1 if d["signed"] else (1 << (8 * n)) - 1).to_bytes(n, "big")
            if getattr(cls, "mask", None) != want:
                corr.violate("mem:%s:mask" % k, {"value": k}, want.hex(), repr(getattr(cls, "mask", None)))
        if d["tmask_supported"]:
            want = ((1 << (8 * n - 1)) - 2 if d["signed"] else (1 << (8 * n)) - 2).to_bytes(n, "big")
            if getattr(cls, "tmask", None) != want:
                corr.violate("mem:%s:tmask" % k, {"value": k}, want.hex(), repr(getattr(cls, "tmask", None)))
        corr.count("layout", 1)
    bans = model.batch(["spec bank " + key for key, _b in bs])
    for (key, b), a in zip(bs, bans):
        la = b.LastAddress.locations[0].default
        r = "ok address=%d last=%s lock=%d latch=%d" % (b.address, "-" if la is None else la, b.has_lock, b.has_latch)
        if a != r:
            corr.violate("mem:%s:bank" % key, {"bank": key}, a, r, "bank declaration differs from the transcribed map")
        # no overlap / lockability / the bank's own table, evaluated on the real objects
        seen = {}
        for cls in b.values:
            for loc in cls.locations:
                if loc.address in seen:
                    corr.violate("mem:%s:overlap" % key, {"bank": key, "address": loc.address},
                                 "one value per location", "%s and %s" % (seen[loc.address], cls.__name__))
                seen[loc.address] = cls.__name__
                if loc.type_ == MemoryType.NVM_RW_L and not b.has_lock:
                    corr.violate("mem:%s:lockable" % key, {"bank": key, "address": loc.address},
                                 "lockable locations only in banks with a lock byte", cls.__name__)
                e = b.locations.get(loc.address)
                if e is None or e.memory_value is not cls:
                    corr.violate("mem:%s:table" % key, {"bank": key, "address": loc.address},
                                 cls.__name__, repr(e))
        for a_, e in b.locations.items():
            if e is not None and a_ not in seen:
                corr.violate("mem:%s:table" % key, {"bank": key, "address": a_}, "owned by a registered value",
                             repr(e))
        corr.count("layout", 1)


def declaration_suite(ctx, corr):
    """'no two values overlap, and lockable locations only exist in banks that have a lock byte' is ENFORCED
    when a value is declared: in scratch banks of every kind (no lock byte, latch only, lock only, lock + latch)
    a value that overlaps an existing one, or that declares a lockable location in a bank without a lock, must be
    refused; the legal declarations must be accepted and appear in the bank's map."""
    from dali.memory import location as L
    n = 0
    kinds = [("plain", dict()), ("latch-only", dict(has_latch=True)), ("lock-only", dict(has_lock=True)),
             ("lock+latch", dict(has_lock=True, has_latch=True))]
    for kname, kw in kinds:
        for typ in L.MemoryType:
            bank = L.MemoryBank(240, 0x20, **kw)
            lockable = typ == L.MemoryType.NVM_RW_L
            legal = (not lockable) or bool(kw.get("has_lock"))

            def declare(addr_from, addr_to, t=typ, b=bank):
                class Scratch(L.NumericValue):
                    bank = b
                    locations = L.MemoryRange(addr_from, addr_to, default=0, type_=t)
                return Scratch
            st, r = outcome(lambda: declare(0x05, 0x07))
            desc = {"bank": kname, "type": str(typ), "declare": "3 locations 0x05..0x07"}
            if legal and st != "ok":
                corr.violate("layout:declare", desc, "accepted", r, "a legal declaration is refused")
            if not legal and (st == "ok" or r != "LockingNotSupported"):
                corr.violate("layout:declare-lockable", desc, "LockingNotSupported", "accepted" if st == "ok" else r,
                             "a lockable location was declared in a bank that has no lock byte")
            if legal and st == "ok":
                ent = bank.locations.get(0x06)
                if ent is None or ent.memory_value is not r:
                    corr.violate("layout:declare", desc, "location 0x06 belongs to the new value", repr(ent))
                # a second value over one of those locations, and over the bank's own header bytes
                for a, b2 in ((0x07, 0x08), (0x04, 0x05), (0x00, 0x00)) + (((0x02, 0x02),) if kw else ()):
                    st2, r2 = outcome(lambda: declare(a, b2, t=L.MemoryType.ROM))
                    if st2 == "ok" or r2 != "MemoryLocationOverlap":
                        corr.violate("layout:declare-overlap", dict(desc, second="0x%02x..0x%02x" % (a, b2)),
                                     "MemoryLocationOverlap", "accepted" if st2 == "ok" else r2,
                                     "two values share a location")
            n += 1
    corr.count("declaration", n)
    # a value DERIVED from a declared one (a vendor bank re-using a coding) is a value of its own: it is decoded
    # from its own locations, whatever was decoded through its parent before
    from dali.memory import oem, info, diagnostics, energy
    import random as _r
    rr = _r.Random(11)
    parents = [v for v in (getattr(oem, "ManufacturerGTIN", None), getattr(info, "GTIN", None),
                           getattr(oem, "LuminaireColor", None), getattr(diagnostics, "LightSourceVoltage", None),
                           getattr(info, "IdentificationNumber", None), getattr(energy, "ActiveEnergy", None))
               if v is not None]
    for parent in parents:
        w = len(parent.locations)
        p0 = parent.locations[0].address
        img = [rr.randrange(1, 250) for _ in range(256)]
        st0, before = outcome(lambda: parent.from_list(list(img)))
        scratch = L.MemoryBank(241, 0xfe)
        start = 0x80 if p0 < 0x60 else 0x10

        def derive(par=parent, b=scratch, a0=start, n=w):
            class Derived(par):
                bank = b
                locations = L.MemoryRange(a0, a0 + n - 1, default=0, type_=L.MemoryType.ROM)
            return Derived
        st, child = outcome(derive)
        if st != "ok":
            corr.violate("layout:derive", {"parent": parent.name}, "declared", child)
            continue
        moved = list(img)
        moved[p0:p0 + w] = img[start:start + w]          # the child's own bytes, placed where the parent reads
        st1, want = outcome(lambda: parent.from_list(moved))
        st2, got = outcome(lambda: child.from_list(list(img)))
        if (st1, repr(want)) != (st2, repr(got)):
            corr.violate("layout:derived-value", {"parent": parent.name, "derived at": "0x%02x..0x%02x" % (start, start + w - 1),
                                                  "bytes": img[start:start + w]},
                         "%s %r" % (st1, want), "%s %r" % (st2, got),
                         "a derived value must be decoded from its own locations")
        n += 1
    corr.count("derived", len(parents))


def outcome(thunk):
    try:
        return "ok", thunk()
    except Exception as e:  # noqa
        return "err", exc_name(e)


def correspond(ctx, corr):
    if not ctx.model_available:
        raise RuntimeError("m_memval not built")
    model = Model("m_memval")
    plug, bs, vals = table()
    corr.rule.append(
        "every declared value (%d in %d banks): ALL raw strings for width 1 and 2 (exhaustive), for wider values "
        "all-ones / all-ones-1 / sign boundary / min-1..max+1 / every first (scale) byte x payload boundaries / "
        "NUL, non-ASCII and full-length string patterns / random strings; from_list vs model `interp` and vs the "
        "reference `spec interp`; check_raw, raw_to_value and from_list-with-holes on samples; value_to_raw on "
        "boundary and random numbers, ASCII / non-ASCII / over-long strings and non-numeric arguments with the "
        "round trip evaluated on the real code; the declared map against the transcribed rows; "
        "non-trivial = distinct (value, result kind) pairs" % (len(vals), len(bs)))
    listed = model.batch(["values"])[0].split()[1:]
    if listed != ["%s/%s" % (d["bank"], d["name"]) for _c, d in vals]:
        corr.disagree("value-list", "values", listed, "differs from the import in this process")
    layout_suite(ctx, corr, plug, bs, vals, model)
    declaration_suite(ctx, corr)
    interp_suite(ctx, corr, plug, vals, model)
    inverse_suite(ctx, corr, plug, vals, model)
    signed_suite(ctx, corr, plug, vals, model)
    corr.exhaustive["interpret: every value of width 1 and 2, all raw strings"] = True
    corr.exhaustive["layout: every declared value and bank"] = True
    from dali.memory import energy
    corr.sample({"suite": "interpret", "request": "interp energy.BANK_202 ActiveEnergy fd000000000102",
                 "impl": run(lambda: energy.ActiveEnergy.from_list([None] * 4 + [0xfd, 0, 0, 0, 0, 1, 2]))})


def replay(ctx, payload):
    v = payload.get("failure", {})
    inp = v.get("input", {})
    if not isinstance(inp, dict) or not ("value" in inp or "bank" in inp):
        print("nothing to replay in this file (no failing input recorded)")
        return True
    plug, bs, vals = table()
    model = Model("m_memval")

    class C:
        def __init__(self):
            self.v = []
        def violate(self, *a):
            self.v.append(a)
        def count(self, *a):
            pass
    c = C()
    if "raw" in inp:
        for cls, d in vals:
            if "%s/%s" % (d["bank"], d["name"]) == inp["value"]:
                raw = bytes.fromhex(inp["raw"]) if inp["raw"] != "-" else b""
                addrs = [a for a, _t, _df, _r in d["locs"]]
                lst = [None] * (max(addrs) + 1)
                for a, b in zip(addrs, raw):
                    lst[a] = b
                impl = run(lambda: cls.from_list(lst))
                spec = model.batch(["spec interp %s %s %s" % (d["bank"], d["name"], inp["raw"])])[0]
                print("input:", inp, "\nimplementation:", impl, "\nreference:", spec)
                return impl != spec
        print("value no longer declared")
        return True
    if "number" in inp or "string" in inp:
        for cls, d in vals:
            if "%s/%s" % (d["bank"], d["name"]) == inp["value"]:
                x = inp.get("number", inp.get("string"))
                a = run(lambda: cls.raw_to_value(cls.value_to_raw(x)))
                print("input:", inp, "\nround trip:", a)
                return a != canon(x)
        return True
    layout_suite(ctx, c, plug, bs, vals, model)
    hits = [x for x in c.v if x[1] == inp or x[1].get("value") == inp.get("value", "?")
            or x[1].get("bank") == inp.get("bank", "?")]
    for k, i, exp, obs, *_ in hits[:5]:
        print("input:", i, "\nexpected:", exp, "\nobserved:", obs)
    return bool(hits)


LEVEL_TEXT = ("Lean 4 theorems: the memory map regenerated from the working tree equals the independently transcribed "
              "map row by row (bank, first location, width, access type per location, encoding kind and parameters, "
              "range, MASK/TMASK support, mask byte patterns; kernel evaluation on every run), banks match, no two "
              "values overlap, lockable locations only in lockable banks; for ANY value record whose row can be read "
              "off, the model of check_raw-or-raw_to_value equals the reference interpretation on every raw string of "
              "its length (interpret_generic, no enumeration), hence every declared value is interpreted totally and "
              "per the documented encoding; the reference interpretation recognises MASK/TMASK exactly (scale-byte "
              "aware), turns out-of-range numbers into Invalid, and follows the big-endian / power-of-ten / -60 degC / "
              "x.y / NUL-terminated ASCII encodings; value_to_raw -> raw_to_value is the identity for in-range plain "
              "numbers and ASCII strings. Unbounded in raw length and value width.")
LEVEL_NOTE = ("Trusted: Lean kernel; axioms propext/Classical.choice/Quot.sound; the hand-written model "
              "Model/MemValue.lean (exhaustive tie for 1- and 2-byte values, boundary + random beyond); "
              "Spec/MemValue.lean and Spec/MemoryLayout.lean are my transcription of IEC 62386-102 and DiiA 251-253 "
              "(documents not available in the sandbox; pinned rows marked); the reflection-based translator; CPython "
              "and decimal (28-digit context, exact for these magnitudes).")
TECHNIQUE = ("Lean 4 proof (generic model = reference-decoder theorem + kernel-evaluated table equality against a "
             "transcribed memory map) + exhaustive/sampled model-vs-code correspondence + reference interpretation "
             "evaluated against the real code's results")
