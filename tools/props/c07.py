"""C07 — commissioning terminates and assigns distinct, permitted short addresses.

Lock-step: the real `Commissioning` generator (and `_find_next` inside it) of
dali/sequences.py against the Lean specification bus (m_gearseq): every
yielded command / progress / sleep object is checked against the Lean model of
the sequence, the bus (IEC 62386-102 random addressing, per-unit draw streams,
store / verify faults) answers, and at the end the property's clauses
(Spec/GearComm.lean `commCheck`) are evaluated on what the real code did."""
from props import gearseq_lib as L

ID = "C07"
MODULE = "DaliVerif.Props.C07"
EXES = ["m_gearseq"]
GEN = True
THEOREMS = ["findNext_spec", "findNext_run", "findNext_run_full", "commissioning_ends_with_terminate",
            "commissioning_all_disabled", "bus_counts", "findNext_on_bus", "inner_step", "round_inv",
            "commissioning_addresses", "commissioning_count", "commissioning_raise", "unconfirmed_verify_raises",
            "commissioning_bound", "commissioning_terminates", "commissioning_holds", "commissioning_others",
            "commissioning_dry", "commissioning_spec", "commissioning_spec_separating",
            "cmd_sendtwice_gen", "cmd_frames_gen"]
TRUSTED = ["hand-written models Model/GearSeq.lean of _find_next and Commissioning (dali/sequences.py), tied by "
           "lock-step execution of the real generator (every command, progress and sleep object)",
           "specification bus Spec/GearBus.lean: my reading of IEC 62386-102 random addressing (INITIALISE, RANDOMISE, "
           "COMPARE, WITHDRAW, SEARCHADDR, PROGRAM / VERIFY SHORT ADDRESS act as in DESIGN Appendix A; RANDOMISE and "
           "PROGRAM SHORT ADDRESS also act on withdrawn units); clause checker Spec/GearComm.lean"]
ASSUMPTIONS = ["two or more simultaneous YES answers are seen as a framing error (physical collision detection)",
               "the permitted list is duplicate-free and within 0..63",
               "random addresses and all future draws are 24-bit (hypothesis WF of the bus theorems)",
               "clashing units eventually draw different random addresses (otherwise the real loop does not end; "
               "hypothesis of commissioning_terminates: the participants' draws of some round are pairwise distinct)"]
PARTIAL = ("every clause of the property is now a Lean theorem about the model run against the specification bus, for "
           "every bus size, population and random-draw stream (commissioning_spec: commCheck ... = [] for every run "
           "that does not exhaust the model's round budget, i.e. whose last round is clash-free; "
           "commissioning_terminates: that is the case once the participants' draws of some round are pairwise "
           "distinct). What stays outside the proof: the tie model = code is the sampled lock-step run; the Python "
           "loop is unbounded where the model follows `rounds` rounds; random addresses and draws are assumed 24-bit "
           "and the permitted list duplicate-free within 0..63. Deliberately not claimed (DESIGN par. 6): final "
           "addresses of participants pairwise distinct after two or more rounds (false: the re-draw hazard, an "
           "example in Props/C07.lean); the single-round case is commissioning_holds.")
LEVEL_TEXT = ("Lean 4 theorems about the model of _find_next / Commissioning run against the specification bus, for every "
              "bus size and every random-draw stream (induction on the loop budgets, no bound, no sampling): the search "
              "returns the least enabled random address / clash / none (findNext_spec, findNext_run, bus_counts, "
              "findNext_on_bus); one iteration programs, verifies and withdraws exactly the unit found (inner_step); "
              "one round (round_inv); the whole sequence ends with TERMINATE with every unit DISABLED, hands out "
              "pairwise distinct, permitted, unused addresses in list order, min(#participants, #permitted left) of "
              "them, leaves non-participants alone, changes nothing in a dry run, raises only "
              "ProgramShortAddressFailure (exactly after an unconfirmed VERIFY; needs a faulty unit), stays within "
              "rounds*(n+1)*202+140 commands, after a single round the participants hold exactly the addresses handed "
              "out, and it terminates once the participants' draws of some round are pairwise distinct; packaged as "
              "commissioning_spec: the clause checker commCheck returns [] on every such run.")
LEVEL_NOTE = ("Trusted beyond the kernel: the specification bus (my reading of IEC 62386-102), the clause checker, and the "
              "sampled lock-step tie model = code (0..70 units, duplicates, permitted sets 0/1/63/64, engineered clash "
              "streams, faults at every position).")
TECHNIQUE = ("Lean 4 proof (induction on the search interval and on the loop budgets; simulation bus ~ counting "
             "environment; per-unit views; trace-class lemmas over the resumption program) + "
             "lock-step model-vs-code correspondence and property-clause evaluation against the Lean specification bus")

HI = 0xFFFFFF


def key_of(sc):
    return "comm:%s" % sc.get("class", "general")


def make_bus(shorts, draws, faults=None):
    bus = []
    for i, s in enumerate(shorts):
        kw = dict(s=s, d=draws[i])
        if faults and i in faults:
            kw[faults[i]] = 1
        bus.append(L.unit(**kw))
    return bus


def distinct_draws(rng, n, pool=None):
    if pool is not None:
        return rng.sample(pool, n)
    vals = set()
    while len(vals) < n:
        vals.add(rng.choice([rng.randrange(HI + 1), rng.randrange(0, 300), HI - rng.randrange(0, 300)]))
    l = list(vals)
    rng.shuffle(l)
    return l


def correspond(ctx, corr):
    sess = L.Session()
    try:
        _correspond(ctx, corr, sess, ctx.rng)
    finally:
        sess.close()


def _correspond(ctx, corr, sess, rng):
    corr.rule.append(
        "lock-step runs of the real Commissioning generator against the Lean specification bus: 0..70 units; all "
        "unaddressed / all addressed / mixed / duplicate addresses / more than 64 units; permitted lists None, [], one "
        "element, 63 and 64 elements, shuffled subsets; both readdress modes x dry-run on/off; per-unit draw streams "
        "engineered for clashes at a leaf (equal values), adjacent values, 0 and 0xFFFFFF, repeated clashes in a "
        "2-value space over several rounds, a re-draw equal to an already withdrawn unit's address; does-not-store / "
        "does-not-verify faults at every unit position of small buses; every yielded command, progress and sleep is "
        "compared with the model; non-trivial = distinct (units, participants, rounds, mode, outcome, clause) classes")
    cap = 40000

    def run(sc, suite="commissioning"):
        if sc.get("avail") is not None and "avail_form" not in sc:
            # the permitted set arrives as a list, a tuple, a one-shot iterator, a generator or a dict view
            sc = dict(sc, avail_form=rng.choice(["list", "list", "tuple", "iter", "generator", "dictkeys"]))
        res = sess.run(sc, rng=rng, cap=cap)
        L.judge(corr, suite, key_of(sc), sc, res)
        corr.nontrivial((sc["class"], len(sc["bus"]), sc["readdress"], sc["dry"], res["result"], res["n"] // 500))
        corr.bump("comm:" + sc["class"])
        return res

    sizes = [0, 1, 2, 3, 5, 8, 13, 20] + ([40, 64, 65, 70] if ctx.thorough else [64, 66])
    avails = [None, [], [5], list(range(63)), list(range(64)), [63, 0, 31], list(range(10, 20))]
    # ---- structured populations -------------------------------------------------------
    for n in sizes:
        pops = {
            "unaddressed": [None] * n,
            "addressed": [i % 64 for i in range(n)],
            "mixed": [None if i % 2 else (i * 3) % 64 for i in range(n)],
            "duplicates": [None if i % 3 == 0 else (i // 3) % 4 for i in range(n)],
        }
        for pname, shorts in pops.items():
            combos = [(0, 0), (1, 0), (0, 1), (1, 1)]
            if n >= 40:
                combos = [(0, 0), (1, 0)] if pname in ("unaddressed", "addressed") else [(rng.randrange(2), 0)]
            for re, dry in combos:
                av = rng.choice(avails) if n < 40 else rng.choice([None, list(range(64)), list(range(63))])
                if av is not None and rng.random() < 0.5:
                    av = list(av)
                    rng.shuffle(av)
                draws = [[d] for d in distinct_draws(rng, n)]
                sc = {"kind": "comm", "class": pname, "avail": av, "readdress": re, "dry": dry,
                      "bus": make_bus(shorts, draws)}
                run(sc)
    # permitted sets of size 0, 1, 63, 64 against more units than addresses
    for av in ([], [7], list(range(63)), list(range(64))):
        for n in (2, 66 if ctx.thorough else 5):
            draws = [[d] for d in distinct_draws(rng, n)]
            sc = {"kind": "comm", "class": "permitted%d" % len(av), "avail": av, "readdress": 1, "dry": 0,
                  "bus": make_bus([None] * n, draws)}
            run(sc)
    # ---- engineered clash streams -----------------------------------------------------
    nclash = 60 if ctx.thorough else 14
    for k in range(nclash):
        n = rng.choice([2, 3, 4, 6, 9])
        shorts = [None if rng.random() < 0.7 else rng.randrange(64) for _ in range(n)]
        rounds = rng.randrange(1, 4)
        draws = [[] for _ in range(n)]
        style = ["leaf", "adjacent", "extremes", "tiny", "hazard"][k % 5]
        for r in range(rounds):
            if style == "leaf":
                v = rng.randrange(HI + 1)
                col = [v if i < 2 else w for i, w in enumerate(distinct_draws(rng, n))]
            elif style == "adjacent":
                v = rng.randrange(1, HI)
                col = [v, v, v + 1] + distinct_draws(rng, n)
            elif style == "extremes":
                col = [rng.choice([0, HI]) for _ in range(n)]
            elif style == "tiny":
                col = [rng.randrange(2) for _ in range(n)]
            else:
                # first the low unit is found and withdrawn, the two high ones clash;
                # in the next round the withdrawn unit re-draws the address of a unit found later
                col = [5, 1000, 1000] + [2000 + i for i in range(n)]
            col = col[:n]
            for i in range(n):
                draws[i].append(col[i])
        final = distinct_draws(rng, n)
        if style == "hazard" and n >= 3:
            final = [777, 777 + 1, 777] + [3000 + i for i in range(n)]
            final = final[:n]
            # unit 0 (withdrawn in round 1) re-draws unit 2's new address; units 1,2 now differ
            draws[0][-1] = 5
        for i in range(n):
            draws[i].append(final[i])
        re, dry = rng.randrange(2), (1 if k % 7 == 0 else 0)
        sc = {"kind": "comm", "class": "clash-" + style, "avail": rng.choice([None, list(range(64)), [3, 1, 2]]),
              "readdress": re, "dry": dry, "bus": make_bus(shorts, draws)}
        run(sc, "clashes")
    # ---- faults at every position ------------------------------------------------------
    for n in (1, 2, 3, 4):
        for pos in range(n):
            for fault in ("ns", "nv"):
                for re in (0, 1):
                    draws = [[d] for d in distinct_draws(rng, n)]
                    sc = {"kind": "comm", "class": "fault-" + fault, "avail": None, "readdress": re, "dry": 0,
                          "bus": make_bus([None] * n, draws, {pos: fault})}
                    res = run(sc, "faults")
                    if res["result"] != "err ProgramShortAddressFailure":
                        corr.violate("comm:fault-silent", sc, "ProgramShortAddressFailure", res["result"],
                                     "a unit that does not confirm its address must raise ProgramShortAddressFailure")
                sc = {"kind": "comm", "class": "fault-dry", "avail": None, "readdress": 1, "dry": 1,
                      "bus": make_bus([None] * n, [[d] for d in distinct_draws(rng, n)], {pos: "ns"})}
                run(sc, "faults")
    # ---- random -------------------------------------------------------------------------
    for _ in range(200 if ctx.thorough else 25):
        n = rng.randrange(0, 12)
        shorts = [rng.choice([None, None, rng.randrange(64), rng.randrange(4)]) for _ in range(n)]
        rounds = rng.randrange(0, 3)
        pool = list(range(rng.choice([2, 5, 1000])))
        draws = [[rng.choice(pool) for _ in range(rounds)] for _ in range(n)]
        fin = distinct_draws(rng, n)
        for i in range(n):
            draws[i].append(fin[i])
        av = rng.choice([None, sorted(rng.sample(range(64), rng.randrange(0, 65)))])
        if av and rng.random() < 0.5:
            rng.shuffle(av)
        sc = {"kind": "comm", "class": "random", "avail": av, "readdress": rng.randrange(2),
              "dry": int(rng.random() < 0.25), "bus": make_bus(shorts, draws)}
        run(sc, "random")
    corr.sample({"suite": "clashes", "example": "units drawing [5],[1000,777],[1000,778]: round 1 finds 5, clashes at "
                 "1000, re-randomises; round 2 finds 777 and 778"})


def replay(ctx, payload):
    sc = payload.get("failure", {}).get("input")
    if not isinstance(sc, dict) or "kind" not in sc:
        print("replay: no scenario recorded; run the quick check")
        return True
    return L.replay_scenario(sc)
