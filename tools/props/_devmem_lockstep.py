"""Lock-step runner shared by c09.py / c10.py / c13.py (builder devmem).

Drives a real python-dali generator against a Lean specification unit that
lives inside a stateful model driver (m_devseq / m_memseq).  Every yielded
command goes to the driver as `cmd <ClassName> <bits> <frame>`; the driver
answers with the specification unit's response (none / byte n / err), which is
wrapped in the command's real response class and sent into the generator."""
from common import exc_name  # noqa: E402
from common import Model, InfraError


class LockStep:
    def __init__(self, exe):
        self.m = Model(exe).start()
        self.exe = exe

    def close(self):
        self.m.close()

    def ask(self, line):
        a = self.m.ask(line)
        return a

    def setup(self, lines):
        for l in lines:
            a = self.m.ask(l)
            if a != "ok":
                raise InfraError("%s rejected setup line %r: %s" % (self.exe, l, a))

    def drive(self, gen, canon, max_cmds=20000):
        """Run generator `gen` to completion.  Returns (end_token, trace, badop)
        where end_token is 'ok <value token>' or 'err <Class>', trace the list of
        (name, bits, frame, answer) and badop the first command the driver
        refused (None if none)."""
        from dali.command import Command
        from dali.frame import BackwardFrame, BackwardFrameError
        trace = []
        badop = None
        resp = None
        n = 0
        try:
            while True:
                try:
                    cmd = gen.send(resp)
                except StopIteration as s:
                    return "ok " + canon(s.value), trace, badop
                resp = None
                if not isinstance(cmd, Command):
                    continue            # progress / sleep objects: drivers answer None
                n += 1
                if n > max_cmds:
                    gen.close()
                    return "err NonTermination", trace, badop
                name = type(cmd).__name__
                bits, fr = len(cmd.frame), cmd.frame.as_integer
                a = self.m.ask("cmd %s %d %d" % (name, bits, fr))
                trace.append((name, bits, fr, a))
                if a.startswith("bad-op"):
                    if badop is None:
                        badop = "%s:%d:%d" % (name, bits, fr)
                    a = "none"
                if cmd.response is None:
                    resp = None
                elif a == "none":
                    resp = cmd.response(None)
                elif a == "err":
                    # a framing error is reported with SOME data byte: what two colliding answers happened to leave
                    # on the bus.  Often the very byte the command carries (two units echoing the same written
                    # byte), else 255 / 0 / anything - nothing may be read out of a garbled frame
                    # (a function of the position in THIS run, so that a replay meets the same byte)
                    eb = (fr & 0xFF, 255, fr & 0xFF, 0, (fr * 7 + n) & 0xFF)[n % 5]
                    resp = cmd.response(BackwardFrameError(eb))
                elif a.startswith("byte "):
                    resp = cmd.response(BackwardFrame(int(a[5:])))
                else:
                    raise InfraError("driver answered %r" % a)
        except InfraError:
            raise
        except BaseException as e:  # noqa
            if isinstance(e, (KeyboardInterrupt, SystemExit)):
                raise
            return "err " + exc_name(e), trace, badop

    def finish(self, end_token):
        """send `end …`; returns dict(sync=…, model=…, post=…)"""
        a = self.m.ask("end " + end_token)
        if not a.startswith("ok "):
            return {"sync": "driver:" + a, "model": "-", "post": "ok", "answer": a}
        d = {"answer": a}
        for part in a.split()[1:]:
            k, _, v = part.partition("=")
            d[k] = v
        return d


def judge(corr, suite, scenario, end_token, res, badop, key, note=""):
    """Record the verdicts of one lock-step run.  Returns True if clean."""
    clean = True
    model = res.get("model", "-").replace("~", " ")
    if badop is not None:
        corr.disagree(suite, scenario, "command outside the modelled set", badop)
        clean = False
    elif res.get("sync") != "1":
        corr.disagree(suite, scenario, "model expected " + res.get("sync", "?"), "impl: " + end_token)
        clean = False
    elif model != end_token:
        corr.disagree(suite, scenario, model, end_token)
        clean = False
    post = res.get("post", "ok")
    if post != "ok":
        corr.violate(key, scenario, "specification unit post-condition", post.replace("~", " ") +
                     " | real code returned: " + end_token, note)
        clean = False
    return clean
