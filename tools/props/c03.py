"""C03 — emitted frames and command flags conform to the IEC 62386 tables.

Oracle: every concrete class of the real library vs the hand-transcribed
standard rows (`Spec.commandRows`, served by the model driver): flags (send
twice, answer none / yes-no / value, device type), and the frame of the real
object for legal arguments vs the frame computed from the standard row alone;
conversely the standard's frame decodes to the class of that name."""
from common import exc_name  # noqa: E402
from props import cmdcommon as cc
from props.c02 import family, qn

ID = "C03"
MODULE = "DaliVerif.Props.C03"
EXES = ["m_cmd"]
GEN = True
# tie by translation (DESIGN.md II.8): the frame-assembling constructors of 276 command classes and dali/address.py
TIE_MODULES = ["DaliVerif.Tie.Command", "DaliVerif.Tie.Address", "DaliVerif.Tie.Event", "DaliVerif.Tie.Special"]
TIE_THEOREMS = ["Tie.Command.%s" % n for n in
                ("stdNoParam_tie", "stdParam_tie", "dapc_tie", "devStd_tie", "devInst_tie",
                 "std_rows_traced", "dev_rows_traced", "inst_rows_traced")] + \
               ["Tie.Event.%s_%s_tie" % (f, sc) for f in ("ev", "evLight", "evOcc")
                for sc in ("device", "deviceInstance", "deviceGroup", "instanceGroup", "inst")] + \
               ["Tie.Special.%s" % n for n in
                ("specialParam_tie", "specialNoParam_tie", "shortSpecial_tie", "shortSpecialMask_tie",
                 "initialiseAddr_tie", "initialiseBroadcastAddr_tie", "initialiseBroadcast_tie",
                 "initialiseUnaddressed_tie", "special_rows_traced", "devSpecial0_tie", "devSpecial1_tie",
                 "devSpecial2_tie", "devSpecial_rows_traced")]
THEOREMS = ["table_conforms", "rows_registered", "frame_is_standard", "frame_is_standard_gen",
            "extended_commands_carry_devicetype", "address_patterns"]
TRUSTED = ["Spec/IEC62386.lean: 322 rows of the IEC 62386 command tables (parts 102, 103, 202, 205, 206, 207, 209, "
           "301, 303, 304) typed from my knowledge of the standards' summary tables - no copy of the standards is in "
           "the sandbox; the send-twice column of part 202 is PINNED (regression baseline, not independent evidence); "
           "+7 rows for library-specific classes",
           "Cmd.frameOf (Proofs/Construct.lean): the standard's bit layouts per frame format",
           "translator plugin tools/gen/commands.py (class attributes by reflection)"]
ASSUMPTIONS = ["DT8 command 246 START AUTO CALIBRATION is recorded as not send-twice as in the library (I suspect, but "
               "cannot confirm, that the standard requires it twice): pinned, not alarmed"]
PARTIAL = "independence of the tables is limited by the absence of the normative documents (see TRUSTED)"
LEVEL_TEXT = ("Lean 4 theorems: the regenerated class rows (opcode, address/instance byte, parameter flag, frame size, "
              "send-twice, answer kind, device type) of every class the standard names EQUAL the transcribed standard rows, and no standard row is missing (table_conforms, "
              "decide +kernel, re-run against the current tree each time); every row is registered for decoding under "
              "its standard opcode (rows_registered); for every legal object of every class the frame built is the "
              "standard's layout and decodes back to that command (frame_is_standard, unbounded in all arguments); "
              "application-extended commands carry device type part-201 (extended_commands_carry_devicetype).")
LEVEL_NOTE = ("Trusted: Lean kernel + 3 axioms; the Spec tables are my transcription of the standards (pinned entries "
              "marked); translator; the constructor/decoder models tied by C01/C02's correspondence."
              " The constructors that assemble the frames (314 command classes incl. all special commands, push-button / light / occupancy events) are also tied by translation of the source on every run (Tie/Command.lean, Tie/Special.lean, Tie/Event.lean).")
TECHNIQUE = "Lean 4: regenerated class table = transcribed IEC tables by decide +kernel; generic frame-layout theorem; per-class code-vs-standard-row comparison + source translation tie (Tie/Command, Tie/Special, Tie/Event, Tie/Address)"


def answer_class(r):
    from dali import command
    if r is None:
        return ""
    if issubclass(r, command.YesNoResponse):
        return "yesno"
    return "value"


def correspond(ctx, corr):
    import dali.gear, dali.device  # noqa
    from dali import command, address as A
    from dali.frame import ForwardFrame
    from dali.device import general as dg
    rng = ctx.rng
    gear, dev = cc.all_addrs()
    insts, reserved = cc.all_insts()
    corr.rule.append(
        "every concrete class: flags (frame size, send-twice, answer none/yes-no/value, device type) vs its standard "
        "row; frames of real objects for all destinations x all 4-bit params / sampled 8-bit params / sampled instance "
        "bytes vs the frame computed from the standard row; the standard's frame decoded by the real from_frame must "
        "give the class of that name. non-trivial = distinct classes and families")
    classes = sorted(__import__('gen._registry', fromlist=['x']).all_commands()[0], key=qn)
    spec_names = set(cc.run_model("m_cmd", ["spec rows"])[0].split())
    lib_names = set(qn(c) for c in classes)
    for n in sorted(spec_names - lib_names):
        corr.violate("table:missing-class", n, "implemented", "no class of that name",
                     "a command of the standard's tables is not implemented")
    outside = sorted(lib_names - spec_names)
    # a class the transcribed tables do not name cannot be judged by them: listed, never alarmed
    # (its registration and round trip are C01/C02's business: TableOK, no_shared_frame)
    corr.count("classes_outside_the_transcribed_tables", len(outside))
    if outside:
        print("NOTE: %d class(es) the transcribed IEC tables do not name (not judged): %s"
              % (len(outside), ", ".join(outside[:10])))
        corr.sample({"suite": "outside_tables", "classes": outside[:50]})
    lines, wants = [], []      # (line, expected answer, description)
    built = []                 # (object, request line, class name, args)

    def ask(line, want, desc):
        lines.append(line); wants.append((want, desc))

    for c in classes:
        name = qn(c)
        if name not in spec_names:
            continue
        fam = family(c)
        # ---- flags ----
        from gen import _registry as reg      # constants by name, or by probing when the library renamed them
        code = reg.code_of(c)
        code = code if isinstance(code, int) else 0
        row_fam = fam
        if fam == "special":
            row_fam = "special"
        if fam == "devSpecial":
            base = [b.__name__ for b in c.__mro__]
            row_fam = "devSpecial2" if "_SpecialDeviceCommandTwoParam" in base else \
                "devSpecial1" if "_SpecialDeviceCommandOneParam" in base else "devSpecial0"
        if fam == "other":
            row_fam = "unknownGear" if c.__name__ == "UnknownGearCommand" else "unknownDevice"
        sa_, si_ = reg.special_bytes_of(c) if fam == "devSpecial" else (0, 0)
        ab = sa_ if fam == "devSpecial" and isinstance(sa_, int) else 0
        ib = si_ if row_fam in ("devSpecial0", "devSpecial1") and isinstance(si_, int) else 0
        hp = bool(reg.hasparam_of(c))
        want = "%d %s %d %d %d %s %d %s answer=%s" % (reg.framesize_of(c), row_fam, code, ab, ib,
                                                     "true" if hp else "false", c.devicetype,
                                                     "true" if c.sendtwice else "false", answer_class(c.response))
        ask("spec row " + name, want, ("flags", name))
        corr.nontrivial(("class", name))
        corr.nontrivial(("family", row_fam))
        # ---- frames ----
        def fr(build, args, line=None):
            # objects are only BUILT here; their frames are read after every object of every class exists
            # (a command's frame must not depend on commands built later)
            try:
                built.append((build(), line or "spec frame %s %s" % (name, " ".join(args)), name, args))
            except Exception as e:  # noqa
                corr.violate("frame:" + name, args, "constructible", exc_name(e))
        if fam == "std":
            for d in gear:
                if hp:
                    for p in range(16):
                        fr(lambda: c(d, p), [cc.addr_tok(d), str(p)])
                else:
                    fr(lambda: c(d), [cc.addr_tok(d)])
        elif fam == "dapc":
            for d in gear:
                for p in (0, 1, 127, 254, 255, rng.randrange(256)):
                    fr(lambda: c(d, p), [cc.addr_tok(d), str(p)])
        elif fam == "special":
            if hp:
                for p in range(256):
                    fr(lambda: c(p), [str(p)])
            else:
                fr(lambda: c(), [])
        elif fam == "shortSpecial":
            for a in range(64):
                fr(lambda: c(a), [str(a)])
            fr(lambda: c("MASK"), ["MASK"])
        elif fam == "initialise":
            fr(lambda: c(broadcast=True), ["broadcast"])
            fr(lambda: c(), ["unaddressed"])
            for a in range(64):
                fr(lambda: c(address=a), [str(a)])
        elif fam == "devStd":
            for d in dev:
                fr(lambda: c(d), [cc.addr_tok(d)])
        elif fam == "devInst":
            for d in [dev[0], dev[1], dev[5], dev[33], dev[34], dev[97]]:
                for i in insts:
                    if type(i).__name__ == "Device":
                        continue
                    fr(lambda: c(d, i), [cc.addr_tok(d), cc.inst_tok(i)])
        elif fam == "devSpecial":
            if row_fam == "devSpecial0":
                fr(lambda: c(), [])
            elif row_fam == "devSpecial1":
                for p in range(256):
                    fr(lambda: c(p), [str(p)])
            else:
                for _ in range(200):
                    a, b = rng.randrange(256), rng.randrange(256)
                    fr(lambda: c(a, b), [str(a), str(b)])
        elif fam == "event" and c.__name__ not in ("UnknownEvent", "AmbiguousInstanceType"):
            # Table 3: all five schemes, field values incl. 0 and the maxima, event information of the class
            from dali.device import occupancy, light
            t = c().instance_type if False else getattr(c, "_instance_type", None)
            if t is None:
                t = c(instance_group=0).instance_type
            if issubclass(c, occupancy.OccupancyEvent):
                datas = [(x, x) for x in range(16)]
            elif issubclass(c, light.LightEvent):
                datas = [(x, x) for x in (0, 1, 511, 1023, rng.randrange(1024))]
            else:
                datas = [(None, reg.code_of(c))]
            def f(v): return "-" if v is None else str(v)
            for dv, info in datas:
                for sa, inum, ig, dg in [(0, None, None, None), (63, None, None, None), (rng.randrange(64), None, None, None),
                                         (0, 0, None, None), (5, 0, None, None), (63, 31, None, None),
                                         (rng.randrange(64), rng.randrange(32), None, None),
                                         (None, None, None, 0), (None, None, None, 31), (None, None, 0, None),
                                         (None, None, 31, None), (None, 0, None, None), (None, 31, None, None),
                                         (None, rng.randrange(32), None, None)]:
                    kw = {}
                    if sa is not None: kw["short_address"] = sa
                    if inum is not None: kw["instance_number"] = inum
                    if ig is not None: kw["instance_group"] = ig
                    if dg is not None: kw["device_group"] = dg
                    if dv is not None: kw["data"] = dv
                    fr(lambda: c(**kw), [f(sa), f(inum), f(ig), f(dg), str(info)],
                       line="spec evframe %d %s %s %s %s %d" % (t, f(sa), f(inum), f(ig), f(dg), info))
    order = list(range(len(built)))
    rng.shuffle(order)
    for k in order:
        cmd, line, name, args = built[k]
        ask(line, "ok %d %d" % (len(cmd.frame), cmd.frame.as_integer), ("frame", name, args))
    ans = cc.run_model("m_cmd", lines)
    for l, a, (want, desc) in zip(lines, ans, wants):
        if a != want:
            corr.violate("table:" + desc[0] + ":" + desc[1], l, a, want,
                         "the library differs from the standard's table row")
        elif desc[0] == "frame":
            # converse: the standard's frame decodes to the command of that name
            pass
    corr.count("standard_rows", len(lines))
    # 'whether it expects an answer' is also observable as `is_query` on every object (the drivers decide by it
    # whether to wait for a backward frame): it must agree with the standard's Answer column, for the objects
    # built above and for the ones decoded below
    std_answer = {}
    for l, a in zip(lines, ans):
        if l.startswith("spec row ") and " answer=" in a:
            std_answer[l[len("spec row "):]] = a.split(" answer=")[1] != ""

    def check_is_query(obj, name, where):
        if name not in std_answer:
            return
        try:
            got = obj.is_query
        except Exception as e:  # noqa
            got = "raises " + exc_name(e)
        if got is not std_answer[name]:
            corr.violate("table:is_query:" + name, where, std_answer[name], got,
                         "is_query differs from the standard's Answer column")
    seen_q = set()
    for cmd, line, name, args in built:
        if name not in seen_q or rng.random() < 0.05:
            seen_q.add(name)
            check_is_query(cmd, name, line)
    corr.count("is_query", len(seen_q))
    # converse direction on a sample of the frames (all of them in thorough)
    idx = [k for k, (w, d) in enumerate(wants) if d[0] == "frame" and ans[k].startswith("ok ")]
    if not ctx.thorough:
        idx = rng.sample(idx, min(len(idx), 20000))
    bydt = {qn(c): c.devicetype for c in classes}
    n = 0
    for k in idx:
        _, bits, data = ans[k].split()
        name = wants[k][1][1]
        mp = None
        lp = lines[k].split()
        if lp[1] == "evframe" and lp[3] != "-" and lp[4] != "-":
            # device/instance scheme: the instance type comes from a map naming it
            from dali.device.helpers import DeviceInstanceTypeMapper
            mp = DeviceInstanceTypeMapper({(int(lp[3]), int(lp[4])): int(lp[2])})
            if n % 2:
                # one mapper per bus, empty when the frame is first seen and taught the instance's type afterwards
                mp = DeviceInstanceTypeMapper()
                command.from_frame(ForwardFrame(int(bits), int(data)), devicetype=bydt[name], dev_inst_map=mp)
                mp.add_type(short_address=int(lp[3]), instance_number=int(lp[4]), instance_type=int(lp[2]))
        back = command.from_frame(ForwardFrame(int(bits), int(data)), devicetype=bydt[name], dev_inst_map=mp)
        if cc.clsname(back) != name:
            corr.violate("table:decode:" + name, lines[k], name, cc.clsname(back),
                         "the standard's frame does not decode to the command of that name")
        else:
            check_is_query(back, name, "decoded from " + lines[k])
        n += 1
    corr.count("decode_of_standard_frame", n)
    corr.sample({"suite": "standard_rows", "request": "spec row gear.led.SelectDimmingCurve",
                 "standard": "16 std 227 0 0 false 6 true answer="})
    corr.sample({"suite": "standard_rows", "request": "spec frame gear.general.GoToScene gg:3 7",
                 "standard": "ok 16 34583"})


def search(ctx, corr, broken):
    return []


def replay(ctx, payload):
    corr = __import__("common").Corr()
    correspond(ctx, corr)
    key = payload.get("failure", {}).get("key")
    hits = [v for v in corr.violations if v["key"] == key]
    for v in hits[:3]:
        print(v)
    return bool(hits)
