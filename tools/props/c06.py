"""C06 — responses interpret every backward-frame outcome faithfully and totally.

Correspondence (exhaustive on every run): every response class reachable from
a command class x {None, BackwardFrame(0..255), BackwardFrameError(0..255)} x
every accessor (raw_value, value, str(), status, error, every named-bit
attribute, every extra property, a non-existent attribute) on the real
classes vs the Lean model (m_resp), plus the constructor on every non-frame
argument kind.

Oracle: what the real code returned is handed to the Lean *specification*
predicates (`spec value|status|bit|str|ctor`, Spec/Response.lean); a result
the specification rejects is a violation with the concrete class / outcome /
accessor."""
from common import exc_name  # noqa: E402
import enum
import re

from common import Model, tok

ID = "C06"
MODULE = "DaliVerif.Props.C06"
EXES = ["m_resp"]
GEN = True
THEOREMS = ["ctor_rejects_non_frames", "raw_passthrough", "raw_passthrough_none", "yesno_value",
            "numeric_value", "numeric_marker", "numeric_mask_value", "generic_value",
            "missing_or_garbled", "enum_rejects_undefined", "enum_missing_or_garbled",
            "bitmap_status", "bit_attr", "unknown_attr",
            "str_never_raises_missing_or_response_error", "faithful_of_wellFormed",
            "table_wellFormed", "table_matches_standard", "faithful", "str_total", "str_raised_before_fix"]
TRUSTED = ["hand-written model Model/Response.lean of the response classes (dali/command.py, dali/gear/*.py, "
           "dali/device/general.py), tied by this correspondence: EXHAUSTIVE — every reachable class x 513 "
           "outcomes x every accessor, on every run",
           "Spec/Response.lean is the reading of the property (categories by the library's base classes, "
           "acceptable results per category and outcome)",
           "translator plugin tools/gen/responses.py (implementors identified by module + qualified name)"]
ASSUMPTIONS = ["a framing error is reported as BackwardFrameError(b) with some byte b in 0..255; silence as None",
               "Python >= 3.11 (format() of an IntEnum member is its number); float rendering of "
               "OutputLevelResponse is canonicalised with Python's own float, not modelled"]
PARTIAL = ("extra helper properties (fade_time/fade_rate, primary_n, RGBWAF_channels, control_type, "
           "QueryEmergencyModeResponse.mode, QueryStatusResponse.error) and BitmapResponse.error are modelled "
           "and tied exhaustively but carry no property theorem (the property does not speak about them); "
           "the blank/hyphen mangling of bit names is checked by the oracle on the real classes and by "
           "bitPropsOK on the generated _bit_properties, not re-derived inside the kernel")

NONFRAME = [0, 1, 255, -1, True, False, "", "wibble", b"\x05", [5], (5,), 1.0, 1.5, object]


def outcomes(fr):
    res = [("n", None)]
    for b in range(256):
        res.append(("k%d" % b, fr.BackwardFrame(b)))
    for b in range(256):
        res.append(("e%d" % b, fr.BackwardFrameError(b)))
    return res


def okind(o):
    return {"n": "none", "k": "ok", "e": "err"}[o[0]]


def canon(v, fr):
    if v is None:
        return "ok none"
    if isinstance(v, fr.BackwardFrame):
        return "ok frame %d %d" % (1 if isinstance(v, fr.BackwardFrameError) else 0, v.as_integer)
    if isinstance(v, bool):
        return "ok bool %d" % v
    if isinstance(v, enum.IntEnum):
        return "ok enum %d" % int(v) if int(v) >= 0 else "ok other"
    if isinstance(v, int):
        return "ok int %d" % v if v >= 0 else "ok other"
    if isinstance(v, str):
        return ("ok str " + v).rstrip()
    if isinstance(v, list) and all(isinstance(x, str) for x in v):
        return ("ok list " + "|".join(v)).rstrip()
    return "ok other"


def observe(fn, fr):
    try:
        return canon(fn(), fr)
    except Exception as e:  # noqa
        return "err " + exc_name(e)


VOLTS = re.compile(r"^(-?[0-9][0-9.e+-]*) V$")


def observe_str(r, fval, fr):
    try:
        s = str(r)
    except Exception as e:  # noqa
        return "err " + exc_name(e)
    m = VOLTS.match(s)
    if m and fval is not None:
        try:
            if float(m.group(1)) == fval.as_integer * 0.04 and s == "%s V" % (fval.as_integer * 0.04):
                return "ok volts %d" % fval.as_integer
        except ValueError:
            pass
    return ("ok str " + s).rstrip()


def class_table():
    """[(key, class, description dict)] of every reachable response class"""
    from gen import responses as plug
    seen = plug.reachable()
    res = []
    for cls in sorted(seen, key=lambda c: (c.__module__, c.__name__)):
        res.append(("%s:%s" % (cls.__module__, cls.__name__), cls, plug.describe(cls, seen[cls])))
    return res


def attr_names(cls, d, spec_names):
    """attribute names probed on a class: declared bit properties, the names the
    specification derives from `bits`, extra properties, and one that does not exist"""
    names = []
    for n, _i in d["bitProps"]:
        names.append(n)
    for n in spec_names:
        if n not in names:
            names.append(n)
    for n, _impl in d["extras"]:
        if n not in names and " " not in n:
            names.append(n)
    names.append("no_such_attribute")
    return names


def evaluate(cls, key, d, fr, model, corr, only=None):
    """Run every accessor of `cls` on every outcome; compare with the model and
    hand the results to the specification.  Returns the list of violations found."""
    viol = []
    # names under which the specification says the named bits are exposed
    bit_names = [(i, b) for i, b in enumerate(d["bits"]) if b]
    spec_attr = []
    if bit_names and model is not None:
        ans = model.batch(["spec attrname " + b for _i, b in bit_names])
        spec_attr = [(i, a[3:]) for (i, _b), a in zip(bit_names, ans)]
    cat = model.batch(["spec cat " + key])[0][3:] if model is not None else "?"
    names = attr_names(cls, d, [n for _i, n in spec_attr])
    req, impl, meta = [], [], []     # model requests
    sreq, smeta = [], []             # specification requests
    for otok, fval in outcomes(fr):
        if only and otok != only:
            continue
        try:
            r = cls(fval)
        except Exception as e:  # noqa
            viol.append(("resp:%s:ctor:%s" % (cls.__name__, okind(otok)), {"class": key, "outcome": otok,
                         "accessor": "ctor"}, "accepted", "err " + exc_name(e)))
            continue
        raw = r.raw_value
        if raw is not fval:
            viol.append(("resp:%s:raw_value:%s" % (cls.__name__, okind(otok)),
                         {"class": key, "outcome": otok, "accessor": "raw_value"},
                         "the very object the response was built from", repr(raw)))
        req.append("raw " + otok); impl.append(canon(raw, fr)); meta.append((otok, "raw_value"))
        a = observe(lambda: r.value, fr)
        first_value = a
        req.append("value %s %s" % (key, otok)); impl.append(a); meta.append((otok, "value"))
        sreq.append("spec value %s %s %s" % (key, otok, a)); smeta.append((otok, "value", a))
        if a.startswith("ok frame") and r.value is not fval:
            viol.append(("resp:%s:value:%s" % (cls.__name__, okind(otok)),
                         {"class": key, "outcome": otok, "accessor": "value"},
                         "the frame object itself", "an equal copy"))
        a = observe_str(r, fval, fr)
        req.append("str %s %s" % (key, otok)); impl.append(a); meta.append((otok, "str"))
        sreq.append("spec str " + ("ok str x" if a.startswith("ok") else a)); smeta.append((otok, "str", a))
        a = observe(lambda: r.status, fr)
        req.append("status %s %s" % (key, otok)); impl.append(a); meta.append((otok, "status"))
        if cat == "bitmap":
            sreq.append("spec status %s %s %s" % (key, otok, a)); smeta.append((otok, "status", a))
        # what an accessor hands out belongs to the caller: a caller that edits a status list in place must not
        # change what this response, or a fresh response built from an equal frame, says afterwards
        try:
            lst = r.status
            if isinstance(lst, list):
                lst.append("edited by the caller")
                lst.reverse()
                same = observe(lambda: r.status, fr)
                fresh = observe(lambda: cls(copy_frame(fval, fr)).status, fr)
                for what, got in (("same response", same), ("fresh response from an equal frame", fresh)):
                    if got != a:
                        viol.append(("resp:%s:status-after-edit:%s" % (cls.__name__, okind(otok)),
                                     {"class": key, "outcome": otok, "accessor": "status of the " + what +
                                      " after a caller edited an earlier result in place"}, a, got))
        except Exception:   # noqa - responses whose status raises were judged above
            pass
        a = observe(lambda: r.error, fr)
        req.append("error %s %s" % (key, otok)); impl.append(a); meta.append((otok, "error"))
        for n in names:
            a = observe(lambda: getattr(r, n), fr)
            req.append("attr %s %s %s" % (key, n, otok)); impl.append(a); meta.append((otok, n))
        if cat == "bitmap":
            for i, n in spec_attr:
                a = observe(lambda: getattr(r, n), fr)
                sreq.append("spec bit %s %d %s" % (otok, i, a)); smeta.append((otok, "bit:" + n, a))
        # a response says the same thing every time it is asked (after str(), status, … have looked at it):
        # the later answers are judged by the specification like the first
        again = observe(lambda: r.value, fr)
        sreq.append("spec value %s %s %s" % (key, otok, again)); smeta.append((otok, "value", again))
        if again != first_value:
            viol.append(("resp:%s:value-again:%s" % (cls.__name__, okind(otok)),
                         {"class": key, "outcome": otok, "accessor": "value (second read, after str/status)"},
                         first_value, again))
        again_s = observe_str(r, fval, fr)
        sreq.append("spec str " + ("ok str x" if again_s.startswith("ok") else again_s)); smeta.append((otok, "str", again_s))
    # the outcome is what the frame IS, not how the object came about: a backward frame that went through
    # copy.copy / copy.deepcopy / pickle (a response stored, queued or logged by the application), and a copied
    # response, say what the original says  (strengthening after seeded round 6)
    import copy as _copy
    import pickle as _pickle
    import random as _random
    rr = _random.Random(__import__("zlib").crc32(key.encode()))
    picks = ["n"] + ["%s%d" % (t, b) for t in "ke" for b in (0, 1, 5, 128, 254, 255, rr.randrange(2, 254))]
    allout = dict(outcomes(fr))
    for otok in picks:
        if only and otok != only:
            continue
        fval = allout[otok]

        def look(resp):
            return (observe(lambda: resp.value, fr), observe_str(resp, resp.raw_value, fr),
                    observe(lambda: resp.status, fr), observe(lambda: resp.error, fr),
                    canon(resp.raw_value, fr))
        try:
            base = look(cls(fval))
        except Exception:   # noqa - judged above
            continue
        routes = [("copy.copy(frame)", lambda: cls(_copy.copy(fval))),
                  ("copy.deepcopy(frame)", lambda: cls(_copy.deepcopy(fval))),
                  ("pickle round trip of the frame", lambda: cls(_pickle.loads(_pickle.dumps(fval)))),
                  ("copy.copy(response)", lambda: _copy.copy(cls(fval))),
                  ("copy.deepcopy(response)", lambda: _copy.deepcopy(cls(fval)))]
        for rname, mk in routes:
            try:
                got = look(mk())
            except Exception as e:  # noqa
                got = ("err " + exc_name(e),)
            if got != base:
                viol.append(("resp:%s:copied:%s" % (cls.__name__, okind(otok)),
                             {"class": key, "outcome": otok, "accessor": "value/str/status/error/raw_value via " + rname},
                             " | ".join(base), " | ".join(got)))
    if model is None:
        return viol, 0
    ans = model.batch(req)
    for line, a, m, (otok, acc) in zip(req, impl, ans, meta):
        if a != m:
            corr.disagree("responses", line, m, a)
        corr.nontrivial((cls.__name__, acc if acc in ("raw_value", "value", "str", "status", "error") else "attr",
                         okind(otok), a.split(" ")[0] + " " + (a.split(" ") + [""])[1]))
        corr.bump("resp:" + okind(otok) + ":" + (a.split(" ")[1] if a.startswith("err") else "ok"))
    sans = model.batch(sreq)
    for line, s, (otok, acc, a) in zip(sreq, sans, smeta):
        if s != "ok 1":
            viol.append(("resp:%s:%s:%s" % (cls.__name__, acc.split(":")[0], okind(otok)),
                         {"class": key, "outcome": otok, "accessor": acc},
                         "a result the specification accepts (%s)" % line.split(" ")[1], a + "  [spec: %s]" % s))
    return viol, len(req) + len(sreq)


def ctor_checks(table, fr, model, corr):
    from dali import frame as frmod
    viol = []
    args = [(tok(v), v) for v in NONFRAME if v is not object] + [("o", object()),
            ("of", frmod.Frame(8, 5)), ("of", frmod.ForwardFrame(16, 5)), ("of", frmod.Frame(16, 5))]
    req, impl = [], []
    for key, cls, _d in table:
        for t, v in args:
            try:
                cls(v)
                a = "ok"
            except Exception as e:  # noqa
                a = "err " + exc_name(e)
            req.append("ctor " + t); impl.append(a)
            if a != "err TypeError":
                viol.append(("resp:%s:ctor:nonframe" % cls.__name__, {"class": key, "accessor": "ctor", "arg": t},
                             "TypeError (only a BackwardFrame or None is accepted)", a))
            corr.nontrivial((cls.__name__, "ctor", t.split(":")[0]))
    if model is not None:
        ans = model.batch(req)
        for line, a, m in zip(req, impl, ans):
            if a != m:
                corr.disagree("constructor", line, m, a)
        if model.batch(["spec ctor 0 0", "spec ctor 1 0", "spec ctor 0 1"]) != ["ok 0", "ok 1", "ok 1"]:
            corr.disagree("constructor", "spec ctor", "?", "?")
    corr.count("constructor", len(req))
    return viol


def mangling_checks(table, model, corr):
    """the attribute names the metaclass computed are the ones the property's
    rule gives (blanks -> underscores, hyphens dropped), index by index"""
    viol = []
    for key, cls, d in table:
        named = [(i, b) for i, b in enumerate(d["bits"]) if b]
        if not named:
            continue
        ans = model.batch(["spec attrname " + b for _i, b in named])
        want = {}
        for (i, _b), a in zip(named, ans):
            want[a[3:]] = i
        have = dict(d["bitProps"])
        if want != have:
            viol.append(("resp:%s:bit_properties" % cls.__name__, {"class": key, "accessor": "_bit_properties"},
                         want, have))
        corr.count("bit_names", len(named))
    return viol


def row_of(d):
    return ("ok exp=%d erra=%d bits=%s members=%s types=%s" % (
        d["expected"], d["errorAcceptable"], "|".join(d["bits"]),
        ",".join("%s:%d" % m for m in d["members"]), "|".join("%d:%s" % t for t in d["types"])))


def standard_checks(table, fr, model, corr):
    """the class data of the real classes vs the independently transcribed
    Spec.Resp.table; a differing bit name is reported with the clean frame that
    has exactly that bit set (its `status` then names the wrong thing)"""
    viol = []
    ans = model.batch(["spec row " + k for k, _c, _d in table])
    for (key, cls, d), a in zip(table, ans):
        corr.count("standard_table", 1)
        have = row_of(d)
        if " ".join(a.split()) == " ".join(have.split()):
            continue
        inp = {"class": key, "accessor": "table"}
        if a != "ok absent":
            want_bits = a.split(" bits=")[1].split(" members=")[0].split("|")
            for i, (w, h) in enumerate(zip(want_bits + [""] * 8, d["bits"] + [""] * 8)):
                if w != h and i < 8:
                    inp = {"class": key, "accessor": "table", "outcome": "k%d" % (1 << i),
                           "status": observe(lambda: cls(fr.BackwardFrame(1 << i)).status, fr)}
                    break
        viol.append(("resp:%s:table" % cls.__name__, inp, a, have))
    return viol


def copy_frame(f, fr):
    """an equal but distinct backward frame (None stays None)"""
    if f is None:
        return None
    return (fr.BackwardFrameError if getattr(f, "error", False) else fr.BackwardFrame)(f.as_integer)


def correspond(ctx, corr):
    from dali import frame as fr
    model = Model("m_resp") if ctx.model_available else None
    table = class_table()
    corr.rule.append(
        "exhaustive: every response class reachable from dali.command.Command._commands (%d today) x "
        "{None, BackwardFrame(0..255), BackwardFrameError(0..255)} x {raw_value, value, str(), status, error, "
        "every _bit_properties name, every attribute name the specification derives from bits, every extra "
        "property, one non-existent attribute}; constructor on %d non-frame argument kinds per class; "
        "every result of the real code is also judged by the Lean specification predicates; "
        "non-trivial = distinct (class, accessor, outcome kind, result class)" % (len(table), len(NONFRAME) + 3))
    if model is not None:
        listed = model.batch(["classes"])[0].split()[1:]
        if listed != [k for k, _c, _d in table]:
            corr.disagree("class-list", "classes", listed, [k for k, _c, _d in table])
    for key, cls, d in table:
        viol, n = evaluate(cls, key, d, fr, model, corr)
        corr.count("responses", n)
        for k, inp, exp, obs in viol:
            corr.violate(k, inp, exp, obs, "real response class vs Spec/Response.lean")
    for k, inp, exp, obs in ctor_checks(table, fr, model, corr):
        corr.violate(k, inp, exp, obs, "constructor must reject everything but None / BackwardFrame")
    if model is not None:
        for k, inp, exp, obs in mangling_checks(table, model, corr):
            corr.violate(k, inp, exp, obs, "named bits must be exposed under the mangled names")
        for k, inp, exp, obs in standard_checks(table, fr, model, corr):
            corr.violate(k, inp, exp, obs, "class data differs from the transcribed standard table "
                         "(Spec/ResponseTable.lean)")
    corr.exhaustive["all classes x 513 outcomes x all accessors"] = True
    corr.exhaustive["constructor argument kinds"] = True
    from dali.gear import general
    corr.sample({"suite": "responses", "request": "str dali.gear.general:QueryDeviceTypeResponse e3",
                 "impl": observe_str(general.QueryDeviceTypeResponse(fr.BackwardFrameError(3)),
                                     fr.BackwardFrameError(3), fr)})
    corr.sample({"suite": "responses", "request": "status dali.gear.general:QueryStatusResponse k130",
                 "impl": observe(lambda: general.QueryStatusResponse(fr.BackwardFrame(130)).status, fr)})


def replay(ctx, payload):
    from dali import frame as fr
    v = payload.get("failure", {})
    inp = v.get("input", {})
    if not isinstance(inp, dict) or "class" not in inp:
        print("nothing to replay in this file (no failing input recorded)")
        return True
    table = {k: (c, d) for k, c, d in class_table()}
    if inp["class"] not in table:
        print("class %s is no longer reachable" % inp["class"])
        return True
    cls, d = table[inp["class"]]
    model = Model("m_resp")

    class C:  # throw-away collector
        def __init__(self):
            self.d = []
        def disagree(self, *a):
            self.d.append(a)
        def nontrivial(self, *a):
            pass
        def bump(self, *a):
            pass
        def count(self, *a):
            pass
    c = C()
    if inp.get("accessor") == "ctor" and "arg" in inp:
        viol = [x for x in ctor_checks([(inp["class"], cls, d)], fr, model, c) if x[1].get("arg") == inp["arg"]]
    elif inp.get("accessor") == "table":
        viol = standard_checks([(inp["class"], cls, d)], fr, model, c)
    elif inp.get("accessor") == "_bit_properties":
        viol = mangling_checks([(inp["class"], cls, d)], model, c)
    else:
        viol, _n = evaluate(cls, inp["class"], d, fr, model, c, only=inp.get("outcome"))
        viol = [x for x in viol if x[1].get("accessor") == inp.get("accessor")] or viol
    for k, i, exp, obs in viol[:5]:
        print("input:", i, "\nexpected:", exp, "\nobserved:", obs)
    return bool(viol)


LEVEL_TEXT = ("Lean 4 theorems: (a) generic theorems per implementor kind over all class records and all 513 bus "
              "outcomes (yes/no, numeric, numeric-with-MASK, generic pass-through, MissingResponse/ResponseError "
              "exactly per _expected/_error_acceptable, enumerated with ValueError, bitmap status = reference "
              "comprehension over any bits list, named-bit attributes, constructor acceptance), and "
              "holds_of_wellFormed: decidable per-class side conditions imply the property's statement for every "
              "outcome; (b) table_wellFormed re-evaluates those side conditions in the kernel on the response "
              "table regenerated from the working tree on every run, giving `faithful` and `str_total` for every "
              "reachable class. The model is tied to the code exhaustively (all classes x 513 outcomes x all "
              "accessors) and every result of the real code is judged by the Lean specification.")
LEVEL_NOTE = ("Trusted: Lean kernel; axioms propext/Classical.choice/Quot.sound; the hand-written model "
              "Model/Response.lean (complete tie: the domain is finite and enumerated on every run); the reading of "
              "the property in Spec/Response.lean; the reflection-based translator; CPython.")
TECHNIQUE = ("Lean 4 proof (generic lemmas per response kind + kernel-evaluated table obligations) + exhaustive "
             "model-vs-code correspondence + specification predicates evaluated on the real code's results")
