"""Shared by C01/C02/C03/C04/C12: canonical forms of address, instance and
command objects of the real library, and a parallel compare helper."""
from common import exc_name  # noqa: E402
import multiprocessing as mp
import os
import subprocess
from common import LEAN, InfraError, outcome, tok


def addr_tok(a):
    from dali import address as A
    if a is None:
        return "none"
    t = type(a)
    if t is A.GearBroadcast: return "gb"
    if t is A.DeviceBroadcast: return "db"
    if t is A.GearBroadcastUnaddressed: return "gu"
    if t is A.DeviceBroadcastUnaddressed: return "du"
    if t is A.GearGroup: return "gg:%d" % a.group
    if t is A.DeviceGroup: return "dg:%d" % a.group
    if t is A.GearShort: return "gs:%d" % a.address
    if t is A.DeviceShort: return "ds:%d" % a.address
    return "other:" + t.__name__


def inst_tok(i):
    from dali import address as A
    if i is None:
        return "none"
    t = type(i)
    m = {A.InstanceNumber: "n", A.InstanceGroup: "g", A.InstanceType: "t",
         A.FeatureInstanceNumber: "fn", A.FeatureInstanceGroup: "fg", A.FeatureInstanceType: "ft",
         A.ReservedInstance: "r"}
    if t in m:
        return "%s:%d" % (m[t], i.value)
    u = {A.FeatureInstanceBroadcast: "fb", A.InstanceBroadcast: "b", A.FeatureDevice: "fd", A.Device: "d"}
    if t in u:
        return u[t]
    return "other:" + t.__name__


def all_addrs():
    from dali import address as A
    gear = [A.GearBroadcast(), A.GearBroadcastUnaddressed()] + [A.GearGroup(g) for g in range(16)] + \
        [A.GearShort(s) for s in range(64)]
    dev = [A.DeviceBroadcast(), A.DeviceBroadcastUnaddressed()] + [A.DeviceGroup(g) for g in range(32)] + \
        [A.DeviceShort(s) for s in range(64)]
    return gear, dev


def all_insts():
    from dali import address as A
    l = []
    for cls in (A.InstanceNumber, A.InstanceGroup, A.InstanceType, A.FeatureInstanceNumber,
                A.FeatureInstanceGroup, A.FeatureInstanceType):
        l += [cls(n) for n in range(32)]
    l += [A.FeatureInstanceBroadcast(), A.InstanceBroadcast(), A.FeatureDevice(), A.Device()]
    res = [A.ReservedInstance(b) for b in list(range(0x40, 0x60)) + list(range(0xE0, 0xFC))]
    return l, res


def clsname(o):
    return type(o).__module__.replace("dali.", "") + "." + type(o).__name__


def cmd_canon(fn):
    """canonical `<class>|ok bits data|str` of the command fn() returns (or `RAISED <Exc>`)"""
    try:
        c = fn()
        try:
            fr = c.frame
            fs = "ok %d %d" % (len(fr), fr.as_integer)
        except Exception as e:  # noqa
            fs = "err " + exc_name(e)
        try:
            s = str(c).replace(" ", "_")
        except Exception as e:  # noqa
            s = "STR-RAISED:" + exc_name(e)
        return "%s|%s|%s" % (clsname(c), fs, s)
    except Exception as e:  # noqa
        return "RAISED " + exc_name(e)


def map_tok(m):
    if m is None:
        return "-"
    if not m:
        return "e"
    return ",".join("%d:%d:%d" % (k[0], k[1], v) for k, v in m.items())


def run_model(exe, lines):
    p = subprocess.run([str(LEAN / ".lake" / "build" / "bin" / exe)], input="\n".join(lines) + "\n",
                       stdout=subprocess.PIPE, stderr=subprocess.PIPE, text=True)
    if p.returncode != 0:
        raise InfraError("model driver crashed: " + p.stderr[-500:])
    out = p.stdout.splitlines()
    if len(out) != len(lines):
        raise InfraError("model answered %d lines for %d requests" % (len(out), len(lines)))
    return out


def _worker(args):
    func, job = args
    return func(job)


def parmap(func, jobs, procs=None):
    """run func(job) for every job in forked worker processes (func is a
    module-level function; the real library is imported in the parent)"""
    procs = procs or min(16, os.cpu_count() or 4)
    if len(jobs) <= 1 or procs <= 1:
        return [func(j) for j in jobs]
    ctx = mp.get_context("fork")
    with ctx.Pool(procs) as pool:
        return pool.map(_worker, [(func, j) for j in jobs], chunksize=1)
