"""C09 — memory-bank reads return the declared bytes and leave the unit untouched.

Lock-step: the real `MemoryValue.read_raw / read`, `MemoryBank.read_all` are
driven against the Lean specification unit of IEC 62386-102 §9.10 memory access
(exe m_memseq); the driver checks every yielded command against its model of
the sequence, answers as the specification unit, and at the end compares
outcomes and evaluates the post-condition (bytes returned = cells declared,
MemoryLocationNotImplemented exactly when a cell is missing, memory unchanged,
not latched, lock byte restored)."""
from common import InfraError
from props._devmem_lockstep import LockStep, judge
from props import _devmem_memunit as mu

ID = "C09"
MODULE = "DaliVerif.Props.C09"
EXES = ["m_memseq", "m_memval"]
GEN = True
THEOREMS = ["readRaw_spec", "readRaw_absent", "readRaw_faults", "readAllLoop_spec", "readAll_restores", "readAll_spec_unlatched", "fromList_spec",
            "readAll_spec", "tables_ok"]
TRUSTED = [
    "hand-written model Model/MemSeq.lean of dali/memory/location.py (tied by this lock-step correspondence)",
    "specification unit Spec/MemUnit.lean = my reading of IEC 62386-102 §9.10 (DESIGN Appendix A); the only oracle",
    "translator plugin tools/gen/memseq.py (banks, values, ordered locations, access types read by reflection)",
]
ASSUMPTIONS = [
    "one unit answers (collisions = framing errors are covered by the fault theorem readRaw_faults)",
    "the unit implements one bank; every other bank number is 'not implemented'",
    "the value interpretation (check_raw / raw_to_value) is C11's: here `read` is tied to interpret(read_raw) by "
    "calling the real interpretation on the bytes the specification unit sent",
    "readRaw_spec is stated for cell contents that do not change during the read (static or latched bank)",
    "send-twice ENABLE WRITE MEMORY is delivered to the unit as one accepted command",
]
PARTIAL = ("readAll_spec characterises raw_data cell by cell (latched: snapshot taken at the latch write, for any "
           "environment; unlatched: content at the time of each read); the step from raw_data to the reported dict "
           "is the pure function fromList, tied by the correspondence. After read_all on a latching bank the lock byte "
           "is 0xFF (the standard's reset value) rather than its previous content when that was not 0xFF.")
LEVEL_TEXT = ("Lean 4 theorems about the read sequences run against a specification memory unit: read_raw returns "
              "exactly the cells at the declared locations or MemoryLocationNotImplemented exactly when one is beyond "
              "the last accessible location or unimplemented, for every location list (any order), image, last "
              "location, hole set, stale register content, gear and device (induction over the location list with "
              "the DTR0-tracking invariant); the unit's memory is unchanged; against any responder a result is only "
              "returned when every read was answered cleanly. read_all: raw_data characterised cell by cell, memory "
              "unchanged, bank not latched and lock byte 0xFF afterwards — also on the framing-error exit.")
LEVEL_NOTE = ("Trusted: Lean kernel; axioms propext/Classical.choice/Quot.sound; hand-written model tied by lock-step "
              "runs (all declared values x every last location x holes x gear/device x faults at each read); the "
              "specification unit is my reading of IEC 62386-102.")
TECHNIQUE = "Lean 4 proofs over resumption models vs a specification memory unit + lock-step model/code/spec correspondence"


def interpret(cls, raw):
    return cls.check_raw(raw) or cls.raw_to_value(raw)


# (value class, raw bytes the specification unit delivered, what read()/read_all() reported): judged at the end
# against the REFERENCE interpretation of the value (Spec.Mem.interpret via m_memval), so that "interpreted by that
# value's rules" is checked against the rules and not against the library's own interpretation
PENDING = []


def run_read(ls, sc):
    """one lock-step run of read_raw / read / read_all.  returns (end, res, badop, trace, extra_violation)"""
    lines = [mu.unit_line(sc["unit"])]
    if sc.get("fault"):
        lines.append(sc["fault"])
    call = sc["call"]
    k = call["kind"]
    addr = mu.addr_obj(call["arg"], call["a"])
    extra = None
    if k in ("read_raw", "read"):
        b, v = mu.find_value(call["value"])
        lines.append("seq readval %s %d %s" % (call["arg"], call["a"], call["value"]))
        ls.setup(lines)
        if k == "read_raw":
            end, trace, badop = ls.drive(v.read_raw(addr), lambda r: "b:" + ",".join(str(x) for x in r))
        else:
            box = []

            def canon(r):
                box.append(r)
                return "b:?"
            end, trace, badop = ls.drive(v.read(addr), canon)
            if end.startswith("ok"):
                raw = bytes(int(t[3][5:]) for t in trace if t[0] == "ReadMemoryLocation" and t[3].startswith("byte"))
                end = "ok b:" + ",".join(str(x) for x in raw)
                want = interpret(v, raw)
                PENDING.append((v, raw, box[0], sc))
                if box[0] != want or type(box[0]) is not type(want):
                    extra = ("read != interpret(read_raw)", repr(want), repr(box[0]))
        res = ls.finish(end)
        return end, res, badop, trace, extra
    if k == "read_all":
        b = mu.find_bank(call["bank"])
        lines.append("seq readall %s %d %s %d" % (call["arg"], call["a"], call["bank"], 1 if call["latch"] else 0))
        ls.setup(lines)
        box = []

        def canon(r):
            box.append(r)
            return "names:" + ",".join(sorted(c.name for c in r))
        if call.get("default_latch"):
            g = b.read_all(addr)
        else:
            g = b.read_all(addr, use_latch=call["latch"])
        end, trace, badop = ls.drive(g, canon)
        res = ls.finish(end)
        if end.startswith("ok") and res.get("raw") and res.get("sync") == "1":
            by_name = {c.name: c for c in box[0]}
            for part in res["raw"].split(";"):
                nm, _, bs = part.partition(":")
                raw = bytes(int(x) for x in bs.split(".") if x != "")
                if nm in by_name:
                    want = interpret(by_name[nm], raw)
                    got = box[0][by_name[nm]]
                    PENDING.append((by_name[nm], raw, got, sc))
                    if got != want or type(got) is not type(want):
                        extra = ("read_all[%s] != interpret(snapshot bytes)" % nm, repr(want), repr(got))
        return end, res, badop, trace, extra
    raise AssertionError(k)


def one(ls, corr, suite, sc, key):
    end, res, badop, trace, extra = run_read(ls, sc)
    judge(corr, suite, sc, end, res, badop, key)
    if extra:
        corr.violate(key + ":interpret", sc, extra[1], extra[2], extra[0])
    return end, trace


def fault_runs(ls, corr, suite, sc, key, trace, only_reads=True, limit=None, rng=None):
    pos = [i for i, t in enumerate(trace) if (t[0] == "ReadMemoryLocation" or not only_reads)]
    if limit and len(pos) > limit:
        pos = sorted(rng.sample(pos, limit))
    n = 0
    for k in pos:
        for f in ("none", "err"):
            sc2 = dict(sc)
            sc2["fault"] = "fault %d %s" % (k, f)
            end, _ = one(ls, corr, suite, sc2, key + ":fault")
            corr.bump("fault:%s:%s" % (sc["call"]["kind"], end.split()[0] + (":" + end.split()[1] if end.startswith("err") else "")))
            n += 1
    return n


def correspond(ctx, corr):
    del PENDING[:]
    ls = LockStep("m_memseq")
    try:
        _correspond(ctx, corr, ctx.rng, ctx.thorough, ls)
    finally:
        ls.close()
    judge_interpretations(corr)


def judge_interpretations(corr):
    """every value reported by read()/read_all() vs the reference interpretation of the delivered bytes"""
    from props import c11
    from common import Model
    _plug, _bs, vals = c11.table()
    by_cls = {cls: d for cls, d in vals}
    seen, req, items = set(), [], []
    for cls, raw, got, sc in PENDING:
        d = by_cls.get(cls)
        if d is None or len(raw) != len(d["locs"]):
            continue
        k = (cls, bytes(raw))
        if k in seen:
            continue
        seen.add(k)
        req.append("spec interp %s %s %s" % (d["bank"], d["name"], c11.hx(raw)))
        items.append((d, raw, c11.canon(got), sc))
    if not req:
        return
    ans = Model("m_memval").batch(req)
    bad = 0
    for a, (d, raw, got, sc) in zip(ans, items):
        if a != got:
            bad += 1
            if bad <= 5:
                corr.violate("%s/%s:interpretation" % (d["bank"], d["name"]),
                             {"value": d["name"], "bank": d["bank"], "raw": c11.hx(raw), "call": sc.get("call")},
                             a, got, "the value reported by read/read_all differs from the value's rules "
                             "(reference interpretation of the bytes the unit holds)")
    corr.count("interpretation_vs_reference", len(req))


def _correspond(ctx, corr, rng, T, ls):
    vals = mu.all_values()
    corr.rule.append(
        "lock-step against the Lean memory specification unit: every declared value (%d) x every last accessible "
        "location 0..255 (address-valued image) + structured images (zero, FF, random, ascii) x a hole at each of the "
        "value's locations x gear/device/int addressing x stale DTRs x absent unit/bank; read = interpret(read_raw); "
        "read_all for every bank x latch on/off x truncation points x holes x drifting live cells; silence and "
        "framing error injected at each read position. non-trivial = distinct (value, outcome class, truncation "
        "relative to the value) combinations" % len(vals))

    # ---- read_raw: every value x every last location ---------------------------------------------
    suite = "read_raw_all_last"
    n = 0
    for key, b, v in vals:
        vk = key + "." + v.name
        locs = [l.address for l in v.locations]
        lasts = range(256) if T or len(locs) > 1 else sorted(set(
            [0, 1, 2, locs[0] - 1 if locs[0] else 0, locs[0], locs[0] + 1, 254, 255, rng.randrange(256)]))
        for last in lasts:
            arg = rng.choice(["g", "d", "i"])
            a = rng.randrange(64)
            u = mu.mk_unit(b, rng, kind="addr", last=last, dev=(arg == "d"), addr=a)
            sc = {"unit": u, "call": {"kind": "read_raw", "arg": arg, "a": a, "value": vk}}
            end, trace = one(ls, corr, suite, sc, "read_raw")
            corr.nontrivial((vk, end.split()[0] + end.split()[1][:6], last < locs[0], last >= locs[-1]))
            n += 1
    corr.count(suite, n)
    corr.exhaustive["read_raw: every multi-location value x every last location 0..255"] = True
    corr.exhaustive["images / holes / faults / read_all suites (sampled)"] = False
    corr.sample({"suite": suite, "value": vk, "last": last, "outcome": end})

    # ---- read: the value's own rules at their boundaries (all-ones, all-ones-1, sign, every scale byte,
    # min/max +-1, NUL / non-ASCII ...): the bytes come from C11's boundary generator, the verdict from the
    # reference interpretation (judge_interpretations) --------------------------------------------------
    from props import c11
    _plug, _bs, c11vals = c11.table()
    c11_by_cls = {cls: d for cls, d in c11vals}
    suite = "read_value_rule_boundaries"
    n = 0
    for key, b, v in vals:
        d = c11_by_cls.get(v)
        if d is None:
            continue
        vk = key + "." + v.name
        locs = [l.address for l in v.locations]
        raws, _ex = c11.raws_for(v, d, rng, False)
        raws = list(raws)
        if len(raws) > (80 if T else 30):
            # stratified: one raw string per distinct leading byte (scale bytes, sign bytes, …) and per
            # distinct trailing byte, then a random remainder
            groups = {}
            for r in raws:
                groups.setdefault(("head", r[0]), r)
                groups.setdefault(("tail", r[-1]), r)
            keep = list(groups.values())
            rest = [r for r in raws if r not in keep]
            room = max(0, (80 if T else 30) - len(keep))
            raws = keep[:120] + rng.sample(rest, min(room, len(rest)))
        for raw in raws:
            if len(raw) != len(locs):
                continue
            arg = rng.choice(["g", "d"])
            a = rng.randrange(64)
            u = mu.mk_unit(b, rng, kind="random", dev=(arg == "d"), addr=a, last=255)
            for la, byte in zip(locs, raw):
                u["cells"][la] = u["cells"][la][0] + str(byte)
            sc = {"unit": u, "call": {"kind": "read", "arg": arg, "a": a, "value": vk}}
            end, trace = one(ls, corr, suite, sc, "read:rules")
            n += 1
    corr.count(suite, n)

    # ---- read_raw / read: images, holes, mismatches, faults --------------------------------------
    suite = "read_images_holes"
    n = 0
    nf = 0
    addr_of_bank = {}
    for key, b, v in vals:
        vk = key + "." + v.name
        locs = [l.address for l in v.locations]
        for kind in ("zero", "ff", "random", "ascii"):
            arg = rng.choice(["g", "d", "i"])
            # the values of one bank are mostly read from the same unit address, whose contents change from run to run
            a = addr_of_bank.setdefault(key, rng.randrange(64)) if rng.random() < 0.7 else rng.randrange(64)
            u = mu.mk_unit(b, rng, kind=kind, dev=(arg == "d"), addr=a, last=rng.choice([locs[-1], 255, b.LastAddress.locations[0].default]))
            sc = {"unit": u, "call": {"kind": "read", "arg": arg, "a": a, "value": vk}}
            end, trace = one(ls, corr, suite, sc, "read")
            corr.nontrivial((vk, "read", kind, end.split()[0]))
            n += 1
            if kind == "random":
                nf += fault_runs(ls, corr, suite + "_faults", sc, "read", trace)
        for h in (locs if (T or len(locs) <= 4) else [locs[0], locs[len(locs) // 2], locs[-1]]):
            arg = rng.choice(["g", "d"])
            a = rng.randrange(64)
            u = mu.mk_unit(b, rng, kind="random", holes=(h,), dev=(arg == "d"), addr=a, last=255)
            sc = {"unit": u, "call": {"kind": "read_raw", "arg": arg, "a": a, "value": vk}}
            end, trace = one(ls, corr, suite, sc, "read_raw:hole")
            corr.nontrivial((vk, "hole", h == locs[0], end.split()[0]))
            n += 1
        # nobody there: other address, other kind, other bank
        for mode in ("addr", "kind", "bank"):
            a = rng.randrange(63)
            u = mu.mk_unit(b, rng, kind="random", dev=False, addr=a)
            arg, aa = "g", a
            if mode == "addr":
                aa = a + 1
            elif mode == "kind":
                arg = "d"
            else:
                u["bank"] = (b.address + 1) % 256
            sc = {"unit": u, "call": {"kind": "read_raw", "arg": arg, "a": aa, "value": vk}}
            end, trace = one(ls, corr, suite, sc, "read_raw:absent")
            n += 1
    # invalid addr arguments
    for arg, a in (("o", 0), ("i", 64), ("i", -1)):
        key, b, v = vals[3]
        sc = {"unit": mu.mk_unit(b, rng), "call": {"kind": "read_raw", "arg": arg, "a": a, "value": key + "." + v.name}}
        if arg == "i" and a < 0:
            continue
        end, trace = one(ls, corr, suite, sc, "read_raw:badaddr")
        n += 1
    corr.count(suite, n)
    corr.count(suite + "_faults", nf)

    # ---- read_all ------------------------------------------------------------------------------------
    suite = "read_all"
    n = 0
    nf = 0
    for key, b in mu.all_banks():
        decl_last = b.LastAddress.locations[0].default
        # most runs of one bank use the SAME unit address: whatever the library remembers per address from an
        # earlier read (a length, a DTR1 it believes still selected) meets a unit that has changed since
        a_bank = rng.randrange(64)
        lasts = sorted(set([0, 1, 2, 3, 4, decl_last - 1, decl_last, decl_last + 1, 254, 255] +
                           (list(range(0, decl_last + 2)) if T else [rng.randrange(decl_last + 1) for _ in range(4)])))
        for last in lasts:
            for latch in (True, False):
                for drift in ((0, 1) if b.has_latch else (0,)):
                    arg = rng.choice(["g", "d", "i"])
                    a = a_bank if rng.random() < 0.7 else rng.randrange(64)
                    holes = ()
                    r = rng.random()
                    if last > 3 and r < 0.3:
                        holes = (rng.randrange(3, last + 1),)
                    elif last > 3 and r < 0.55:
                        # a RUN of unimplemented locations with implemented ones after it (whole values missing)
                        start = rng.randrange(3, last + 1)
                        holes = tuple(range(start, min(last, start + rng.randrange(2, 8) - 1) + 1))
                    elif last > 8 and r < 0.65:
                        holes = tuple(sorted({rng.randrange(3, last + 1) for _ in range(rng.randrange(2, 6))}))
                    u = mu.mk_unit(b, rng, kind="random", last=last, holes=holes, dev=(arg == "d"), addr=a,
                                   drift=drift, lockByte=rng.choice([0xFF, 0xFF, 0x55, 0xAA, 0x00]) if (b.has_lock or b.has_latch) else 0xFF)
                    sc = {"unit": u, "call": {"kind": "read_all", "arg": arg, "a": a, "bank": key, "latch": latch,
                                              "default_latch": latch and rng.random() < 0.5}}
                    end, trace = one(ls, corr, suite, sc, "read_all:latch" if (latch and b.has_latch) else "read_all")
                    corr.nontrivial((key, latch, drift, last >= decl_last, end.split()[0], bool(holes)))
                    n += 1
                    if last == decl_last and drift == 0:
                        nf += fault_runs(ls, corr, suite + "_faults", sc,
                                         "read_all:latch" if (latch and b.has_latch) else "read_all", trace,
                                         limit=None if T else 6, rng=rng)
        # runs of 1..6 unimplemented locations at the start, in the middle and near the end of the declared range,
        # the locations after them implemented: every value outside the run is reported, as when read alone
        if decl_last > 8:
            for run in (1, 2, 3, 4, 6):
                for start in sorted({3, max(3, decl_last // 2), max(3, decl_last - run - 1)}):
                    holes = tuple(range(start, min(decl_last - 1, start + run - 1) + 1))
                    if not holes:
                        continue
                    arg, a = rng.choice(["g", "d", "i"]), rng.randrange(64)
                    u = mu.mk_unit(b, rng, kind="random", last=rng.choice([decl_last, 255]), holes=holes,
                                   dev=(arg == "d"), addr=a)
                    sc = {"unit": u, "call": {"kind": "read_all", "arg": arg, "a": a, "bank": key,
                                              "latch": rng.random() < 0.5}}
                    end, trace = one(ls, corr, suite, sc, "read_all")
                    corr.nontrivial((key, "hole-run", run, end.split()[0]))
                    n += 1
        # absent bank / unit
        a = rng.randrange(63)
        u = mu.mk_unit(b, rng, kind="random", addr=a)
        sc = {"unit": u, "call": {"kind": "read_all", "arg": "g", "a": a + 1, "bank": key, "latch": True}}
        end, trace = one(ls, corr, suite, sc, "read_all:absent")
        n += 1
    corr.count(suite, n)
    corr.count(suite + "_faults", nf)
    corr.sample({"suite": suite, "bank": key, "outcome": end[:100]})


def replay(ctx, payload):
    v = payload.get("failure", {})
    sc = v.get("input")
    if not isinstance(sc, dict) or "call" not in sc:
        print("replay: nothing to re-run for", sc)
        return True
    ls = LockStep("m_memseq")
    try:
        end, res, badop, trace, extra = run_read(ls, sc)
        state = ls.ask("state")
    finally:
        ls.close()
    print("call:", sc["call"], " unit: bank %d last %d lockByte %d latch %s" % (
        sc["unit"]["bank"], sc["unit"]["last"], sc["unit"]["lockByte"], sc["unit"]["hasLatch"]))
    print("commands sent by the real code:")
    for t in trace:
        print("   %s %d 0x%x -> %s" % t)
    print("real code outcome:", end)
    print("driver verdict:", res.get("answer", "")[:300])
    print("unit afterwards:", state[:60])
    return res.get("post", "ok") != "ok" or res.get("sync") != "1" or \
        res.get("model", "").replace("~", " ") != end or extra is not None
