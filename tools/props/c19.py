"""C19 — serial receivers deframe any byte stream like the protocol's grammar.

Real `LubaProtocol` / `SCIRS232Protocol` objects (constructed without a port or
an event loop) are fed byte streams through `data_received` in random chunkings;
every put on one of their queues is recorded in order.  Compared with
  * the Lean model of the state machines (m_rx `luba` / `sci`): items, escaping
    exception classes, final state — for every stream, malformed payloads included;
  * the Lean reference deframers (m_rx `spec luba` / `spec sci`, the property's
    oracle) — for every stream without a checksum-valid frame whose payload is
    malformed for its type (those the property sets aside): same items, no
    escaping exception, independent of the chunking.
`Command.from_frame` succeeding or raising TypeError on an observed frame is an
oracle of model and reference; it is probed from the real receiver itself."""
from common import exc_name  # noqa: E402
import itertools
import logging
from common import Model, InfraError

logging.disable(logging.CRITICAL)

ID = "C19"
MODULE = "DaliVerif.Props.C19"
EXES = ["m_rx"]
GEN = True
THEOREMS = ["luba_consts", "sci_consts", "luba_refines_from", "luba_refines", "sci_refines",
            "luba_chunking_independent", "sci_chunking_independent", "luba_chunked_refines", "sci_chunked_refines",
            "luba_no_internal_error", "luba_step_no_internal", "sci_never_raises",
            "luba_always_resyncs", "sci_always_resyncs",
            "luba_resync_bound", "luba_resync_delivers", "luba_resync_bound_any_history",
            "sci_repeat_delivered_twice", "sci_error_report_repeated", "luba_repeat_delivered_twice"]
TRUSTED = ["hand-written model Model/SerialRx.lean of LubaProtocol/SCIRS232Protocol._process_byte, data_received and "
           "the handlers (tied by this correspondence: grammar-guided and random streams x random chunkings, every "
           "length byte 0..255 and every SCI status byte exhaustively)",
           "reference deframers Spec/Deframe.lean = my reading of the Lunatone LUBA / SCI RS232 framing; the maximum "
           "LUBA payload (20) is pinned to the receiver's 24-entry buffer",
           "Command.from_frame's success/TypeError on an observed frame is an oracle parameter of model and reference "
           "(theorems hold for every oracle); the check probes it from the real receiver"]
ASSUMPTIONS = ["bytes are 0..255 (elements of a `bytes` object)",
               "refinement theorems: the stream contains no checksum-valid frame whose payload is malformed for its "
               "type (decidable predicate LubaWellFormed); no_internal_error / resync_bound need no such assumption",
               "dev_inst_map is None/empty while deframing (event decoding context belongs to C20)"]
PARTIAL = ("always_resyncs is proved in the form 'from every frame boundary the reference deframing restarts' "
           "(luba_always_resyncs, sci_always_resyncs) together with luba_refines_from for mid-frame states; the explicit "
           "bound is proved for LUBA in the strongest true form (luba_resync_bound: from every state, MAX_LEN-1 = 23 bytes "
           "other than 'Y' that raise no handler exception reach a frame boundary, and a following well-formed frame is "
           "delivered, luba_resync_delivers; tight, and false for arbitrary bytes since a 'Y' among them opens a frame "
           "that swallows what follows - both witnessed by examples); SCI has no synchronisation mark, so it has no such bound; "
           "rx_idle bookkeeping (the state machine assigns _rx_state directly, so rx_idle is never cleared) and the "
           "asyncio queues' waiters are outside the model; the decoded Command objects are compared by class name and "
           "frame only")
LEVEL_TEXT = ("Lean 4 theorems for byte streams of any length: the byte-wise fold of the LUBA and SCI receiver models "
              "delivers exactly the items of a recursive whole-stream reference deframer (luba_refines, sci_refines, by "
              "induction on the stream with an invariant relating the receiver state to the bytes of the frame in "
              "progress), for every chunking (…_chunked_refines, …_chunking_independent); no stream, well-formed or not, "
              "makes the state machine raise an internal error (…_no_internal_error; the SCI receiver never raises at "
              "all); from every state with a frame in progress the continuation is deframed like the reference, and everything sent "
              "from a boundary is delivered (luba_refines_from, luba_always_resyncs, sci_always_resyncs); from every LUBA state "
              "a frame boundary is reached within MAX_LEN-1 = 23 bytes other than 'Y' and the next well-formed frame is "
              "delivered (luba_resync_bound, luba_resync_delivers, luba_resync_bound_any_history); the receivers keep no "
              "memory of delivered items: a well-formed frame received twice in a row from a frame boundary is delivered "
              "twice, k identical SCI error reports give k device replies (sci_repeat_delivered_twice, "
              "sci_error_report_repeated, luba_repeat_delivered_twice).")
LEVEL_NOTE = ("Trusted: Lean kernel; the hand-written receiver model corresponds to dali/driver/serial.py as far as the "
              "correspondence suite exercises it (sampled streams; exhaustive at the length position and over SCI status "
              "bytes); the reference deframer is my reading of the vendor framing, max payload pinned; decode oracle probed.")
TECHNIQUE = ("Lean 4 refinement proof (state machine -> whole-stream reference deframer, induction over the stream) "
             "+ model-vs-code and code-vs-reference differential execution over grammar-guided streams and chunkings")

Y = 0x59


def xor(bs):
    r = 0
    for b in bs:
        r ^= b
    return r


# ---------------------------------------------------------------------------
# the real receivers, instrumented from outside
# ---------------------------------------------------------------------------

class Real:
    """One real protocol object with every queue put recorded in order."""

    def __init__(self, kind):
        import dali.driver.serial as ser
        self.kind = kind
        self.ser = ser
        self.p = ser.DriverLubaRs232.LubaProtocol() if kind == "luba" else ser.DriverSCIRS232.SCIRS232Protocol()
        self.log = []
        self.errs = []
        p = self.p
        self.child = ser.DistributorQueue(p._queue_rx_dali)
        self._wrap(p._queue_rx_raw_dali, "put_nowait", "raw")
        if kind == "luba":
            self._wrap(p._queue_tx_conf, "put_nowait", "txconf")
            self._wrap(p._queue_rx_luba_cmd, "put_nowait", "cmd")
        else:
            self._wrap(p._queue_rx_info, "put_nowait", "info")
        self._wrap(self.child, "put_nowait", "obs")

    def _wrap(self, q, name, tag):
        orig = getattr(q, name)
        log = self.log

        def put(item, _orig=orig, _tag=tag):
            _orig(item)
            log.append((_tag, item))
        setattr(q, name, put)

    def feed(self, chunks):
        for c in chunks:
            try:
                self.p.data_received(bytes(c))
            except Exception as e:  # noqa
                self.errs.append(exc_name(e))

    def queue_contents(self):
        """what a consumer would find on the queues (observe_at of the property)"""
        p = self.p
        res = {}
        qs = {"raw": p._queue_rx_raw_dali, "obs": self.child}
        if self.kind == "luba":
            qs.update(txconf=p._queue_tx_conf, cmd=p._queue_rx_luba_cmd)
        else:
            qs.update(info=p._queue_rx_info)
        for tag, q in qs.items():
            items = []
            while not q.empty():
                items.append(q.get_nowait())
            res[tag] = items
        return res

    def state(self):
        p = self.p
        if self.kind == "luba":
            return "%s %d %d %d %d" % (p._rx_state.name, p._rx_expected_len or 0, p._rx_received_len,
                                       p._prev_rx_enable_dt, p._prev_tx_enable_dt)
        return "%s %d" % (p._rx_state.name, p._prev_rx_enable_dt)


def cmd_sig(cmd):
    """canonical form of a decoded Command: width, value, class"""
    f = cmd.frame
    return "%d:%d:%s" % (len(f), f.as_integer, type(cmd).__name__)


_redecode_cache = {}


def redecode_class(bits, data, dt):
    """class name the library decodes (bits, data) to under device type dt"""
    k = (bits, data, dt)
    if k not in _redecode_cache:
        from dali import command, frame
        try:
            c = command.Command.from_frame(frame.ForwardFrame(bits, data), devicetype=dt)
            _redecode_cache[k] = type(c).__name__
        except Exception as e:  # noqa
            _redecode_cache[k] = "!" + exc_name(e)
    return _redecode_cache[k]


def canon_real(kind, log):
    out = []
    for tag, item in log:
        if tag == "raw":
            out.append("raw:%d" % item if isinstance(item, int) and not isinstance(item, bool) else "raw:?%r" % (item,))
        elif tag == "txconf":
            out.append("txconf:%d:%s" % (item.tx_id, "none" if item.message is None else cmd_sig(item.message)))
        elif tag == "obs":
            out.append("obs:" + cmd_sig(item))
        elif tag == "cmd":
            n = type(item).__name__
            if n == "LubaDeviceInfo":
                out.append("devinfo:%d:%d:%d:%d:%d" % (item.gtin, item.id, item.pcb_ver, item.assembly_ver,
                                                      item.article_num))
            elif n == "LubaDeviceSettings":
                out.append("settings:%d:%d" % (item.mode, item.event_filter))
            else:
                out.append("cmd:?" + n)
        elif tag == "info":
            out.append("sciinfo:%d:%d" % (item.id, item.code))
    return out


def canon_model_items(text):
    """model/spec items -> same canonical form (device type -> class name via the library's decoder)"""
    if text == "-":
        return [], []
    out, triples = [], []
    for t in text.split(" "):
        parts = t.split(":")
        if parts[0] == "obs":
            b, d, dt = int(parts[1]), int(parts[2]), int(parts[3])
            triples.append(("rx", b, d, dt))
            out.append("obs:%d:%d:%s" % (b, d, redecode_class(b, d, dt)))
        elif parts[0] == "txconf" and parts[2] != "none":
            b, d, dt = int(parts[2]), int(parts[3]), int(parts[4])
            triples.append(("tx", b, d, dt))
            out.append("txconf:%s:%d:%d:%s" % (parts[1], b, d, redecode_class(b, d, dt)))
        else:
            out.append(t)
    return out, triples


# ---- the decode oracle, probed from the real receiver -------------------------------

_oracle_cache = {}
_probe_errors = []


def luba_frame(cmd, payload):
    body = [cmd, len(payload)] + list(payload)
    return [Y] + body + [xor(body)]


def sci_frame(status, hi, mi, lo):
    return [status, hi, mi, lo, status ^ hi ^ mi ^ lo]


def decodes(kind, path, bits, data, dt):
    """Does the real receiver deliver (rx) / decode (tx) a frame (bits, data) under device type dt?"""
    k = (kind, path, bits, data, dt)
    if k in _oracle_cache:
        return _oracle_cache[k]
    n = bits // 8
    bs = list(data.to_bytes(n, "big"))
    r = Real(kind)
    if kind == "luba":
        if path == "rx":
            r.p._prev_rx_enable_dt = dt
            r.feed([luba_frame(0x31, [0, 0, 0, 0x80 | min(bits, 32)] + bs)])
            res = any(t == "obs" for t, _ in r.log)
        else:
            r.p._prev_tx_enable_dt = dt
            r.feed([luba_frame(0x31, [0, 0, 0, 0x00, 7] + bs)])
            res = any(t == "txconf" and i.message is not None for t, i in r.log)
    else:
        r.p._prev_rx_enable_dt = dt
        if n == 2:
            r.feed([sci_frame(0x03, 0, bs[0], bs[1])])
        elif n == 3:
            r.feed([sci_frame(0x08, bs[0], bs[1], bs[2])])
        else:
            raise InfraError("sci oracle asked for %d bits" % bits)
        res = any(t == "obs" for t, _ in r.log)
    if path == "rx" and bits in (16, 24) and not res and not r.errs:
        # every 16- / 24-bit forward frame decodes to SOME command (property C01: unknown frames come back as a
        # generic command): a receiver that does not deliver one has dropped an observed command.  The reference
        # expects the delivery; the probe's finding is kept for correspond() to report with the frame.
        _probe_errors.append((k, ["not delivered (the frame was dropped)"]))
        res = True
    if r.errs:
        # the real receiver let an exception escape data_received on ONE well-formed frame: that is the property's
        # "no input raises an internal error", not an infrastructure problem - kept for correspond() to report
        _probe_errors.append((k, list(r.errs)))
        res = False
    _oracle_cache[k] = res
    return res


def fmt_chunks(chunks):
    if not chunks:
        return "-"
    return ",".join(bytes(c).hex() if c else "." for c in chunks)


def fmt_triples(s):
    return ";".join("%d:%d:%d" % t for t in sorted(s)) if s else "-"


class Lockstep:
    def __init__(self):
        self.m = Model("m_rx").start()

    def close(self):
        self.m.close()

    def run(self, kind, chunks):
        """model answer under the probed oracle (least fixpoint) -> (items, errs, state, spec_outs)"""
        und = {"rx": set(), "tx": set()}
        ch = fmt_chunks(chunks)
        for _ in range(400):
            ans = self.m.ask("%s %s %s %s" % (kind, ch, fmt_triples(und["rx"]), fmt_triples(und["tx"])))
            if not ans.startswith("ok "):
                raise InfraError("m_rx answered %r" % ans)
            items_t, errs_t, state = [x.strip() for x in ans[3:].split("|")]
            spec = self.m.ask("spec %s %s %s %s" % (kind, ch, fmt_triples(und["rx"]), fmt_triples(und["tx"])))
            if not spec.startswith("ok "):
                raise InfraError("m_rx answered %r" % spec)
            spec_t = spec[3:].strip()
            items, triples = canon_model_items(items_t)
            spec_plain = " ".join(t for t in spec_t.split(" ") if t != "malformed") or "-"
            _, triples2 = canon_model_items(spec_plain)
            new = False
            for (path, b, d, dt) in set(triples + triples2):
                if not decodes(kind, path, b, d, dt) and (b, d, dt) not in und[path]:
                    und[path].add((b, d, dt))
                    new = True
            if not new:
                spec_items = None
                if "malformed" not in spec_t.split(" "):
                    spec_items, _ = canon_model_items(spec_t)
                return items, ([] if errs_t == "-" else errs_t.split(",")), state, spec_items
        raise InfraError("oracle fixpoint did not converge")


# ---------------------------------------------------------------------------
# stream generators
# ---------------------------------------------------------------------------

POOL16 = [0xC106, 0xC108, 0xC1FF, 0xC100, 0x01E3, 0x0590, 0xFE80, 0xFF00, 0xA300, 0xA100, 0x0120, 0xFF21, 0x03F0,
          0x0300, 0xBB00, 0xC101, 0x07ED, 0x01E0, 0xFFE3]
POOL24 = [0xC10000, 0x01FE30, 0xFFFE00, 0xC1C106, 0x0100C1, 0x800000, 0x010600, 0xFFFF1D]


def rand_frame_bytes(rng, n=None):
    k = rng.random()
    if n is None:
        n = rng.choice([2, 2, 2, 3, 3, 1, 0, 4, rng.randrange(0, 17)])
    if n == 2 and k < 0.7:
        return list(rng.choice(POOL16).to_bytes(2, "big"))
    if n == 3 and k < 0.5:
        return list(rng.choice(POOL24).to_bytes(3, "big"))
    return [rng.randrange(256) for _ in range(n)]


def luba_valid_frame(rng, wellformed=True):
    """a checksum-valid LUBA frame; returns (bytes, kindtag)"""
    k = rng.random()
    if k < 0.45:   # event
        et = rng.choice([0, 2, 2, 2, 1, 3])
        if et == 0:
            fr = rand_frame_bytes(rng)
            fr = fr[:15]
            payload = [rng.randrange(256), rng.randrange(256), 0, rng.randrange(64), rng.randrange(256)] + fr
            if not wellformed and rng.random() < 0.5:
                payload = payload[:rng.randrange(1, 5)]
            return luba_frame(0x31, payload), "event-sent"
        if et == 2:
            fr = rand_frame_bytes(rng)[:16]
            info = rng.choice([8 * len(fr) if 0 < 8 * len(fr) <= 32 else 16, rng.randrange(1, 33), 62, 63, 0,
                               rng.randrange(33, 62)])
            payload = [rng.randrange(256), rng.randrange(256), 0, 0x80 | info] + fr
            if not wellformed and rng.random() < 0.5:
                payload = payload[:rng.randrange(1, 4)]
            return luba_frame(0x31, payload), "event-recv"
        payload = [0, 0, 0, (et << 6) | rng.randrange(64)] + [rng.randrange(256) for _ in range(rng.randrange(0, 6))]
        return luba_frame(0x31, payload), "event-other"
    if k < 0.55:
        n = rng.choice([1, 2]) if wellformed else rng.choice([1, 2, 3, 5, 20])
        return luba_frame(0x33, [rng.randrange(256) for _ in range(n)]), "txrsp"
    if k < 0.65:
        n = 20 if wellformed else rng.choice([20, 18, 19, 1, 17])
        return luba_frame(0x21, [rng.randrange(256) for _ in range(n)]), "devinfo"
    if k < 0.75:
        n = rng.choice([2, 3, 3, 4]) if wellformed else rng.choice([1, 2, 3])
        return luba_frame(0x2B, [rng.randrange(256) for _ in range(n)]), "settings"
    if k < 0.85:
        cmd = rng.choice([0x2A, 0x2C, 0x2D, 0x20, 0x32, 0x34, 0x35, 0x36, 0x37])
        return luba_frame(cmd, [rng.randrange(256) for _ in range(rng.randrange(1, 21))]), "known-unhandled"
    cmd = rng.choice([0x00, 0x30, 0x38, 0x59, 0xFF, rng.randrange(256)])
    return luba_frame(cmd, [rng.randrange(256) for _ in range(rng.randrange(1, 21))]), "unknown-type"


def luba_stream(rng, corr, wellformed=True, nparts=None):
    parts = []
    for _ in range(nparts or rng.randrange(1, 9)):
        k = rng.random()
        piece = []
        if k < 0.55:
            f, tag = luba_valid_frame(rng, wellformed)
            corr.bump("luba:" + tag)
            piece = f
        elif k < 0.65:
            f, _ = luba_valid_frame(rng, wellformed)
            i = rng.randrange(3, len(f))
            f[i] ^= rng.randrange(1, 256)
            corr.bump("luba:corrupted")
            piece = f
        elif k < 0.72:
            f, _ = luba_valid_frame(rng, wellformed)
            corr.bump("luba:truncated")
            piece = f[:rng.randrange(1, len(f))]
        elif k < 0.82:
            corr.bump("luba:bad-length")
            piece = [Y, rng.choice([0x31, 0x21, rng.randrange(256)]),
                     rng.choice([0, 21, 22, 23, 24, 25, 255, rng.randrange(21, 256)])]
        elif k < 0.92:
            corr.bump("luba:noise")
            piece = [rng.choice([Y, 0, 0x31, rng.randrange(256)]) for _ in range(rng.randrange(1, 12))]
        else:
            corr.bump("luba:idle")
            piece = [0] * rng.randrange(1, 30)
        parts += piece
        # the same bytes again, immediately (a gateway reporting the same thing twice or three times)
        if rng.random() < 0.2:
            corr.bump("luba:repeated")
            parts += piece * rng.randrange(1, 3)
    return parts


def sci_stream(rng, corr):
    parts = []
    for _ in range(rng.randrange(1, 10)):
        k = rng.random()
        if k < 0.7:
            code = rng.choice([0, 1, 2, 3, 3, 3, 8, 8, 7, 7, 4, 5, 6, rng.randrange(9, 16)])
            status = (rng.randrange(16) << 4) | code
            if code == 3 and rng.random() < 0.7:
                d = rng.choice(POOL16)
                f = sci_frame(status, rng.randrange(256), d >> 8, d & 0xFF)
            elif code == 8 and rng.random() < 0.5:
                d = rng.choice(POOL24)
                f = sci_frame(status, d >> 16, (d >> 8) & 0xFF, d & 0xFF)
            elif code == 7:
                f = sci_frame(status, rng.randrange(256), rng.randrange(256), rng.choice([0, 1, 2, 3, 4, 5, 6, 255]))
            else:
                f = sci_frame(status, rng.randrange(256), rng.randrange(256), rng.randrange(256))
            corr.bump("sci:code%d" % code)
            piece = f
        elif k < 0.82:
            f = sci_frame(rng.randrange(256), rng.randrange(256), rng.randrange(256), rng.randrange(256))
            f[rng.randrange(5)] ^= rng.randrange(1, 256)
            corr.bump("sci:corrupted")
            piece = f
        else:
            corr.bump("sci:noise")
            piece = [rng.randrange(256) for _ in range(rng.randrange(1, 9))]
        parts += piece
        # the same bytes again, immediately (a persistent fault is reported over and over)
        if rng.random() < 0.2:
            corr.bump("sci:repeated")
            parts += piece * rng.randrange(1, 3)
    return parts


# ---- repeated frames: a receiver is a function of the byte stream, it has no memory of delivered items ----

def luba_catalogue(rng):
    """one or more checksum-valid, well-formed frames of every kind the receiver distinguishes"""
    cat = []
    for d in (0xC106, 0xFE80, 0xA300, 0x01E3):
        cat.append(("event-sent16", luba_frame(0x31, [0, 0, 0, 0x10, rng.randrange(256), d >> 8, d & 255])))
        cat.append(("event-recv16", luba_frame(0x31, [0, 0, 0, 0x90, d >> 8, d & 255])))
    cat.append(("event-sent-none", luba_frame(0x31, [0, 0, 0, 0x00, 9])))
    cat.append(("event-recv8", luba_frame(0x31, [0, 0, 0, 0x88, rng.randrange(256)])))
    cat.append(("event-recv24", luba_frame(0x31, [0, 0, 0, 0x98, 0xC1, 0x00, 0x00])))
    cat.append(("event-recv24", luba_frame(0x31, [0, 0, 0, 0x98, 0x01, 0xFE, 0x30])))
    # observed 24-bit EVENT messages of every addressing scheme, with the all-zero and the all-ones value of each
    # field (instance number 0, group 0, type 0, …)
    for d in (0x028005, 0x02FC05, 0x7E8005, 0x000005, 0x00FFFF, 0x80000A, 0x807C0A, 0xC0000A, 0xFE83FF, 0x808005,
              0xBE8005, 0xC08005, 0xFEFFFF):
        cat.append(("event-recv24ev", luba_frame(0x31, [0, 0, 0, 0x98, d >> 16, (d >> 8) & 255, d & 255])))
        cat.append(("event-sent24ev", luba_frame(0x31, [0, 0, 0, 0x18, rng.randrange(256), d >> 16, (d >> 8) & 255,
                                                        d & 255])))
    cat.append(("event-recv-err", luba_frame(0x31, [0, 0, 0, 0x80 | 62, 0])))
    cat.append(("event-other1", luba_frame(0x31, [0, 0, 0, 0x40 | 5, 1, 2])))
    cat.append(("event-other3", luba_frame(0x31, [0, 0, 0, 0xC0 | 1])))
    cat.append(("txrsp1", luba_frame(0x33, [rng.randrange(256)])))
    cat.append(("txrsp2", luba_frame(0x33, [rng.randrange(256), rng.randrange(256)])))
    cat.append(("devinfo", luba_frame(0x21, [rng.randrange(256) for _ in range(20)])))
    cat.append(("settings", luba_frame(0x2B, [1, 0x12, 0])))
    cat.append(("known-unhandled", luba_frame(0x2D, [1, 2, 3])))
    cat.append(("unknown-type", luba_frame(0x77, [1, 2])))
    for _ in range(12):
        f, tag = luba_valid_frame(rng, True)
        cat.append((tag, f))
    return cat


def luba_dropped(rng):
    """frames the receiver must drop without any lasting effect"""
    bad = luba_frame(0x31, [0, 0, 0, 0x88, 0x33])
    bad[-1] ^= 0x5A
    # … an unknown message type AND a failing checksum, for payload lengths 1, 3, 20
    worse = []
    for t, n in ((0x77, 1), (0x02, 3), (0xEE, 20), (0x30, 2)):
        f = luba_frame(t, [rng.randrange(256) for _ in range(n)])
        f[-1] ^= 0x21
        worse.append(f)
    return [bad, luba_frame(0x77, [1, 2, 3]), [Y, 0x31, 0], [Y, 0x31, 21], [0] * 5] + worse


def sci_catalogue(rng):
    cat = []
    for code in range(16):
        for ident in (0, 3, 15):
            status = (ident << 4) | code
            if code == 7:
                for lo in (0, 1, 2, 3, 4, 5, 6, 255):
                    cat.append(("code7:%d" % lo, sci_frame(status, 0, 0, lo)))
                cat.append(("code7:2", sci_frame(status, rng.randrange(256), rng.randrange(256), 2)))
            elif code == 3:
                for d in (0xC106, 0xFE80, 0xA300, 0x01E3):
                    cat.append(("code3", sci_frame(status, rng.randrange(256), d >> 8, d & 255)))
            elif code == 8:
                for d in (0xC10000, 0x01FE30, 0x028005, 0x02FC05, 0x000005, 0x80000A, 0xC0000A, 0xFE83FF):
                    cat.append(("code8", sci_frame(status, d >> 16, (d >> 8) & 255, d & 255)))
            else:
                cat.append(("code%d" % code, sci_frame(status, rng.randrange(256), rng.randrange(256), 0x55)))
    return cat


def sci_dropped(rng):
    bad = sci_frame(0x33, 0, 0xFF, 0x06)
    bad[4] ^= 0x5A
    return [bad, sci_frame(0x39, 1, 2, 3), sci_frame(0x3F, 0, 0, 2), sci_frame(0x37, 0, 0, 0), sci_frame(0x37, 0, 0, 9),
            sci_frame(0x34, 0, 0, 2)]


def repeat_suite(ctx, corr, ls):
    """every frame kind immediately repeated 2-3 times, identical error reports back to back and separated only by
    dropped frames; the comparison with the reference deframer (which has no memory) is the oracle, plus the direct
    statement: k copies of a frame that delivers `items` on its own (and does not change the device-type memory)
    deliver k * items."""
    rng = ctx.rng

    def both(kind, suite, stream):
        r = None
        for ch in ([list(stream)], [[b] for b in stream]):
            impl, spec_items = compare(ctx, corr, ls, kind, suite, ch)
            r = impl["items"]
        return r

    def direct(kind, tag, f, k, got):
        """k copies vs k times the items of one copy - checked on the real code alone (no model, no reference)"""
        one = Real(kind)
        one.feed([f])
        single = canon_real(kind, one.log)
        st0 = Real(kind).state()
        if one.errs or one.state() != st0:      # device-type memory changed: copies may legitimately differ
            return
        if got != single * k:
            corr.violate("%s:repeat" % kind, {"proto": kind, "chunks": fmt_chunks([f * k])}, single * k, got,
                         "a frame received %d times in a row is not delivered %d times (%s)" % (k, k, tag))

    for kind, cat, dropped in (("luba", luba_catalogue(rng), luba_dropped(rng)),
                               ("sci", sci_catalogue(rng), sci_dropped(rng))):
        for tag, f in cat:
            corr.bump("%s:repeat:%s" % (kind, tag.split(":")[0]))
            for k in (2, 3):
                got = both(kind, kind + "_repeat", f * k)
                direct(kind, tag, f, k, got)
            # a long monitoring session: the same kind of item 40 times in a row with nobody taking items off the
            # queues (a bus monitor that reads later, an application that only sends): all 40 are there, in order,
            # and the receiver is still in step  (strengthening after seeded round 6)
            got = None
            for ch in ([list(f * 40)], [list(f * 17), list(f * 23)]):
                impl, _spec = compare(ctx, corr, ls, kind, kind + "_long", ch)
                got = impl["items"]
            direct(kind, tag, f, 40, got)
            # the same frame again after frames that are dropped (bad checksum, unknown type/status, bad length)
            d = rng.choice(dropped)
            both(kind, kind + "_repeat", f + d + f)
            d2 = rng.choice(dropped)
            both(kind, kind + "_repeat", f + d + d2 + f + f)
    # 300 backward frames / observed commands in one go (several seconds of bus traffic)
    for kind, frames in (("luba", [luba_frame(0x31, [0, 0, 0, 0x88, 0x21]), luba_frame(0x31, [0, 0, 0, 0x90, 0xFE, 0x80])]),
                         ("sci", [sci_frame(0x32, 0, 0, 0x21), sci_frame(0x33, 0, 0xFE, 0x80)])):
        for f in frames:
            impl, _spec = compare(ctx, corr, ls, kind, kind + "_long", [list(f * 300)])
            direct(kind, "300 in a row", f, 300, impl["items"])
    # SCI error reports: all pairs of error codes, back to back / separated by every kind of dropped frame / by
    # a delivered frame
    err = lambda c, ident=3: sci_frame((ident << 4) | 7, 0, 0, c)  # noqa
    for a in (1, 2, 3, 4, 5):
        for b in (1, 2, 3, 4, 5):
            both("sci", "sci_repeat", err(a) + err(b) + err(a))
            both("sci", "sci_repeat", err(a) + err(b) + err(b) + err(a) + err(a))
        for d in sci_dropped(rng):
            both("sci", "sci_repeat", err(a) + d + err(a))
            both("sci", "sci_repeat", err(a) + d + d + err(a) + d + err(a))
        both("sci", "sci_repeat", err(a) + sci_frame(0x30, 0, 0, 0) + err(a))
        both("sci", "sci_repeat", err(a) * 3 + sci_frame(0x32, 0, 0, 0x77))
        both("sci", "sci_repeat", err(a, 1) + err(a, 2) + err(a, 1))
    corr.exhaustive["SCI error code pairs 1..5 x 1..5 back to back"] = True


def chunkings(rng, stream):
    """three ways of splitting the stream into reads"""
    res = [[list(stream)], [[b] for b in stream]]
    cuts = sorted(rng.randrange(len(stream) + 1) for _ in range(rng.randrange(0, 6)))
    ch, prev = [], 0
    for c in cuts + [len(stream)]:
        ch.append(list(stream[prev:c]))
        prev = c
    res.append(ch)
    return res


# ---------------------------------------------------------------------------
# one comparison
# ---------------------------------------------------------------------------

def compare(ctx, corr, ls, kind, suite, chunks, expect_last=None):
    """Run real code, model and reference on one chunked stream."""
    real = Real(kind)
    real.feed(chunks)
    ritems = canon_real(kind, real.log)
    # what a consumer finds on the queues must be what was put, per queue, in order
    qc = real.queue_contents()
    for tag, items in qc.items():
        logged = [i for t, i in real.log if t == tag]
        if [id(x) for x in items] != [id(x) for x in logged] and items != logged:
            corr.disagree(suite, {"proto": kind, "chunks": fmt_chunks(chunks)}, "queue %s = puts" % tag, "differs")
    mitems, merrs, mstate, spec_items = ls.run(kind, chunks)
    inp = {"proto": kind, "chunks": fmt_chunks(chunks)}
    impl = {"items": ritems, "errors": real.errs, "state": real.state()}
    model = {"items": mitems, "errors": merrs, "state": mstate}
    corr.count(suite)
    if impl != model:
        corr.disagree(suite, inp, model, impl)
    if spec_items is None:
        corr.bump(kind + ":set-aside(malformed payload)")
    else:
        corr.bump(kind + ":well-formed")
        if real.errs:
            corr.violate("%s:exception-escapes" % kind, inp, "no exception; items %s" % spec_items,
                         {"errors": real.errs, "items": ritems},
                         "data_received raised on a stream with no malformed payload")
        elif ritems != spec_items:
            corr.violate("%s:deframe" % kind, inp, spec_items, ritems,
                         "delivered items differ from the reference deframer")
        elif expect_last is not None and (not ritems or ritems[-len(expect_last):] != expect_last):
            corr.violate("%s:resync" % kind, inp, "last items %s" % expect_last, ritems,
                         "a well-formed frame after an idle line was not delivered")
    for it in ritems:
        corr.nontrivial((kind, it.split(":")[0], it.split(":")[-1] if it.startswith(("obs", "txconf")) else ""))
    for e in real.errs:
        corr.nontrivial((kind, "err", e))
    return impl, spec_items


def correspond(ctx, corr):
    import dali.gear.general  # noqa  (registry as the drivers see it)
    import dali.driver.serial  # noqa
    rng = ctx.rng
    ls = Lockstep()
    corr.rule.append(
        "real LubaProtocol/SCIRS232Protocol.data_received vs Lean model (items in put order, escaping exception "
        "classes, final state) and vs Lean reference deframer (items; streams with malformed payloads set aside): "
        "EXHAUSTIVE every LUBA length byte 0..255 at the length position x 3 types x 2 continuations, every SCI status "
        "byte 0..255 x valid/invalid checksum, every EnableDeviceType operand x following frame; SAMPLED "
        "grammar-guided streams (valid frames of every type, corrupted checksums, truncations, bad lengths, noise, idle) "
        "x 3 chunkings each (whole, byte-wise, random), pieces repeated 2-3 times with probability 0.2; every frame kind "
        "(LUBA and SCI catalogue) immediately repeated 2 and 3 times and repeated after dropped frames, all pairs of SCI "
        "error codes back to back; resync streams prefix + 24 idle bytes + frame; "
        "non-trivial = distinct (protocol, item kind, decoded class / exception class)")
    try:
        # ---- EnableDeviceType recognition (model: 16-bit frame C1 xx), exhaustive over the operand
        for x in range(256):
            for dt in (0, 6, 255):
                want = "EnableDeviceType"
                if redecode_class(16, 0xC100 | x, dt) != want:
                    corr.disagree("edt", {"frame": hex(0xC100 | x), "dt": dt}, want, redecode_class(16, 0xC100 | x, dt))
                corr.count("edt")
        # a 16-bit frame with another first byte never is one (sampled), nor is any 24-bit frame
        for _ in range(3000 if ctx.thorough else 600):
            d = rng.randrange(65536)
            if d >> 8 != 0xC1 and redecode_class(16, d, rng.choice([0, 6, 8])) == "EnableDeviceType":
                corr.disagree("edt", {"frame": hex(d)}, "not EnableDeviceType", "EnableDeviceType")
            d = rng.choice([0xC10000 | rng.randrange(65536), rng.randrange(1 << 24)])
            if redecode_class(24, d, 0) == "EnableDeviceType":
                corr.disagree("edt", {"frame": hex(d)}, "not EnableDeviceType", "EnableDeviceType")
            corr.count("edt", 2)
        corr.exhaustive["EnableDeviceType operand 0..255"] = True

        # ---- every length byte at the length position (exhaustive)
        tail, _ = luba_frame(0x2B, [1, 0x12, 0]), None
        for L in range(256):
            for cmd in (0x31, 0x21, 0x99):
                for cont in (0, 1):
                    filler = [rng.randrange(256) for _ in range(40)] if cont else [0] * 40
                    stream = [Y, cmd, L] + filler + [0] * 24 + tail
                    for ch in ([stream], [[b] for b in stream]):
                        compare(ctx, corr, ls, "luba", "luba_length_byte", ch,
                                expect_last=["settings:1:18"])
        corr.exhaustive["LUBA length byte 0..255"] = True
        # exact-fit frames for every admissible length, valid checksum
        for L in range(1, 24):
            for cmd in (0x31, 0x21, 0x2B, 0x33, 0x2D, 0x77):
                payload = [rng.randrange(256) for _ in range(L)]
                body = [cmd, L] + payload
                stream = [Y] + body + [xor(body)] + [0] * 30 + tail
                compare(ctx, corr, ls, "luba", "luba_length_byte", [stream])

        # ---- every SCI status byte (exhaustive), good and bad checksum
        for st in range(256):
            for lo in (0, 1, 3, 5, 6, 0xE3):
                f = sci_frame(st, 0x01, 0xC1 if lo == 6 else 0x01, lo)
                g = list(f)
                g[4] ^= 0x40
                stream = f + sci_frame(0x03, 0, 0x01, 0xE3) + g + sci_frame(0x02, 0, 0, 0x55)
                compare(ctx, corr, ls, "sci", "sci_status_byte", [stream], expect_last=["raw:85"])
        corr.exhaustive["SCI status byte 0..255"] = True

        # ---- repeated frames (no memory of delivered items)
        repeat_suite(ctx, corr, ls)

        # ---- grammar-guided streams x chunkings
        n = 2500 if ctx.thorough else 450
        for i in range(n):
            wf = rng.random() < 0.75
            stream = luba_stream(rng, corr, wellformed=wf)
            first = None
            for ch in chunkings(rng, stream):
                impl, spec_items = compare(ctx, corr, ls, "luba", "luba_streams", ch)
                if spec_items is not None:
                    if first is None:
                        first = impl["items"]
                    elif impl["items"] != first:
                        corr.violate("luba:chunking", {"proto": "luba", "chunks": fmt_chunks(ch)}, first,
                                     impl["items"], "result depends on how the stream was chunked")
            if i < 2:
                corr.sample({"suite": "luba_streams", "stream": bytes(stream).hex()})
        for i in range(n):
            stream = sci_stream(rng, corr)
            first = None
            for ch in chunkings(rng, stream):
                impl, spec_items = compare(ctx, corr, ls, "sci", "sci_streams", ch)
                if first is None:
                    first = impl["items"]
                elif impl["items"] != first:
                    corr.violate("sci:chunking", {"proto": "sci", "chunks": fmt_chunks(ch)}, first,
                                 impl["items"], "result depends on how the stream was chunked")
            if i < 2:
                corr.sample({"suite": "sci_streams", "stream": bytes(stream).hex()})

        # ---- resynchronisation: any prefix, an idle line, then a well-formed frame
        for i in range(1200 if ctx.thorough else 250):
            prefix = luba_stream(rng, corr, wellformed=True, nparts=rng.randrange(1, 4))
            if rng.random() < 0.5:
                prefix = prefix[:rng.randrange(len(prefix) + 1)]
            v = rng.randrange(256)
            last = luba_frame(0x31, [0, 0, 0, 0x88, v])
            stream = prefix + [0] * 24 + last
            compare(ctx, corr, ls, "luba", "luba_resync", rng.choice(chunkings(rng, stream)),
                    expect_last=["raw:%d" % v])
        # device-type memory across frames (observed EnableDeviceType then a type-specific command)
        for dt in (0, 1, 6, 8, 255):
            for d in POOL16:
                stream = luba_frame(0x31, [0, 0, 0, 0x90, 0xC1, dt]) + luba_frame(0x31, [0, 0, 0, 0x90, d >> 8, d & 255]) \
                    + luba_frame(0x31, [0, 0, 0, 0x90, d >> 8, d & 255]) \
                    + luba_frame(0x31, [0, 0, 0, 0x00, 1, 0xC1, dt]) + luba_frame(0x31, [0, 0, 0, 0x00, 2, d >> 8, d & 255])
                compare(ctx, corr, ls, "luba", "luba_devicetype", [stream])
                stream = sci_frame(0x03, 0, 0xC1, dt) + sci_frame(0x03, 0, d >> 8, d & 255) + \
                    sci_frame(0x03, 0, d >> 8, d & 255)
                compare(ctx, corr, ls, "sci", "sci_devicetype", [stream])
    finally:
        ls.close()
    seen = set()
    for (kind, path, bits, data, dt), errs in _probe_errors:
        if (kind, path, tuple(errs)) in seen:
            continue
        seen.add((kind, path, tuple(errs)))
        corr.violate("rx:%s:internal-error" % kind,
                     {"receiver": kind, "frame": "%d bits, value %#x, seen as %s" % (
                         bits, data, "an observed frame" if path == "rx" else "a transmit confirmation"),
                      "device type remembered from the preceding EnableDeviceType": dt},
                     "the frame is delivered; no exception leaves data_received", " ".join(errs),
                     "a single well-formed frame makes the receiver raise or is dropped")


def _rerun(ctx, inp):
    kind = inp["proto"]
    chs = inp["chunks"]
    chunks = [] if chs == "-" else [list(bytes.fromhex(c)) if c != "." else [] for c in chs.split(",")]
    ls = Lockstep()
    try:
        real = Real(kind)
        real.feed(chunks)
        ritems = canon_real(kind, real.log)
        mitems, merrs, mstate, spec_items = ls.run(kind, chunks)
    finally:
        ls.close()
    print("input  :", kind, chs)
    print("code   : items", ritems, "errors", real.errs, "state", real.state())
    print("model  : items", mitems, "errors", merrs, "state", mstate)
    print("refer. :", "set aside (malformed payload)" if spec_items is None else spec_items)
    if spec_items is None:
        return {"items": ritems, "errors": real.errs, "state": real.state()} != \
            {"items": mitems, "errors": merrs, "state": mstate}
    return bool(real.errs) or ritems != spec_items


def replay(ctx, payload):
    v = payload.get("failure") or {}
    inp = v.get("input")
    if not isinstance(inp, dict) or "chunks" not in inp:
        ds = [d for d in payload.get("disagreements", []) if d and isinstance(d.get("input"), dict)
              and "chunks" in d["input"]]
        if not ds:
            print("nothing to replay")
            return True
        inp = ds[0]["input"]
    return _rerun(ctx, inp)


def search(ctx, corr, broken):
    """A proof or the model/code tie broke: evaluate the property on the real code for the
    inputs that disagreed and on the classic dangerous inputs."""
    found = []
    ls = Lockstep()
    try:
        cands = [d["input"] for d in corr.disagreements if d and isinstance(d.get("input"), dict)
                 and "chunks" in d["input"]]
        for L in (20, 21, 22, 23):
            cands.append({"proto": "luba", "chunks": bytes([Y, 0x31, L] + [0] * 60 + luba_frame(0x2B, [1, 2, 3])).hex()})
        for inp in cands[:200]:
            kind = inp["proto"]
            chunks = [] if inp["chunks"] == "-" else [list(bytes.fromhex(c)) if c != "." else []
                                                     for c in inp["chunks"].split(",")]
            real = Real(kind)
            real.feed(chunks)
            ritems = canon_real(kind, real.log)
            _, _, _, spec_items = ls.run(kind, chunks)
            if spec_items is None:
                continue
            if real.errs:
                found.append({"key": "%s:exception-escapes" % kind, "input": inp, "expected": spec_items,
                              "observed": {"errors": real.errs, "items": ritems}, "note": "search"})
            elif ritems != spec_items:
                found.append({"key": "%s:deframe" % kind, "input": inp, "expected": spec_items,
                              "observed": ritems, "note": "search"})
    finally:
        ls.close()
    return found
