"""Lock-step engine shared by the C07 / C08 / C14 harnesses.

The real generator (dali/sequences.py, dali/gear/sequences.py) is driven here;
every yielded command goes, as (frame integer, class name, devicetype), to the
Lean driver `m_gearseq`, which checks it against the model of the sequence,
feeds it to the Lean specification bus (the only oracle) and answers with the
bus's response; that response is wrapped in the command's real response class
and sent into the generator.  At the end the driver reports model agreement
and the property's post-condition evaluated on what the real code did.

A scenario is a plain dict (JSON-able, so that it can be replayed):
  {"kind": "qdt"|"groups"|"setgroups"|"settc"|"settclimit"|"qcolour"|"comm",
   "bus": [unit-token, ...]  or  "stream": ["255", "6", "n", "e", ...],
   ... kind-specific arguments ...}
"""
from common import exc_name  # noqa: E402
from common import Model, InfraError

CAP_DEFAULT = 3000


def unit(**kw):
    """unit token for the driver; lists are dot-separated; None short = '-'"""
    parts = []
    for k, v in kw.items():
        if k == "s" and v is None:
            v = "-"
        elif k == "o":
            v = ".".join("%d:%d" % (a, b) for a, b in v)
        elif isinstance(v, (list, tuple)):
            v = ".".join(str(int(x)) for x in v)
        elif isinstance(v, bool):
            v = int(v)
        parts.append("%s=%s" % (k, v))
    return ",".join(parts) if parts else "s=-"


def dest_obj(tok):
    from dali import address
    if tok == "B":
        return address.GearBroadcast()
    if tok == "U":
        return address.GearBroadcastUnaddressed()
    if tok[0] == "S":
        return address.GearShort(int(tok[1:]))
    if tok[0] == "G":
        return address.GearGroup(int(tok[1:]))
    if tok[0] == "I":
        return int(tok[1:])
    raise ValueError(tok)


def pytok(v):
    """token of a Python argument (Drivers/Proto.lean)"""
    from common import tok
    return tok(v)


def unpytok(t):
    if t == "n":
        return None
    if t == "o":
        return object()
    if t.startswith("i:"):
        return int(t[2:])
    if t.startswith("b:"):
        return t == "b:1"
    if t.startswith("s:"):
        return t[2:]
    if t == "f:x":
        return 1.5
    if t.startswith("f:"):
        return float(t[2:])
    raise ValueError(t)


def set_orders(groups, current_mask):
    """the iteration orders CPython uses for `groups - existing` and `existing - groups`
    when `existing` is built the way QueryGroups builds it"""
    existing = set()
    for i in range(16):
        if current_mask >> i & 1:
            existing.add(i)
    return list(groups - existing), list(existing - groups)


def lst(l):
    return "l:" + ",".join(str(int(x)) for x in l)


def build(sc):
    """-> (start line, generator factory, formatter of the return value)"""
    from dali import sequences as S
    from dali.gear import sequences as GS
    from dali.gear import colour
    k = sc["kind"]
    if k == "qdt":
        return ("start qdt %s" % sc["dest"], lambda: S.QueryDeviceTypes(dest_obj(sc["dest"])),
                lambda r: lst(r) if isinstance(r, list) else None)
    if k == "groups":
        return ("start groups %s" % sc["dest"], lambda: S.QueryGroups(dest_obj(sc["dest"])),
                lambda r: lst(sorted(r)) if isinstance(r, set) else None)
    if k == "setgroups":
        groups = set()
        for g in sc["req"]:       # insertion order is part of the scenario
            groups.add(g)
        oa, orr = set_orders(groups, sc.get("cur", 0))
        return ("start setgroups %s %s %s %s" % (sc["dest"], lst(sorted(groups)), lst(oa), lst(orr)),
                lambda: S.SetGroups(dest_obj(sc["dest"]), groups),
                lambda r: "u" if r is None else None)
    if k == "settc":
        tc = unpytok(sc["tc"])
        return ("start settc %s %s" % (sc["dest"], sc["tc"]),
                lambda: GS.SetDT8ColourValueTc(dest_obj(sc["dest"]), tc),
                lambda r: "u" if r is None else None)
    if k == "settclimit":
        tc = unpytok(sc["tc"])
        w = unpytok(sc["w"])
        if sc.get("enum") and isinstance(w, int):
            # the member is chosen by its NAME as IEC 62386-209 command 242 numbers the limits (0 coolest,
            # 1 warmest, 2 physical coolest, 3 physical warmest), not by whatever value the library gives it
            std_names = {0: "TcCoolest", 1: "TcWarmest", 2: "TcPhysicalCoolest", 3: "TcPhysicalWarmest"}
            w = getattr(colour.StoreColourTemperatureTcLimitDTR2, std_names[w])
        return ("start settclimit %s %s %s" % (sc["dest"], sc["w"], sc["tc"]),
                lambda: GS.SetDT8TcLimit(dest_obj(sc["dest"]), w, tc),
                lambda r: "u" if r is None else None)
    if k == "qcolour":
        q = sc["q"]
        if q.startswith("i:"):
            qobj = colour.QueryColourValueDTR(int(q[2:]))
            qt = q
        else:                       # not an enum member: raw int / None / str …
            qobj = unpytok(q[4:])   # "raw:<pytok>"
            qt = "n"
        return ("start qcolour %s %s" % (sc["dest"], qt),
                lambda: GS.QueryDT8ColourValue(dest_obj(sc["dest"]), qobj),
                lambda r: "n" if r is None else ("i:%d" % r if isinstance(r, int) and not isinstance(r, bool)
                                                 else None))
    if k == "comm":
        av = sc.get("avail")
        form = sc.get("avail_form", "list")

        def permitted():
            # the library copies whatever iterable it is given (`list(available_addresses)`): every carrier of the
            # same addresses must therefore behave like the list
            if av is None:
                return None
            return {"list": list, "tuple": tuple, "iter": lambda x: iter(list(x)),
                    "generator": lambda x: (a for a in list(x)), "dictkeys": lambda x: dict.fromkeys(x).keys()}[form](av)
        return ("start comm %s %d %d" % ("n" if av is None else lst(av), sc["readdress"], sc["dry"]),
                lambda: S.Commissioning(available_addresses=permitted(),
                                        readdress=bool(sc["readdress"]), dry_run=bool(sc["dry"])),
                lambda r: "u" if r is None else None)
    raise ValueError(k)


class Session:
    def __init__(self):
        self.m = Model("m_gearseq").start()
        self.asks = 0

    def close(self):
        self.m.close()

    def ask(self, line):
        self.asks += 1
        return self.m.ask(line)

    def run(self, sc, rng=None, cap=CAP_DEFAULT, dump=False):
        """Run one scenario in lock-step.  Result dict:
        agree (bool), detail, post ('ok'|'FAIL'|'n/a'), n, result, problem (None | text)"""
        from dali import command, frame
        from dali.sequences import progress, sleep
        start, factory, fmt = build(sc)
        env = ("stream " + " ".join(sc["stream"])) if "stream" in sc else ("bus " + " ".join(sc["bus"]))
        a = self.ask(env + " ; " + start)
        if a != "ok ; ok":
            raise InfraError("driver refused scenario %r: %s" % (sc, a))
        res = {"agree": True, "detail": "", "post": "n/a", "n": 0, "result": None, "problem": None}
        n = 0
        try:
            gen = factory()
            resp = None
            first = True
            while True:
                obj = next(gen) if first else gen.send(resp)
                first = False
                resp = None
                if isinstance(obj, command.Command):
                    n += 1
                    if n > cap:
                        gen.close()
                        res.update(problem="no end after %d commands" % cap, result="LOOP")
                        outcome = None
                        break
                    r = self.ask("cmd %d %s %d %d" % (obj.frame.as_integer, type(obj).__name__, obj.devicetype,
                                                      1 if obj.sendtwice else 0))
                    if r == "bad-op":
                        gen.close()
                        res.update(problem="unexpected command %s frame %#x" % (
                            type(obj).__name__, obj.frame.as_integer), result="UNKNOWN-COMMAND")
                        outcome = None
                        break
                    if r == "r n":
                        bf = None
                    elif r == "r e":
                        bf = frame.BackwardFrameError(rng.choice([0, 6, 254, 255, rng.randrange(256)])
                                                      if rng else 255)
                    elif r.startswith("r b "):
                        bf = frame.BackwardFrame(int(r[4:]))
                    else:
                        raise InfraError("driver answered %r" % r)
                    resp = obj.response(bf) if obj.response else None
                elif isinstance(obj, progress):
                    self.ask("note progress")
                elif isinstance(obj, sleep):
                    self.ask("note sleep")
                else:
                    gen.close()
                    res.update(problem="yielded %r" % (obj,), result="UNKNOWN-YIELD")
                    outcome = None
                    break
        except StopIteration as e:
            v = fmt(e.value)
            # whatever a sequence hands back belongs to the caller: a caller that edits it in place (the usual
            # read-modify-write of a group set, a device-type list) must not change what any later run returns
            try:
                if isinstance(e.value, set):
                    e.value.symmetric_difference_update({0, 9, 15})
                elif isinstance(e.value, list):
                    e.value.reverse()
                    e.value.append(255)
                elif isinstance(e.value, dict):
                    e.value.clear()
            except Exception:   # noqa - immutable results are fine
                pass
            if v is None:
                res.update(problem="returned %r" % (e.value,), result="BAD-RETURN")
                outcome = None
            else:
                outcome = "ret " + v
        except InfraError:
            raise
        except Exception as e:  # the sequence raised
            outcome = "err " + exc_name(e)
        res["n"] = n
        if outcome is None:
            res["agree"] = False
            res["post"] = "FAIL"
            res["detail"] = res["problem"]
            return res
        res["result"] = outcome
        a = self.ask("end " + outcome)
        if a == "bad-op":
            res.update(agree=False, post="FAIL", detail="driver cannot read outcome " + outcome,
                       problem="outcome " + outcome)
            return res
        parts = a.split()
        res["agree"] = parts[0] == "agree"
        res["detail"] = parts[0]
        res["post"] = parts[1].split("=", 1)[1]
        if dump:
            res["dump"] = self.ask("dump")
        return res

    def run_deferred(self, sc, cap=CAP_DEFAULT):
        """'Generate now, transmit later': a sequence none of whose commands expects an answer (settc, settclimit)
        is run to its end first and its command OBJECTS are kept; then the same sequence is generated for another
        destination (`sc["deferred"]`, e.g. the next luminaire of a scene), its objects kept alive too; only then
        are the first sequence's frames read off the kept objects and transmitted, in order, to the Lean bus.
        A command object is a value: what it carries cannot depend on commands built after it.  Same result dict
        as `run`."""
        from dali import command
        start, factory, fmt = build(sc)
        env = ("stream " + " ".join(sc["stream"])) if "stream" in sc else ("bus " + " ".join(sc["bus"]))
        a = self.ask(env + " ; " + start)
        if a != "ok ; ok":
            raise InfraError("driver refused scenario %r: %s" % (sc, a))
        res = {"agree": True, "detail": "", "post": "n/a", "n": 0, "result": None, "problem": None}

        def collect(fac):
            objs, outcome = [], None
            try:
                gen = fac()
                first = True
                while True:
                    obj = next(gen) if first else gen.send(None)
                    first = False
                    if isinstance(obj, command.Command):
                        objs.append(obj)
                        if len(objs) > cap:
                            gen.close()
                            return objs, "LOOP"
            except StopIteration as e:
                v = fmt(e.value)
                outcome = "BAD-RETURN" if v is None else "ret " + v
            except Exception as e:  # noqa
                outcome = "err " + exc_name(e)
            return objs, outcome
        objs, outcome = collect(factory)
        later = []
        for other in sc["deferred"]:
            later.append(collect(build(dict(sc, dest=other))[1]))      # kept alive until the end of this run
        for obj in objs:
            res["n"] += 1
            r = self.ask("cmd %d %s %d %d" % (obj.frame.as_integer, type(obj).__name__, obj.devicetype,
                                                      1 if obj.sendtwice else 0))
            if r == "bad-op":
                res.update(problem="unexpected command %s frame %#x" % (type(obj).__name__, obj.frame.as_integer),
                           result="UNKNOWN-COMMAND", agree=False, post="FAIL")
                res["detail"] = res["problem"]
                return res
        if outcome in ("LOOP", "BAD-RETURN"):
            res.update(problem=outcome, result=outcome, agree=False, post="FAIL", detail=outcome)
            return res
        res["result"] = outcome
        a = self.ask("end " + outcome)
        if a == "bad-op":
            res.update(agree=False, post="FAIL", detail="driver cannot read outcome " + outcome,
                       problem="outcome " + outcome)
            return res
        parts = a.split()
        res["agree"] = parts[0] == "agree"
        res["detail"] = parts[0]
        res["post"] = parts[1].split("=", 1)[1]
        del later
        return res

    def selfrun(self, sc):
        """the model alone against the same environment: '<outcome> post=… n=…'"""
        start, _, _ = build(sc)
        env = ("stream " + " ".join(sc["stream"])) if "stream" in sc else ("bus " + " ".join(sc["bus"]))
        return self.ask(env + " ; " + start + " ; selfrun").split(" ; ")[-1]


def judge(corr, suite, key, sc, res, note=""):
    """book one lock-step run: model-vs-code disagreement and/or property violation"""
    corr.count(suite)
    if res["post"].startswith("FAIL"):
        corr.violate(key, sc, "post-condition of the property on the specification bus",
                     {"result": res["result"], "commands": res["n"], "detail": res["detail"], "post": res["post"]},
                     note or "the real sequence, run against the Lean specification bus, contradicts the property")
    if not res["agree"]:
        corr.disagree(suite, sc, res["detail"], res["result"])


def replay_scenario(sc):
    s = Session()
    try:
        res = s.run_deferred(sc) if sc.get("deferred") else s.run(sc, dump=True)
        model = s.selfrun(sc)
    finally:
        s.close()
    print("scenario:", sc)
    print("implementation:", res["result"], "after", res["n"], "commands;", res["detail"],
          "; property post-condition:", res["post"])
    print("model alone   :", model)
    if "dump" in res:
        print("final bus     :", res["dump"])
    return res["post"].startswith("FAIL") or not res["agree"]
