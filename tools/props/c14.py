"""C14 — colour (DT8) sequences carry 16-bit values byte-exactly and in order.

Lock-step: SetDT8ColourValueTc / SetDT8TcLimit / QueryDT8ColourValue of
dali/gear/sequences.py against the Lean specification bus (m_gearseq); the
driver checks each yielded command against the Lean model and evaluates the
property's post-condition (Spec/GearPost.lean) on what the real code did."""
from common import exc_name  # noqa: E402
from props import gearseq_lib as L

ID = "C14"
MODULE = "DaliVerif.Props.C14"
EXES = ["m_gearseq"]
GEN = True
THEOREMS = ["setTc_spec", "setTc_exact", "setTcLimit_spec", "query_spec", "query_none", "rejects_early",
            "selectors_gen", "tcLimit_gen", "query_spec_gen", "cmd_frames_gen", "cmd_sendtwice_gen",
            "execFlagged_eq_exec", "addr_bytes_gen"]
TRUSTED = ["hand-written models Model/GearSeq.lean of SetDT8ColourValueTc, SetDT8TcLimit, QueryDT8ColourValue "
           "(dali/gear/sequences.py), tied by lock-step execution of the real generators (all 65 536 mirek values, "
           "all selectors of the enum)",
           "specification bus Spec/GearBus.lean: my reading of IEC 62386-209 (temporary/actual Tc, ACTIVATE, limits, "
           "QUERY COLOUR VALUE with LSB in DTR0, ENABLE DEVICE TYPE valid for one frame); Table 11 transcribed by hand",
           "translator plugin tools/gen/gearseq.py (enum members, command frames: data only)"]
ASSUMPTIONS = ["the driver transmits ENABLE DEVICE TYPE 8 directly before a command whose class has devicetype 8 "
               "(C15's subject); colour registers of the specification units are 16 bits wide",
               "limit handling of the unit is clamp to [coolest, warmest] at ACTIVATE; 0xFFFF (MASK) as a temporary "
               "value means 'no change'"]
PARTIAL = ("wrong-type arguments (float / None / str colour temperature, non-address destinations) are tied by lock-step "
           "only (exception class), not covered by a theorem; a destination of the wrong type raises after DTR0/DTR1 "
           "have been sent — outside the property's letter (it speaks of colour temperatures and selectors)")
LEVEL_TEXT = ("Lean 4 theorems for every tc < 65536, every destination kind, every selector and every bus size: exact "
              "command order DTR0(lo), DTR1(hi)[, DTR2(selector)], DT8 command[, ACTIVATE]; a conforming unit ends with "
              "exactly tc / the selected limit; the query returns exactly the unit's 16-bit register or None "
              "(against a bus, and against every answer stream); out-of-range tc and non-enum selectors are rejected "
              "before any command; the library's selector enums and command frames (regenerated each run) equal the "
              "hand-transcribed tables.")
LEVEL_NOTE = ("Trusted: Lean kernel; specification bus (reading of 62386-209); models tied by lock-step (exhaustive over "
              "65 536 mirek values and all enum selectors; sampled stored values and faults).")
TECHNIQUE = ("Lean 4 proof over resumption-program models run against a specification bus + lock-step "
             "model-vs-code correspondence with the Lean bus as the only oracle + regenerated enum/command tables")


def key_of(sc):
    return "%s:%s" % (sc["kind"], sc.get("class", "general"))


def correspond(ctx, corr):
    sess = L.Session()
    try:
        _correspond(ctx, corr, sess, ctx.rng)
    finally:
        sess.close()


def _correspond(ctx, corr, sess, rng):
    from dali.gear import colour
    corr.rule.append(
        "lock-step runs against the Lean specification bus: SetDT8ColourValueTc for all 65 536 mirek values x "
        "short/int/group/broadcast/unaddressed destinations on 1-3 unit buses (colour and non-colour units, narrow and "
        "wide limits); SetDT8TcLimit for the four selectors (enum members and ints) x boundary/random values, plus "
        "selectors 4..255 and out of range; QueryDT8ColourValue for every member of QueryColourValueDTR x boundary and "
        "random stored values, MASK, unsupported selectors, nobody / non-colour / two units (collision on either byte), "
        "and every pair of answers over {none,error,0,1,254,255}^2 as an adversarial stream; rejected arguments "
        "(negative, 65536, 2^20, float, None, str, raw ints as selector, int destinations out of range); non-trivial = "
        "distinct (sequence, destination kind, outcome class, byte pattern) classes")

    def run(suite, sc):
        res = sess.run(sc, rng=rng)
        L.judge(corr, suite, key_of(sc), sc, res)
        return res

    # ---- SetDT8ColourValueTc : all 65 536 values -------------------------------------
    kinds = ["S", "I", "G", "B", "U"]
    for tc in range(65536):
        k = kinds[tc % 5]
        a = (tc // 5) % 64
        co, wa = ((1, 65534), (153, 370), (0, 65535), (1000, 1000))[(tc // 7) % 4]
        if k in "SI":
            dest = "%s%d" % (k, a)
            bus = [L.unit(s=a, t=[8], co=co, wa=wa, tc=rng.randrange(65536)), L.unit(s=(a + 1) % 64, t=[8], tc=77)]
        elif k == "G":
            g = tc % 16
            dest = "G%d" % g
            bus = [L.unit(s=a, g=1 << g, t=[6, 8], co=co, wa=wa), L.unit(s=1, g=0, t=[8], tc=5),
                   L.unit(s=2, g=1 << g, t=[6], tc=9)]
        elif k == "B":
            dest = "B"
            bus = [L.unit(s=a, t=[8], co=co, wa=wa), L.unit(s=None, t=[8]), L.unit(s=3, t=[])]
        else:
            dest = "U"
            bus = [L.unit(s=None, t=[8], co=co, wa=wa), L.unit(s=4, t=[8], tc=123)]
        sc = {"kind": "settc", "class": "all", "dest": dest, "tc": "i:%d" % tc, "bus": bus}
        res = run("settc_all", sc)
        if tc % 4096 in (0, 255, 256, 4095) or tc in (1, 65534, 65535):
            corr.nontrivial(("settc", k, tc % 256 == 0, tc // 256 == 0, res["result"]))
    corr.exhaustive["settc_all(65536 mirek values)"] = True
    corr.sample({"suite": "settc_all", "tc": 0x1234, "commands": "DTR0(0x34) DTR1(0x12) SetTemporaryColourTemperature Activate"})

    # ---- generate now, transmit later (strengthening after seeded round 6): the sequences for several luminaires
    # are generated first and their commands transmitted afterwards; each unit must still end up with ITS value
    for i in range(400 if ctx.thorough else 120):
        tc = rng.choice([0, 1, 255, 256, 0xFEFF, 0xFFFE, rng.randrange(65536)])
        a = rng.randrange(64)
        others = ["S%d" % ((a + 1 + rng.randrange(62)) % 64), rng.choice(["B", "G%d" % rng.randrange(16), "U"])]
        rng.shuffle(others)
        kind = "settc" if i % 3 else "settclimit"
        bus = [L.unit(s=a, g=rng.randrange(65536), t=[8], co=1, wa=65534, tc=rng.randrange(65536)),
               L.unit(s=(a + 7) % 64, t=[8], tc=77)]
        sc = {"kind": kind, "class": "deferred", "dest": rng.choice(["S%d", "I%d"]) % a, "tc": "i:%d" % tc,
              "w": "i:%d" % rng.randrange(4), "enum": True, "bus": bus, "deferred": others}
        res = sess.run_deferred(sc)
        L.judge(corr, "deferred_transmission", key_of(sc), sc, res,
                "commands generated for one unit, kept, and transmitted after the same sequence was generated for "
                "other destinations: the unit must end up with exactly the requested value")
        corr.nontrivial(("deferred", kind, res["result"]))

    # ---- SetDT8TcLimit -----------------------------------------------------------------
    vals = [0, 1, 255, 256, 257, 0x7FFF, 0x8000, 0xFEFF, 0xFF00, 0xFFFE, 0xFFFF] + \
           [rng.randrange(65536) for _ in range(200 if ctx.thorough else 40)]
    for w in range(4):
        for tc in vals:
            for enum in (True, False):
                k = rng.choice(kinds)
                dest = {"S": "S7", "I": "I7", "G": "G2", "B": "B", "U": "U"}[k]
                bus = [L.unit(s=None if k == "U" else 7, g=4, t=[8], co=rng.randrange(65536), wa=rng.randrange(65536)),
                       L.unit(s=9, g=0, t=[8], co=11, wa=22, pc=33, pw=44)]
                sc = {"kind": "settclimit", "class": "limit", "dest": dest, "w": "i:%d" % w, "tc": "i:%d" % tc,
                      "enum": enum, "bus": bus}
                res = run("settclimit", sc)
                corr.nontrivial(("settclimit", w, k, tc in (0, 255, 256, 0xFFFF), res["result"]))
    for w in ("i:4", "i:255", "i:256", "i:-1", "n", "s:x"):
        sc = {"kind": "settclimit", "class": "badselector", "dest": "S7", "w": w, "tc": "i:300",
              "bus": [L.unit(s=7, t=[8])]}
        res = run("settclimit_bad", sc)
        corr.nontrivial(("settclimit-bad", w, res["result"], res["n"]))

    # ---- QueryDT8ColourValue -----------------------------------------------------------
    stored = [0, 1, 255, 256, 0x1234, 0xFEFF, 0xFF00, 0xFFFF, 0xFE00] + \
             [rng.randrange(65536) for _ in range(20 if ctx.thorough else 3)]
    special = {2: "tc", 128: "co", 129: "pc", 130: "wa", 131: "pw", 194: "tt", 226: "tc"}
    members = list(colour.QueryColourValueDTR)
    for m in members:
        sel = int(m.value)
        for v in stored:
            kw = dict(s=5, t=[8], tc=321, rt=999)
            if sel in special:
                kw[special[sel]] = v
            else:
                kw["o"] = [(sel, v), ((sel + 1) % 256, 7)]
            sc = {"kind": "qcolour", "class": "value", "dest": rng.choice(["S5", "I5"]), "q": "i:%d" % sel,
                  "bus": [L.unit(**kw), L.unit(s=6, t=[8], tc=1)]}
            res = run("qcolour", sc)
            want = "ret n" if v >> 8 == 255 else "ret i:%d" % v
            if res["result"] != want:
                corr.violate("qcolour:value", sc, want, res["result"],
                             "QueryDT8ColourValue must return exactly the stored 16-bit value (None for MASK)")
            corr.nontrivial(("qcolour", sel in special, v >> 8 == 255, v & 255 == 255, res["result"].split()[1][:1]))
        # unsupported selector on this unit
        sc = {"kind": "qcolour", "class": "unsupported", "dest": "S5", "q": "i:%d" % sel,
              "bus": [L.unit(s=5, t=[8])]}
        if sel not in special:
            run("qcolour", sc)
    corr.exhaustive["qcolour(all %d selectors of QueryColourValueDTR)" % len(members)] = True
    faults = [([], "nobody"), ([L.unit(s=5, t=[6], tc=300)], "not-colour"),
              ([L.unit(s=5, t=[8], tc=300), L.unit(s=5, t=[8], tc=400)], "collision-msb"),
              ([L.unit(s=5, t=[8], tc=300), L.unit(s=5, t=[6])], "collision-lsb"),
              ([L.unit(s=5, t=[8], tc=0xFFFF)], "mask")]
    for bus, cls in faults:
        for dest in ("S5", "B"):
            sc = {"kind": "qcolour", "class": cls, "dest": dest, "q": "i:2", "bus": bus}
            res = run("qcolour_faults", sc)
            corr.nontrivial(("qcolour-fault", cls, dest, res["result"]))
    alpha = ["n", "e", "0", "1", "254", "255"]
    for m in alpha:
        for l in alpha:
            for pre in (["n", "n"], ["254", "e"]):
                sc = {"kind": "qcolour", "class": "stream", "dest": "S5", "q": "i:2", "stream": pre + [m, l]}
                res = run("qcolour_streams", sc)
                corr.nontrivial(("qcolour-stream", m, l, res["result"]))
    corr.exhaustive["qcolour_streams({none,error,0,1,254,255}^2)"] = True

    # ---- rejected arguments ------------------------------------------------------------
    for tc in ("i:-1", "i:65536", "i:1048576", "i:-70000", "f:x", "f:300", "n", "s:300", "b:1"):
        for kind in ("settc", "settclimit"):
            sc = {"kind": kind, "class": "reject", "dest": rng.choice(["S1", "B", "I1"]), "tc": tc, "w": "i:1",
                  "bus": [L.unit(s=1, t=[8], tc=200)]}
            res = run("rejects", sc)
            if tc.startswith("i:") and res["n"] != 0:
                corr.violate("reject:late", sc, "rejected before any command", res,
                             "an out-of-range colour temperature must be rejected before anything is sent")
            corr.nontrivial(("reject", kind, tc, res["result"], res["n"]))
    for q in ("raw:i:2", "raw:i:226", "raw:n", "raw:s:x", "raw:i:300", "raw:o"):
        sc = {"kind": "qcolour", "class": "reject", "dest": "S1", "q": q, "bus": [L.unit(s=1, t=[8], tc=200)]}
        res = run("rejects", sc)
        if res["n"] != 0 or not res["result"].startswith("err"):
            corr.violate("reject:selector", sc, "TypeError before any command", res)
        corr.nontrivial(("reject-sel", q, res["result"], res["n"]))
    # a selector obtained by VALUE LOOKUP of a code the table does not define (QueryColourValueDTR(n)): either the
    # lookup itself refuses (ValueError - rejected before anything is sent), or the sequence must refuse what it is
    # handed.  Never: a query for an undefined selector going out on the bus.
    from dali.gear import sequences as GS
    from dali import address as A
    defined = {int(m.value) for m in colour.QueryColourValueDTR}
    for n in range(256):
        if n in defined:
            continue
        try:
            sel = colour.QueryColourValueDTR(n)
        except Exception:   # noqa - the lookup refused: nothing can be sent
            corr.bump("reserved-selector:lookup-refuses")
            corr.count("reserved_selectors")
            continue
        sent, outcome = 0, "?"
        try:
            g = GS.QueryDT8ColourValue(A.GearShort(1), sel)
            x = next(g)
            while True:
                sent += 1
                x = g.send(x.response(None) if getattr(x, "response", None) else None)
        except StopIteration as e:
            outcome = "returned %r" % (e.value,)
        except Exception as e:  # noqa
            outcome = "err " + exc_name(e)
        if sent or not outcome.startswith("err"):
            corr.violate("reject:selector", {"selector": "QueryColourValueDTR(%d)" % n, "defined": False},
                         "rejected before anything is sent", "%d commands sent, %s" % (sent, outcome),
                         "a selector that is not a query code of Table 11 must be rejected before anything is sent")
        corr.count("reserved_selectors")
    corr.exhaustive["reserved selector codes (every value 0..255 outside QueryColourValueDTR)"] = True
    for dest in ("I64", "I-1", "I1000"):
        for kind, extra in (("settc", {"tc": "i:300"}), ("settclimit", {"tc": "i:300", "w": "i:0"}),
                            ("qcolour", {"q": "i:2"})):
            sc = dict({"kind": kind, "class": "baddest", "dest": dest, "bus": [L.unit(s=1, t=[8])]}, **extra)
            res = run("rejects", sc)
            corr.nontrivial(("baddest", kind, dest, res["result"], res["n"]))


def replay(ctx, payload):
    sc = payload.get("failure", {}).get("input")
    if isinstance(sc, dict) and "selector" in sc:
        from dali.gear import colour, sequences as GS
        from dali import address as A
        n = int(sc["selector"].split("(")[1].rstrip(")"))
        try:
            sel = colour.QueryColourValueDTR(n)
        except Exception as e:  # noqa
            print("QueryColourValueDTR(%d) ->" % n, exc_name(e), "(rejected at the lookup)")
            return False
        sent = []
        try:
            g = GS.QueryDT8ColourValue(A.GearShort(1), sel)
            x = next(g)
            while True:
                sent.append(str(x))
                x = g.send(x.response(None) if getattr(x, "response", None) else None)
        except StopIteration as e:
            print("selector", sel, "-> sent", sent, "returned", e.value)
            return True
        except Exception as e:  # noqa
            print("selector", sel, "-> sent", sent, "raised", exc_name(e))
            return bool(sent)
    if not isinstance(sc, dict) or "kind" not in sc:
        print("replay: no scenario recorded; run the quick check")
        return True
    return L.replay_scenario(sc)
