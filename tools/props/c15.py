"""C15 — async drivers keep transactions atomic and device-type prefixes adjacent.

Trace mode: the REAL hid.tridonic, hid.hasseb, DriverLubaRs232, DriverSCIRS232
run in a virtual-time event loop (tools/asyncsim_conc) with 2-4 callers; at every
quiescent point the explorer chooses the next environment event.  Every recorded
trace must be accepted by the Lean interleaving model (m_drv), and the property's
observable statements are asserted independently on the real objects."""
import os
import sys

sys.path.insert(0, os.path.dirname(os.path.dirname(os.path.abspath(__file__))))
from common import Model  # noqa
from asyncsim_conc import suite  # noqa

ID = "C15"
MODULE = "DaliVerif.Props.C15"
EXES = ["m_drv"]
GEN = False
THEOREMS = ["mutex_inv", "writes_by_holder", "wire_well_bracketed", "edt_adjacent", "edt_adjacent_drivers",
            "lock_free_at_end", "release_on_raise_or_cancel", "caller_programs_wf", "progress_partial",
            "progress_up", "progress", "caller_steps_bounded", "nobody_hangs", "retry_resends_whole_unit",
            "k1_witness_old_serial_send"]
TRUSTED = ["hand-written models Model/Async.lean (interleaving semantics) and Model/CallerProgram.lean "
           "(send / run_sequence of the four drivers as straight-line programs with their finally/async-with "
           "clean-up), bound to the real drivers by trace validation over explored schedules only",
           "virtual-time loop, fake hidraw/serial transports and conforming gateway models of tools/asyncsim_conc",
           "CPython asyncio: Lock/Semaphore mutual exclusion and FIFO hand-over (also asserted on every trace)"]
ASSUMPTIONS = ["callers use send() / run_sequence() only (no caller holds transaction_lock itself and issues "
               "concurrent send(in_transaction=True) calls)",
               "progress / nobody_hangs: hypotheses `s.conn.up` (connected is set) and `GatewayAnswers s` (the report "
               "each waiting caller waits for is the next one in its queue) - stated in the theorems, not proved of "
               "any gateway"]
PARTIAL = ("The theorems quantify over every schedule of the MODEL and any number of callers; that the real event loop "
           "produces only interleavings the model allows is validated on the explored schedules, not proved. The model "
           "cannot exhibit: the real event loop's scheduling order, OS file-descriptor behaviour, wall-clock time, "
           "pyserial. progress is proved in four parts: no cycle on the two locks (progress_partial); with `connected` set "
           "the only thing that can block the caller whose turn it is is a wait for a gateway report (progress_up); "
           "under the explicit hypothesis GatewayAnswers some caller step is enabled and decreases the measure "
           "(progress), a quiescent state has no unfinished caller (nobody_hangs), and no fault-free schedule has "
           "more caller steps than the measure (caller_steps_bounded). The gateway's liveness itself is a "
           "hypothesis, not modelled; a fair scheduler is assumed for 'every caller completes'.")
LEVEL_TEXT = ("Lean 4 theorems over an abstract interleaving semantics (any number of tasks, every schedule, environment "
              "events anywhere): at most one task inside its acq..rel region and it is the lock holder (mutex_inv), "
              "every frame is written by the holder (writes_by_holder), the lock/wire log replays against a one-holder "
              "lock so the wire is a concatenation of whole caller units (wire_well_bracketed), every frame needing a "
              "device type is immediately preceded on the wire by the same caller's EnableDeviceType (edt_adjacent), "
              "all resources free when every caller has finished, also after exceptions and cancellation "
              "(lock_free_at_end, release_on_raise_or_cancel); a send retried after a CommunicationError (HID, "
              "exceptions off) continues with its clean-up and then the whole unit again, EnableDeviceType first "
              "(retry_resends_whole_unit); the programs of send/run_sequence of all four drivers "
              "satisfy the static bracketing discipline for every command and every sequence (caller_programs_wf); with "
              "the connection up and the gateway answering, an unfinished caller can always step and the number of "
              "remaining caller steps strictly decreases (progress, caller_steps_bounded, nobody_hangs). "
              "Bound to the real drivers by trace validation.")
LEVEL_NOTE = ("partial: proof about the model for all schedules; model-to-code tie is trace validation over explored "
              "schedules (DFS on small configurations, seeded random otherwise) plus direct assertions on the real objects.")
TECHNIQUE = ("Lean 4 invariant proofs over all schedules of an interleaving model + trace validation of the real asyncio "
             "drivers in a virtual-time loop with schedule exploration")


def correspond(ctx, corr):
    corr.rule.append(
        "real drivers tridonic/hasseb/LUBA/SCI x caller mixes (send with/without device type, send-twice, queries, "
        "24-bit, sequences with sleep/progress/raise) x 2-4 callers started at every quiescent point x gateway reports "
        "and timers in every order (DFS prefix + seeded random), unsolicited reports, cancellation at every await; "
        "HID: the gateway lost (EOF | read error | failing write) at EVERY quiescent point of the fault-free run and "
        "coming back, sends with exceptions off retried (single-fault sweep + DFS + random); "
        "each trace: accepted by the Lean model + mutual exclusion, contiguity, EDT adjacency (also on every "
        "retransmission), whole units, every retransmission restarts its unit from the top, FIFO, "
        "lock free, sequence closed asserted on the real objects; non-trivial = distinct event sequences")
    model = Model("m_drv") if ctx.model_available else None
    r = suite.run_configs(ctx, corr, suite.c15_configs(ctx.thorough), suite.C15_KEYS, model)
    corr.sample({"traces": r.ntraces})


def replay(ctx, payload):
    return suite.replay_failure(payload)
