"""C15 — async drivers keep transactions atomic and device-type prefixes adjacent.

Trace mode: the REAL hid.tridonic, hid.hasseb, DriverLubaRs232, DriverSCIRS232
run in a virtual-time event loop (tools/asyncsim_conc) with 2-4 callers; at every
quiescent point the explorer chooses the next environment event.  Every recorded
trace must be accepted by the Lean interleaving model (m_drv), and the property's
observable statements are asserted independently on the real objects."""
from common import exc_name  # noqa: E402
import os
import sys

sys.path.insert(0, os.path.dirname(os.path.dirname(os.path.abspath(__file__))))
from common import Model  # noqa
from asyncsim_conc import suite  # noqa

ID = "C15"
MODULE = "DaliVerif.Props.C15"
EXES = ["m_drv"]
GEN = False
THEOREMS = ["mutex_inv", "writes_by_holder", "wire_well_bracketed", "edt_adjacent", "edt_adjacent_drivers",
            "lock_free_at_end", "release_on_raise_or_cancel", "caller_programs_wf", "progress_partial",
            "progress_up", "progress", "caller_steps_bounded", "nobody_hangs", "retry_resends_whole_unit",
            "refusal_leaves_the_call", "refused_writes_nothing", "k1_witness_old_serial_send"]
TRUSTED = ["hand-written models Model/Async.lean (interleaving semantics) and Model/CallerProgram.lean "
           "(send / run_sequence of the four drivers as straight-line programs with their finally/async-with "
           "clean-up), bound to the real drivers by trace validation over explored schedules only",
           "virtual-time loop, fake hidraw/serial transports and conforming gateway models of tools/asyncsim_conc",
           "CPython asyncio: Lock/Semaphore mutual exclusion and FIFO hand-over (also asserted on every trace)"]
ASSUMPTIONS = ["callers use send() / run_sequence() only (no caller holds transaction_lock itself and issues "
               "concurrent send(in_transaction=True) calls)",
               "progress / nobody_hangs: hypotheses `s.conn.up` (connected is set) and `GatewayAnswers s` (the report "
               "each waiting caller waits for is the next one in its queue) - stated in the theorems, not proved of "
               "any gateway; and `NoRefusalPending s` (no caller's next step is the refusal of a frame length its "
               "gateway cannot carry - such a caller is not stuck either: refusal_leaves_the_call shows its exception "
               "is always enabled, leads to the clean-up, is NOT retried whatever the exceptions switch says, and "
               "refused_writes_nothing that nothing goes on the wire)"]
PARTIAL = ("The theorems quantify over every schedule of the MODEL and any number of callers; that the real event loop "
           "produces only interleavings the model allows is validated on the explored schedules, not proved. The model "
           "cannot exhibit: the real event loop's scheduling order, OS file-descriptor behaviour, wall-clock time, "
           "pyserial. progress is proved in four parts: no cycle on the two locks (progress_partial); with `connected` set "
           "the only thing that can block the caller whose turn it is is a wait for a gateway report (progress_up); "
           "under the explicit hypothesis GatewayAnswers some caller step is enabled and decreases the measure "
           "(progress), a quiescent state has no unfinished caller (nobody_hangs), and no fault-free schedule has "
           "more caller steps than the measure (caller_steps_bounded). The gateway's liveness itself is a "
           "hypothesis, not modelled; a fair scheduler is assumed for 'every caller completes'.")
LEVEL_TEXT = ("Lean 4 theorems over an abstract interleaving semantics (any number of tasks, every schedule, environment "
              "events anywhere): at most one task inside its acq..rel region and it is the lock holder (mutex_inv), "
              "every frame is written by the holder (writes_by_holder), the lock/wire log replays against a one-holder "
              "lock so the wire is a concatenation of whole caller units (wire_well_bracketed), every frame needing a "
              "device type is immediately preceded on the wire by the same caller's EnableDeviceType (edt_adjacent), "
              "all resources free when every caller has finished, also after exceptions and cancellation "
              "(lock_free_at_end, release_on_raise_or_cancel); a send retried after a CommunicationError (HID, "
              "exceptions off) continues with its clean-up and then the whole unit again, EnableDeviceType first "
              "(retry_resends_whole_unit); the programs of send/run_sequence of all four drivers "
              "satisfy the static bracketing discipline for every command and every sequence (caller_programs_wf); with "
              "the connection up and the gateway answering, an unfinished caller can always step and the number of "
              "remaining caller steps strictly decreases (progress, caller_steps_bounded, nobody_hangs). "
              "Bound to the real drivers by trace validation.")
LEVEL_NOTE = ("partial: proof about the model for all schedules; model-to-code tie is trace validation over explored "
              "schedules (DFS on small configurations, seeded random otherwise) plus direct assertions on the real objects.")
TECHNIQUE = ("Lean 4 invariant proofs over all schedules of an interleaving model + trace validation of the real asyncio "
             "drivers in a virtual-time loop with schedule exploration")


def correspond(ctx, corr):
    corr.rule.append(
        "real drivers tridonic/hasseb/LUBA/SCI x caller mixes (send with/without device type, send-twice, queries, "
        "24-bit, sequences with sleep/progress/raise) x 2-4 callers started at every quiescent point x gateway reports "
        "and timers in every order (DFS prefix + seeded random), unsolicited reports, cancellation at every await; "
        "HID: the gateway lost (EOF | read error | failing write) at EVERY quiescent point of the fault-free run and "
        "coming back, sends with exceptions off retried (single-fault sweep + DFS + random); "
        "each trace: accepted by the Lean model + mutual exclusion, contiguity, EDT adjacency (also on every "
        "retransmission), whole units, every retransmission restarts its unit from the top, FIFO, "
        "lock free, sequence closed asserted on the real objects; non-trivial = distinct event sequences")
    model = Model("m_drv") if ctx.model_available else None
    r = suite.run_configs(ctx, corr, suite.c15_configs(ctx.thorough), suite.C15_KEYS, model)
    corr.sample({"traces": r.ntraces})
    closeable_suite(ctx, corr)


def library_sequences():
    """(name, factory) for every sequence the library ships, with neutral arguments"""
    from dali import sequences as S, address as A
    from dali.gear import sequences as GS, colour
    from dali.device import sequences as DS, general as dg, pushbutton
    from dali.device.helpers import DeviceInstanceTypeMapper
    from dali.memory import info, oem, location
    out = [
        ("sequences.QueryDeviceTypes", lambda: S.QueryDeviceTypes(A.GearShort(3))),
        ("sequences.QueryGroups", lambda: S.QueryGroups(A.GearShort(3))),
        ("sequences.SetGroups(short)", lambda: S.SetGroups(A.GearShort(3), {1, 5})),
        ("sequences.SetGroups(group)", lambda: S.SetGroups(A.GearGroup(2), {1, 5})),
        ("sequences.Commissioning", lambda: S.Commissioning()),
        ("sequences.Commissioning(readdress)", lambda: S.Commissioning(available_addresses=[4, 5], readdress=True)),
        ("sequences.Commissioning(dry_run)", lambda: S.Commissioning(dry_run=True)),
        ("gear.sequences.SetDT8ColourValueTc", lambda: GS.SetDT8ColourValueTc(A.GearShort(3), 300)),
        ("gear.sequences.SetDT8TcLimit", lambda: GS.SetDT8TcLimit(
            A.GearShort(3), list(colour.StoreColourTemperatureTcLimitDTR2)[0], 300)),
        ("gear.sequences.QueryDT8ColourValue", lambda: GS.QueryDT8ColourValue(
            A.GearShort(3), list(colour.QueryColourValueDTR)[0])),
        ("device.sequences.SetEventSchemes", lambda: DS.SetEventSchemes(
            A.DeviceShort(3), A.InstanceNumber(1), dg.EventScheme.device_instance)),
        ("device.sequences.SetEventFilters", lambda: DS.SetEventFilters(
            A.DeviceShort(3), A.InstanceNumber(1), pushbutton.InstanceEventFilter(5))),
        ("device.sequences.QueryEventFilters", lambda: DS.QueryEventFilters(
            A.DeviceShort(3), A.InstanceNumber(1), pushbutton.InstanceEventFilter)),
        ("device.sequences.query_input_value", lambda: DS.query_input_value(A.DeviceShort(3), A.InstanceNumber(1), 10)),
        ("DeviceInstanceTypeMapper.autodiscover", lambda: DeviceInstanceTypeMapper().autodiscover([1, 2])),
        ("memory read (GTIN)", lambda: info.GTIN.read(A.GearShort(3))),
        ("memory read_all (bank 0)", lambda: info.BANK_0.read_all(A.GearShort(3))),
        ("memory write (OEM GTIN)", lambda: oem.ManufacturerGTIN.write(A.GearShort(3), 12345)),
        ("memory latch", lambda: location.MemoryBank.latch(oem.BANK_1, A.GearShort(3))),
    ]
    return out


def closeable_suite(ctx, corr):
    """What run_sequence's clean-up relies on: after a cancellation, a lost gateway or a raising progress callback
    the driver calls seq.close() and expects the generator to be CLOSED and close() to return.  Every sequence the
    library ships is advanced k = 0, 1, 2, ... yields (answers: a conforming 'yes/1' frame, or silence) and then
    closed / thrown a CancelledError: close() returns None, the generator is finished, nothing more is yielded.
    (Strengthening after seeded round 6: a sequence that yields from a `finally` turns the caller's cancellation
    into RuntimeError('generator ignored GeneratorExit') and stays suspended.)"""
    import asyncio
    import inspect
    from dali import command, frame
    n = 0
    for name, fac in library_sequences():
        for answers in ("silence", "yes"):
            k = 0
            while k < (400 if ctx.thorough else 120):
                try:
                    g = fac()
                except Exception:   # noqa - neutral arguments not accepted by this tree: not this suite's business
                    break
                if not inspect.isgenerator(g):
                    break
                done = False
                resp = None
                try:
                    for j in range(k):
                        obj = next(g) if j == 0 else g.send(resp)
                        resp = None
                        if isinstance(obj, command.Command) and obj.response is not None:
                            resp = obj.response(frame.BackwardFrame(1) if answers == "yes" else None)
                except StopIteration:
                    done = True
                except Exception:   # noqa - the sequence gave up on this answer stream: also an end
                    done = True
                if done:
                    break
                for how in ("close", "throw"):
                    if how == "throw" and k == 0:
                        continue        # nothing is running yet: run_sequence has not started the generator
                    if how == "throw":
                        # a second, identical prefix for the throw variant
                        g2 = fac()
                        resp = None
                        try:
                            for j in range(k):
                                obj = next(g2) if j == 0 else g2.send(resp)
                                resp = None
                                if isinstance(obj, command.Command) and obj.response is not None:
                                    resp = obj.response(frame.BackwardFrame(1) if answers == "yes" else None)
                        except Exception:   # noqa
                            continue
                        gg = g2
                    else:
                        gg = g
                    out = "closed"
                    try:
                        if how == "close":
                            r = gg.close()
                            if r is not None:
                                out = "close() returned %r" % (r,)
                        else:
                            try:
                                y = gg.throw(asyncio.CancelledError())
                                out = "yielded %r after CancelledError was thrown in" % (y,)
                            except asyncio.CancelledError:
                                pass
                            except StopIteration:
                                out = "swallowed the CancelledError"
                    except BaseException as e:  # noqa
                        out = "%s(%s)" % (exc_name(e), e)
                    if out == "closed" and inspect.getgeneratorstate(gg) != inspect.GEN_CLOSED:
                        out = "generator still " + inspect.getgeneratorstate(gg)
                    if out != "closed":
                        corr.violate("close:library-sequence", {"sequence": name, "answers": answers,
                                                                "yields consumed": k, "ended by": how},
                                     "closed: close() returns, the generator is finished", out,
                                     "run_sequence closes the sequence when its caller is cancelled or the gateway "
                                     "is lost; a sequence that cannot be closed at this point turns that into "
                                     "RuntimeError and stays suspended")
                    n += 1
                k += 1
        corr.nontrivial(("closeable", name))
    corr.count("library sequences closed at every yield", n)


def replay(ctx, payload):
    inp = (payload.get("failure") or {}).get("input")
    if isinstance(inp, dict) and "sequence" in inp:
        import inspect
        from dali import command, frame
        fac = dict(library_sequences())[inp["sequence"]]
        g = fac()
        resp = None
        for j in range(inp["yields consumed"]):
            obj = next(g) if j == 0 else g.send(resp)
            resp = None
            if isinstance(obj, command.Command) and obj.response is not None:
                resp = obj.response(frame.BackwardFrame(1) if inp["answers"] == "yes" else None)
        try:
            if inp["ended by"] == "close":
                g.close()
            else:
                import asyncio
                try:
                    g.throw(asyncio.CancelledError())
                except asyncio.CancelledError:
                    pass
            out = "closed" if inspect.getgeneratorstate(g) == inspect.GEN_CLOSED else inspect.getgeneratorstate(g)
        except BaseException as e:  # noqa
            out = "%s(%s)" % (exc_name(e), e)
        print("sequence", inp["sequence"], "after", inp["yields consumed"], "yields,", inp["ended by"], "->", out)
        return out != "closed"
    return suite.replay_failure(payload)
