"""tools/seedrun.py Cxx [Cyy …] : verify the seeded changes delivered under /tmp/seed_out/<id>/{A,B}
(patch.diff, demo.py, notes.md), run the property's check against each, and keep the confirmed ones
as /verif/seeded/<id>-<X>/ with meta.json."""
import json, os, shutil, subprocess, sys
VERIF = os.path.dirname(os.path.dirname(os.path.abspath(__file__)))
SRC = os.environ.get("SEED_SRC", "/tmp/seed_out")
NAMES = dict(zip("AB", os.environ.get("SEED_NAMES", "AB")))
for pid in sys.argv[1:]:
    for x in ("A", "B"):
        d = "%s/%s/%s" % (SRC, pid, x)
        if not os.path.exists(d + "/patch.diff"):
            print(pid, x, "missing"); continue
        r = subprocess.run([VERIF + "/tools/seedtest.sh", pid, d], capture_output=True, text=True)
        line = [l for l in r.stdout.splitlines() if l.startswith("{")]
        if not line:
            print(pid, x, "seedtest failed:", r.stdout[-300:], r.stderr[-300:]); continue
        meta = json.loads(line[-1])
        confirmed = meta.get("applies") and meta["suite_rc"] == 0 and meta["demo_clean_rc"] == 0 and meta["demo_mutated_rc"] != 0
        meta["confirmed"] = bool(confirmed)
        meta["caught"] = meta.get("check_rc") == 1
        notes = open(d + "/notes.md").read() if os.path.exists(d + "/notes.md") else ""
        meta["property"] = pid
        meta["needs_to_manifest"] = notes[:1500]
        meta["ran"] = ["git apply patch.diff in a scratch worktree of /repo main",
                       "/venv/bin/python -m pytest -q -p no:cacheprovider dali/tests  (must pass)",
                       "demo.py on clean tree (exit 0) and on the changed tree (exit != 0)",
                       "VERIF_REPO=<worktree> ./check %s" % pid]
        print(pid, x, "confirmed" if confirmed else "NOT-CONFIRMED", "caught" if meta["caught"] else "MISSED rc=%s" % meta.get("check_rc"),
              meta.get("violation", "")[:110])
        if confirmed:
            out = "%s/seeded/%s-%s" % (VERIF, pid, NAMES[x])
            os.makedirs(out, exist_ok=True)
            for f in ("patch.diff", "demo.py", "notes.md", "check_output.txt"):
                if os.path.exists(d + "/" + f):
                    shutil.copy(d + "/" + f, out + "/" + f)
            json.dump(meta, open(out + "/meta.json", "w"), indent=1)
