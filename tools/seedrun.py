"""tools/seedrun.py [Cxx | Cxx-A …]   (no argument = every kept seed)

Re-verify kept seeded changes (seeded/<id>/: patch.diff, demo.py, notes.md) and run the property's check against
each in a scratch worktree of /repo (tools/seedtest.sh); meta.json is rewritten with what happened.
To import a NEW seed: SEED_SRC=<dir with Cxx/{A,B}/…> SEED_NAMES=EF tools/seedrun.py --import Cxx …"""
import glob, json, os, shutil, subprocess, sys
VERIF = os.path.dirname(os.path.dirname(os.path.abspath(__file__)))
args = sys.argv[1:]
if args and args[0] == "--import":
    src = os.environ["SEED_SRC"]
    names = dict(zip("AB", os.environ.get("SEED_NAMES", "AB")))
    for pid in args[1:]:
        for x in "AB":
            d = "%s/%s/%s" % (src, pid, x)
            if os.path.exists(d + "/patch.diff"):
                out = "%s/seeded/%s-%s" % (VERIF, pid, names[x])
                os.makedirs(out, exist_ok=True)
                for f in ("patch.diff", "demo.py", "notes.md"):
                    if os.path.exists(d + "/" + f):
                        shutil.copy(d + "/" + f, out + "/" + f)
    args = [a for a in args[1:]]
dirs = []
for d in sorted(glob.glob(VERIF + "/seeded/*")):
    name = os.path.basename(d)
    if not args or name in args or name.split("-")[0] in args:
        dirs.append(d)
for d in dirs:
    name = os.path.basename(d)
    pid = name.split("-")[0]
    r = subprocess.run([VERIF + "/tools/seedtest.sh", pid, d], capture_output=True, text=True)
    line = [l for l in r.stdout.splitlines() if l.startswith("{")]
    if not line:
        print(name, "seedtest failed:", r.stdout[-300:], r.stderr[-300:]); continue
    meta = json.loads(line[-1])
    confirmed = meta.get("applies") and meta["suite_rc"] == 0 and meta["demo_clean_rc"] == 0 and meta["demo_mutated_rc"] != 0
    meta["confirmed"] = bool(confirmed)
    meta["caught"] = meta.get("check_rc") == 1
    notes = open(d + "/notes.md").read() if os.path.exists(d + "/notes.md") else ""
    meta["property"] = pid
    meta["needs_to_manifest"] = notes[:1500]
    meta["ran"] = ["git apply patch.diff in a scratch worktree of /repo main",
                   "/venv/bin/python -m pytest -q -p no:cacheprovider dali/tests  (must pass)",
                   "demo.py on clean tree (exit 0) and on the changed tree (exit != 0)",
                   "VERIF_REPO=<worktree> ./check %s" % pid]
    json.dump(meta, open(d + "/meta.json", "w"), indent=1)
    print(name, "confirmed" if confirmed else "NOT-CONFIRMED", "caught" if meta["caught"] else "MISSED rc=%s" % meta.get("check_rc"),
          meta.get("violation", "")[:110], flush=True)
