"""Translator plugin: declared memory banks and values as the memory *sequences*
see them (bank address, lock/latch flags, declared last address, per value the
ordered locations with their access types) -> Gen/MemSeqTables.lean.
(The value interpretation tables are respmem's Gen/Memory.lean.)"""
NAME = "MemSeqTables"


def banks(repo=None):
    from dali.memory import info, oem, energy, diagnostics, maintenance, location  # noqa
    out = []
    seen = set()
    for mod in (info, oem, energy, diagnostics, maintenance):
        for k, v in sorted(vars(mod).items()):
            if isinstance(v, location.MemoryBank) and id(v) not in seen:
                seen.add(id(v))
                out.append((k, v))
    return out


def generate(repo):
    lines = ["import DaliVerif.Model.MemSeq", "namespace DaliVerif.Gen.MemSeqTables", "open DaliVerif.DevMem", ""]
    nvals = 0
    names = []
    for key, b in banks(repo):
        vals = []
        for v in b.values:
            locs = ", ".join("(%d, .%s)" % (l.address, l.type_.name) for l in v.locations)
            vals.append('    { name := "%s", bankKey := "%s", bank := %d, locs := [%s] }'
                        % (v.name, key, b.address, locs))
            nvals += 1
        la = b.LastAddress.locations[0].default
        lines.append("def %s : BankDecl :=" % key)
        lines.append('  { key := "%s", address := %d, lastAddress := %d, hasLock := %s, hasLatch := %s,'
                     % (key, b.address, la, "true" if b.has_lock else "false", "true" if b.has_latch else "false"))
        lines.append("    values := [")
        lines.append(",\n".join(vals))
        lines.append("    ] }")
        lines.append("")
        names.append(key)
    lines.append("def banks : List BankDecl := [%s]" % ", ".join(names))
    lines.append("")
    lines.append("def values : List ValueDecl := banks.flatMap (·.values)")
    lines.append("")
    lines.append("end DaliVerif.Gen.MemSeqTables")
    return "\n".join(lines) + "\n", {"banks": len(names), "values": nvals}
