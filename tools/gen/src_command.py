"""Source translator plugin: the frame-assembling constructors of the command classes
-> lean/DaliVerif/Gen/SrcCommand.lean

Five constructor functions build the frames of 293 of the 329 command classes: `_StandardCommand.__init__`
(with and without the 4-bit parameter), `DAPC.__init__`, `_StandardDeviceCommand.__init__` and
`_StandardInstanceCommand.__init__`.  Each is RUN on symbolic integers (tools/symtrace.py) with the class's opcode
attribute made symbolic and with stand-ins for the destination / instance objects (their `add_to_frame` is
translated separately, gen/src_address.py): the stand-ins become function parameters of the printed definition.
EVERY class of a family is traced and must yield the family's tree (so no class attribute other than the opcode
can influence the frame); the class lists are printed too and compared with the regenerated registries in Lean.
The constructors that assemble their frame from a byte tuple (special commands, `int.from_bytes`) and the event
constructors are not translated (they stay on the differential tie)."""
from common import exc_name  # noqa: E402
import random

import symtrace as st

NAME = "SrcCommand"


class _Dest:
    def __init__(self, name):
        self.c = st.Collaborator(name)

    def add_to_frame(self, f):
        f._data = self.c.call(f._data)


def _families():
    import dali.gear, dali.device  # noqa
    from dali import address
    from dali.gear import general as gg
    from dali.device import general as dg
    for m in ("colour", "led", "emergency", "converter", "incandescent"):
        __import__("dali.gear." + m)
    for m in ("pushbutton", "occupancy", "light"):
        __import__("dali.device." + m)

    class _Inst(address.Instance):
        def __init__(self, name):
            self.c = st.Collaborator(name)

        def add_to_frame(self, f):
            f._data = self.c.call(f._data)

    def walk(c):
        for s in c.__subclasses__():
            yield s
            yield from walk(s)

    def members(base, pred=lambda c: True):
        out = []
        for c in walk(base):
            if c not in out and not c.__name__.startswith("_") and c.__init__ is base.__init__ and pred(c):
                out.append(c)
        return out

    def qn(c):
        return c.__module__.replace("dali.", "") + "." + c.__name__

    def mk(cls, attr, ctor_args):
        def call(a):
            o = object.__new__(cls)
            setattr(o, attr, a["opcode"])
            cls.__init__(o, *ctor_args(a))
            return o.frame.as_integer
        return call

    fams = [
        ("stdNoParam", gg._StandardCommand, lambda c: not c._hasparam, "_cmdval", ["opcode"], ["addDest"],
         lambda a: (_Dest("addDest"),), 16,
         "_StandardCommand.__init__(destination) of a class without parameter: contents of .frame"),
        ("stdParam", gg._StandardCommand, lambda c: bool(c._hasparam), "_cmdval", ["opcode", "p"], ["addDest"],
         lambda a: (_Dest("addDest"), a["p"]), 16,
         "_StandardCommand.__init__(destination, p) of a class with the 4-bit parameter"),
        ("devStd", dg._StandardDeviceCommand, lambda c: True, "_opcode", ["opcode"], ["addDest"],
         lambda a: (_Dest("addDest"),), 24, "_StandardDeviceCommand.__init__(device)"),
        ("devInst", dg._StandardInstanceCommand, lambda c: True, "_opcode", ["opcode"], ["addDest", "addInst"],
         lambda a: (_Dest("addDest"), _Inst("addInst")), 24, "_StandardInstanceCommand.__init__(device, instance)"),
    ]
    out = []
    for name, base, pred, attr, params, collabs, args, bits, doc in fams:
        cls_list = members(base, pred)
        if not cls_list:
            raise RuntimeError("family %s is empty" % name)
        rep = st.Entry(name, params, "Int", mk(cls_list[0], attr, args), doc, collaborators=collabs).trace()
        for c in cls_list[1:]:
            t = st.Entry(name, params, "Int", mk(c, attr, args), doc, collaborators=collabs).trace()
            if t.tree != rep.tree:
                raise RuntimeError("class %s does not follow the paths of its family %s" % (qn(c), name))
        out.append((rep, [qn(c) for c in cls_list], cls_list, attr, bits))
    # DAPC: a single class, the level is the parameter
    def dapc(a):
        return gg.DAPC(_Dest("addDest"), a["power"]).frame.as_integer
    out.append((st.Entry("dapc", ["power"], "Int", dapc, "DAPC.__init__(destination, power) with an integer power",
                         collaborators=["addDest"]).trace(), ["gear.general.DAPC"], [gg.DAPC], None, 16))
    return out


def _validate(rep, classes, attr, bits, rng):
    """the traced tree, with REAL address / instance objects as collaborators, against the real constructor"""
    from dali import address as A
    from dali.frame import ForwardFrame
    gear = [A.GearShort(0), A.GearShort(63), A.GearGroup(15), A.GearBroadcast(), A.GearBroadcastUnaddressed()]
    dev = [A.DeviceShort(5), A.DeviceGroup(31), A.DeviceBroadcast(), A.DeviceBroadcastUnaddressed(), A.GearShort(3)]
    insts = [A.InstanceNumber(31), A.InstanceGroup(0), A.FeatureInstanceType(7), A.Device(), A.InstanceBroadcast(),
             A.ReservedInstance(0x45)]

    def adder(obj):
        def f(d):
            fr = ForwardFrame(bits, d)
            obj.add_to_frame(fr)
            return fr.as_integer
        return f
    bad = []
    for c in classes[:6] + classes[-3:]:
        for d in (gear if bits == 16 else dev) + [A.DeviceShort(1) if bits == 16 else A.GearGroup(2)]:
            for i in (insts if "addInst" in rep.collaborators else [None]):
                for p in ([None] if "p" not in rep.params and "power" not in rep.params else [-1, 0, 7, 15, 16, 254, 255, 256]):
                    env, args = {}, [d]
                    if attr:
                        env["opcode"] = getattr(c, attr)
                    if i is not None:
                        args.append(i)
                    if p is not None:
                        env["p" if "p" in rep.params else "power"] = p
                        args.append(p)
                    col = {"addDest": adder(d)}
                    if i is not None:
                        col["addInst"] = adder(i)
                    got = rep.eval_tree(env, col)
                    try:
                        want = ('ok', c(*args).frame.as_integer)
                    except Exception as e:  # noqa
                        want = ('raise', exc_name(e))
                    if got != want:
                        bad.append((c.__name__, str(d), str(i), p, got, want))
    return bad


def generate(repo):
    rng = random.Random(20261001)
    out = ["import DaliVerif.Model.PyInt", "set_option linter.unusedVariables false",
           "namespace DaliVerif.Gen.SrcCommand", ""]
    summ = {}
    for rep, names, classes, attr, bits in _families():
        bad = _validate(rep, classes, attr, bits, rng)
        if bad:
            raise RuntimeError("trace of %s disagrees with the constructors it was traced from: %r" % (rep.name, bad[:2]))
        out.append(rep.lean())
        out.append("/-- the classes whose constructor is this function (each traced, all with this tree) -/")
        out.append("def %sClasses : List String := [%s]\n" % (rep.name, ", ".join('"%s"' % n for n in names)))
        out.append("/-- the same classes by (device type, opcode attribute) -/")
        out.append("def %sKeys : List (Nat × Nat) := [%s]\n" % (rep.name, ", ".join(
            "(%d, %d)" % (getattr(c, "devicetype", 0), getattr(c, attr) if attr else 0) for c in classes)))
        summ[rep.name] = {"paths": rep.npaths, "classes": len(names)}
    out.append("end DaliVerif.Gen.SrcCommand")
    return "\n".join(out) + "\n", summ
