"""Translator plugin: driver constants -> lean/DaliVerif/Gen/DriverConsts.lean

Reads, by reflection over the imported driver modules of the working tree,
every `_CMD_*/_SEND_*/_MODE_*/_RESPONSE_*/_BUS_STATUS_*/_POWER_*` constant and
the two struct layouts of `hid.tridonic`, the hasseb status codes, LUBA
`MAX_LEN`, masks and `LubaCmd`/`ReadState`, SCI masks, codes and error types,
the ATX prefix table and the module-level constants of the three legacy
drivers.  Absent third-party modules (`usb`, `hid`, `pymodbus.client.sync`)
are replaced by empty stubs so that the legacy drivers import.

Every constant becomes `def <group>_<NAME> : Nat`, every group additionally a
sorted association list `<group> : List (String × Nat)` (informational).  Props/C18 pins the constants the wire
formats are made of BY NAME: a removed or changed one breaks a `decide` obligation; constants a maintainer ADDS
(new names for literals) are listed and change nothing.
"""
import importlib
import struct as _struct
import sys
import types

NAME = "DriverConsts"


def inject_stubs():
    """Make `import usb`, `import hid`, `from pymodbus.client.sync import …` work."""
    def need(name):
        try:
            importlib.import_module(name)
            return False
        except Exception:
            return True
    if need("usb"):
        m = types.ModuleType("usb")
        m.core = types.ModuleType("usb.core")
        m.util = types.ModuleType("usb.util")
        sys.modules["usb"], sys.modules["usb.core"], sys.modules["usb.util"] = m, m.core, m.util
    if need("hid"):
        m = types.ModuleType("hid")
        m.device = lambda *a, **k: (_ for _ in ()).throw(OSError("no hid"))
        m.enumerate = lambda *a, **k: []
        sys.modules["hid"] = m
    if need("pymodbus.client.sync"):
        try:
            importlib.import_module("pymodbus.client")
        except Exception:
            sys.modules.setdefault("pymodbus", types.ModuleType("pymodbus"))
            sys.modules.setdefault("pymodbus.client", types.ModuleType("pymodbus.client"))
        m = types.ModuleType("pymodbus.client.sync")
        m.ModbusSerialClient = type("ModbusSerialClient", (), {"__init__": lambda self, *a, **k: None})
        m.ModbusTcpClient = type("ModbusTcpClient", (), {"__init__": lambda self, *a, **k: None})
        sys.modules["pymodbus.client.sync"] = m


def _ident(s):
    return "".join(c if (c.isalnum() or c == "_") else "_" for c in s)


def _group(out, summary, gname, pairs):
    pairs = sorted((str(k), int(v)) for k, v in pairs)
    summary[gname] = len(pairs)
    for k, v in pairs:
        out.append("def %s_%s : Nat := %d" % (gname, _ident(k.lstrip("_")), v))
    out.append("def %s : List (String × Nat) := [%s]" % (
        gname, ", ".join('("%s", %d)' % (k, v) for k, v in pairs)))
    out.append("")


def _int_attrs(obj, pred=lambda n: True):
    res = []
    for n, v in vars(obj).items():
        if isinstance(v, bool) or not isinstance(v, int):
            continue
        if pred(n):
            res.append((n, v))
    return res


def generate(repo):
    inject_stubs()
    out = ["namespace DaliVerif.Gen.DriverConsts", ""]
    summary = {}

    hidmod = importlib.import_module("dali.driver.hid")
    tri = hidmod.tridonic
    _group(out, summary, "tridonic", _int_attrs(
        tri, lambda n: n.startswith(("_CMD_", "_SEND_", "_MODE_", "_RESPONSE_", "_BUS_STATUS_", "_POWER_"))))
    for nm in ("_cmdtmpl", "_resptmpl"):
        st = getattr(tri, nm)
        out.append('def tridonic%s_format : String := "%s"' % (nm, st.format))
        out.append("def tridonic%s_size : Nat := %d" % (nm, st.size))
    out.append("")
    has = hidmod.hasseb
    _group(out, summary, "hidhasseb", _int_attrs(has, lambda n: n.startswith("_") and n[1:2].isupper()))
    out.append('def hidhasseb_cmdtmpl_format : String := "%s"' % has._cmdtmpl.format)
    out.append("def hidhasseb_cmdtmpl_size : Nat := %d" % has._cmdtmpl.size)
    out.append("")

    ser = importlib.import_module("dali.driver.serial")
    lp = ser.DriverLubaRs232.LubaProtocol
    _group(out, summary, "luba", _int_attrs(lp, lambda n: n.isupper()))
    _group(out, summary, "lubaCmd", [(m.name, m.value) for m in ser.DriverLubaRs232.LubaCmd])
    _group(out, summary, "lubaReadState", [(m.name, m.value) for m in lp.ReadState])
    sp = ser.DriverSCIRS232.SCIRS232Protocol
    _group(out, summary, "sci", _int_attrs(sp, lambda n: n.isupper()))
    _group(out, summary, "sciCode", [(m.name, m.value) for m in ser.DriverSCIRS232.SCIRS232Code])
    _group(out, summary, "sciErrorType", [(m.name, m.value) for m in sp.ErrorType])
    _group(out, summary, "sciReadState", [(m.name, m.value) for m in sp.ReadState])

    atx = importlib.import_module("dali.driver.atxled")
    # prefix table: width -> character code of the prefix letter
    _group(out, summary, "atxPrefix", [("w%d" % k, ord(v)) for k, v in atx.DALI_PACKET_PREFIX.items()])
    _group(out, summary, "atxSize", [("c%d" % ord(k), v) for k, v in atx.DALI_PACKET_SIZE.items()])
    out.append("/-- `DALI_PACKET_PREFIX` as (width, prefix character code) -/")
    out.append("def atxPrefixTable : List (Nat × Nat) := [%s]" % ", ".join(
        "(%d, %d)" % (k, ord(v)) for k, v in sorted(atx.DALI_PACKET_PREFIX.items())))
    out.append("")

    ltri = importlib.import_module("dali.driver.tridonic")
    _group(out, summary, "legacyTridonic", _int_attrs(ltri, lambda n: n.startswith("DALI_USB_")))
    out.append("def legacyTridonic_first_sn : Nat := %d" % ltri.TridonicDALIUSBDriver._next_sn)
    out.append("")
    lhas = importlib.import_module("dali.driver.hasseb")
    _group(out, summary, "legacyHasseb", _int_attrs(lhas, lambda n: n.startswith("HASSEB_")))
    out.append("def legacyHasseb_first_sn : Nat := %d" % lhas.HassebDALIUSBDriver.sn)
    out.append("")
    uni = importlib.import_module("dali.driver.unipi")
    _group(out, summary, "unipi", _int_attrs(uni, lambda n: n.startswith("DA_")))

    out.append("end DaliVerif.Gen.DriverConsts")
    return "\n".join(out) + "\n", summary
