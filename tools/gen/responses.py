"""Translator plugin for C06: every response class reachable from any command
class in `dali.command.Command._commands`.

For each class: which *function object* implements `value`, `__str__`,
`status`, `error`, `__getattr__`, `__init__`, `raw_value` (found through the
MRO, identified by module + qualified name and mapped to the model's
constructors; anything the model does not know becomes `.custom "<qualname>"`,
for which the model has no semantics and `Props.C06.TableOK` fails), the class
data those functions read (`_expected`, `_error_acceptable`, `bits`,
`_bit_properties`, enumerator members, `_types`) and every other property /
function defined anywhere in the MRO (`extras`).

-> lean/DaliVerif/Gen/Responses.lean"""
from common import exc_name  # noqa: E402
import enum
import importlib
import pkgutil

NAME = "Responses"

VALUE = {
    "dali.command:Response.value": ".base",
    "dali.command:NumericResponse.value": ".numeric",
    "dali.command:NumericResponseMask.value": ".numericMask",
    "dali.command:YesNoResponse.value": ".yesNo",
    "dali.command:EnumResponse.value": ".enum",
    "dali.gear.colour:QueryAssignedColourResponse.value": ".assignedColour",
}
STR = {
    "dali.command:Response.__str__": ".base",
    "dali.command:BitmapResponse.__str__": ".bitmap",
    "dali.gear.general:QueryDeviceTypeResponse.__str__": ".deviceType",
    "dali.gear.general:QueryFadeTimeAndRateResponse.__str__": ".fadeTimeRate",
    "dali.gear.led:FastFadeTimeResponse.__str__": ".fastFade",
    "dali.gear.converter:OutputLevelResponse.__str__": ".outputLevel",
}
STATUS = {"dali.command:BitmapResponse.status": ".bitmap"}
ERROR = {"dali.command:BitmapResponse.error": ".bitmap",
         "dali.gear.general:QueryStatusResponse.error": ".queryStatus"}
GETATTR = {"dali.command:BitmapResponse.__getattr__": ".bitmap"}
EXTRA = {
    "dali.gear.general:QueryFadeTimeAndRateResponse.fade_time": ("fade_time", ".fadeTime"),
    "dali.gear.general:QueryFadeTimeAndRateResponse.fade_rate": ("fade_rate", ".fadeRate"),
    "dali.gear.colour:QueryColourTypeFeaturesResponse.primary_n": ("primary_n", ".primaryN"),
    "dali.gear.colour:QueryColourTypeFeaturesResponse.RGBWAF_channels": ("RGBWAF_channels", ".rgbwafChannels"),
    "dali.gear.colour:QueryRBGWAFControlResponse.control_type": ("control_type", ".controlType"),
    "dali.gear.emergency:QueryEmergencyModeResponse.mode": ("mode", ".emergencyMode"),
}
# names handled by a dedicated field of the record, or plain data
HANDLED = {"value", "__str__", "status", "error", "__getattr__", "__init__", "raw_value"}
DATA = {"_expected", "_error_acceptable", "bits", "_bit_properties", "enumerator", "_types",
        "__module__", "__doc__", "__qualname__", "__dict__", "__weakref__", "__annotations__",
        "__firstlineno__", "__static_attributes__", "__orig_bases__", "__parameters__"}


NOT_OBSERVED = {"__repr__", "__hash__", "__eq__", "__ne__", "__lt__", "__le__", "__gt__", "__ge__", "__slots__",
                "__match_args__", "__dataclass_fields__", "__dataclass_params__", "__abstractmethods__",
                "__sizeof__", "__dir__", "__class_getitem__", "__copy__", "__deepcopy__", "__reduce__",
                "__reduce_ex__", "__getstate__", "__setstate__", "__getnewargs__", "__getnewargs_ex__",
                "__subclasshook__", "__type_params__", "__protocol_attrs__", "__non_callable_proto_members__",
                # `copyreg` caches this on a class the first time an instance is copied or pickled (the harness does)
                "__slotnames__"}


def lstr(s):
    out = []
    for ch in s:
        if ch == "\\":
            out.append("\\\\")
        elif ch == '"':
            out.append('\\"')
        elif ch == "\n":
            out.append("\\n")
        elif ch == "\t":
            out.append("\\t")
        elif ord(ch) < 32:
            out.append("\\x%02x" % ord(ch))
        else:
            out.append(ch)
    return '"' + "".join(out) + '"'


def lbool(b):
    return "true" if b else "false"


def llist(items):
    return "[" + ", ".join(items) + "]"


def _func(obj):
    """the function object behind a class attribute"""
    if isinstance(obj, property):
        return obj.fget
    if isinstance(obj, (classmethod, staticmethod)):
        return obj.__func__
    return obj


def _qual(obj):
    f = _func(obj)
    mod = getattr(f, "__module__", None)
    qn = getattr(f, "__qualname__", None)
    if mod is None or qn is None:
        return "?:" + type(obj).__name__
    return "%s:%s" % (mod, qn)


def _find(cls, name):
    """(attribute object, defining class) through the MRO, `object` excluded"""
    for k in cls.__mro__:
        if k is object:
            continue
        if name in k.__dict__:
            return k.__dict__[name], k
    return None, None


def _impl(cls, name, table, absent=".absent", want_property=None):
    obj, _k = _find(cls, name)
    if obj is None:
        return absent
    q = _qual(obj)
    if want_property is not None and isinstance(obj, property) != want_property:
        return ".custom %s" % lstr(q + " (descriptor kind)")
    # A class the table knows by name that sits between `cls` and the class defining the function (inclusive) is
    # the nearest authority on what the accessor does: `NumericResponseMask` is "numeric with MASK" also when a
    # maintainer moves its `value` into the base class and leaves a hook (`_interpret`) behind.  Like `_owner_key`
    # this is a GUESS about restructured code that the exhaustive correspondence confirms or refutes.
    for e in cls.__mro__:
        if e is object:
            break
        key = "%s:%s.%s" % (e.__module__, e.__qualname__, name)
        if key in table:
            return table[key]
        if e is _k:
            break
    if q in table:
        return table[q]
    k = _owner_key(cls, name, obj, table)
    if k is not None:
        return table[k]
    return ".custom %s" % lstr(q)


def _owner_key(cls, name, obj, table):
    """The implementing function carries a qualified name the table does not know (a maintainer moved it into a
    mixin or helper base).  It is still 'the implementation of <E>.<name>' for a class E the table knows when E is
    in the MRO of `cls` and E resolves `name` to this very object: then the class data is read under E's semantics
    - a GUESS about the moved code that the correspondence then checks on every class x outcome x accessor
    (the domain is finite and covered exhaustively), so a moved function that also changed behaviour shows up
    as a disagreement with a concrete outcome."""
    for e in cls.__mro__:
        if e is object:
            continue
        key = "%s:%s.%s" % (e.__module__, e.__qualname__, name)
        if key in table and name not in e.__dict__ and _find(e, name)[0] is obj:
            return key
    return None


def import_all():
    import dali.gear
    import dali.device
    failed = []
    for pkg in (dali.gear, dali.device):
        for m in pkgutil.iter_modules(pkg.__path__):
            try:
                importlib.import_module(pkg.__name__ + "." + m.name)
            except Exception as e:  # noqa
                failed.append("%s.%s: %s" % (pkg.__name__, m.name, exc_name(e)))
    return failed


def reachable():
    """{response class: number of command classes using it}"""
    from dali import command
    import_all()
    seen = {}
    for c in __import__('gen._registry', fromlist=['x']).all_commands()[0]:
        r = getattr(c, "response", None)
        if r is not None:
            seen[r] = seen.get(r, 0) + 1
    return seen


def describe(cls, users):
    """dict describing one response class (also used by the C06 harness)"""
    from dali import command
    d = {"name": cls.__name__, "module": cls.__module__, "users": users}
    d["mro"] = [k.__name__ for k in cls.__mro__ if k is not object]
    init_obj, _ = _find(cls, "__init__")
    raw_obj, _ = _find(cls, "raw_value")
    d["ctorBase"] = (_func(init_obj) is command.Response.__dict__["__init__"]
                     and raw_obj is command.Response.__dict__["raw_value"])
    d["value"] = _impl(cls, "value", VALUE, absent='.custom "absent"', want_property=True)
    d["str"] = _impl(cls, "__str__", STR, absent='.custom "absent"', want_property=False)
    d["status"] = _impl(cls, "status", STATUS, want_property=True)
    d["error"] = _impl(cls, "error", ERROR, want_property=True)
    d["getattr"] = _impl(cls, "__getattr__", GETATTR, want_property=False)
    d["expected"] = bool(cls._expected)
    d["errorAcceptable"] = bool(cls._error_acceptable)
    bits = getattr(cls, "bits", None)
    d["bits"] = [b if (isinstance(b, str) and b) else "" for b in (bits or [])]
    d["bits_nonstr"] = [repr(b) for b in (bits or []) if b and not isinstance(b, str)]
    bp = getattr(cls, "_bit_properties", None) or {}
    d["bitProps"] = [(str(k), int(v)) for k, v in bp.items()]
    en = getattr(cls, "enumerator", None)
    members = []
    if en is not None:
        if isinstance(en, type) and issubclass(en, enum.IntEnum):
            members = [(n, int(m)) for n, m in en.__members__.items()]
        else:
            d["value"] = ".custom %s" % lstr("enumerator is not an IntEnum: %r" % (en,))
    d["members"] = members
    types_ = getattr(cls, "_types", None) or {}
    d["types"] = [(int(k), str(v)) for k, v in types_.items()]
    extras = []
    seen = set()
    ignored = []
    bitkeys = set(str(k) for k in bp)
    for k in cls.__mro__:
        if k is object:
            continue
        for n, obj in k.__dict__.items():
            if n in HANDLED or n in DATA or n in seen:
                continue
            seen.add(n)
            f = _func(obj)
            q = _qual(obj)
            if q in EXTRA and EXTRA[q][0] == n and isinstance(obj, property):
                extras.append((n, EXTRA[q][1]))
                continue
            ok = _owner_key(cls, n, obj, EXTRA) if isinstance(obj, property) else None
            if ok is not None and EXTRA[ok][0] == n:
                extras.append((n, EXTRA[ok][1]))
                continue
            dunder = n.startswith("__") and n.endswith("__")
            if dunder and n in NOT_OBSERVED:
                # special methods that cannot change what the accessors of C06 return or how `str()` renders:
                # debugging aids, hashing / comparison of response objects, copying and pickling hooks (the
                # copies themselves are observed by the harness), class-level bookkeeping
                ignored.append(n)
                continue
            if n in bitkeys or dunder:
                # a class attribute of this name hides the named bit's property (found before __getattr__),
                # and an unknown special method may change how the object is built, compared or rendered:
                # no semantics in the model, `WellFormed` fails and the check searches for a witness
                if not (callable(f) or isinstance(obj, (property, classmethod, staticmethod)) or hasattr(obj, "__get__")):
                    extras.append((n, ".custom %s" % lstr("data:" + type(obj).__name__)))
                else:
                    extras.append((n, ".custom %s" % lstr(q)))
                continue
            # Anything else — private helpers and data, new public helper methods / properties / constants that
            # none of the property's accessors is — is outside what C06 speaks about: listed, not judged.
            ignored.append(n)
    d["ignored"] = ignored
    d["extras"] = extras
    if d["bits_nonstr"]:
        d["status"] = ".custom %s" % lstr("non-string bit names")
    return d


def generate(repo):
    seen = reachable()
    classes = sorted(seen, key=lambda c: (c.__module__, c.__name__))
    rows = []
    summary = {"classes": len(classes), "custom": []}
    for cls in classes:
        d = describe(cls, seen[cls])
        for k in ("value", "str", "status", "error", "getattr"):
            if d[k].startswith(".custom"):
                summary["custom"].append("%s.%s" % (d["name"], k))
        for n, e in d["extras"]:
            if e.startswith(".custom"):
                summary["custom"].append("%s.%s" % (d["name"], n))
        for n in d["ignored"]:
            summary.setdefault("not_judged", []).append("%s.%s" % (d["name"], n))
        rows.append(
            "  { name := %s, module := %s,\n"
            "    mro := %s,\n"
            "    ctorBase := %s, value := %s, str := %s, status := %s, error := %s, getattr := %s,\n"
            "    expected := %s, errorAcceptable := %s,\n"
            "    bits := %s,\n"
            "    bitProps := %s,\n"
            "    members := %s,\n"
            "    extras := %s,\n"
            "    types := %s,\n"
            "    users := %d }" % (
                lstr(d["name"]), lstr(d["module"]),
                llist(lstr(x) for x in d["mro"]),
                lbool(d["ctorBase"]), d["value"], d["str"], d["status"], d["error"], d["getattr"],
                lbool(d["expected"]), lbool(d["errorAcceptable"]),
                llist(lstr(x) for x in d["bits"]),
                llist("(%s, %d)" % (lstr(k), v) for k, v in d["bitProps"]),
                llist("(%s, %d)" % (lstr(k), v) for k, v in d["members"]),
                llist("(%s, %s)" % (lstr(k), v) for k, v in d["extras"]),
                llist("(%d, %s)" % (k, lstr(v)) for k, v in d["types"]),
                d["users"]))
    src = ("import DaliVerif.Model.ResponseTypes\n"
           "namespace DaliVerif.Gen\nopen DaliVerif.Resp\n\n"
           "/-- every response class reachable from a command class (%d) -/\n"
           "def responses : List RespClass := [\n%s\n]\n\n"
           "end DaliVerif.Gen\n" % (len(rows), ",\n".join(rows)))
    return src, summary
