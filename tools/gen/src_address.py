"""Source translator plugin: `dali/address.py` -> lean/DaliVerif/Gen/SrcAddress.lean

`address.from_frame`, `instance_from_frame`, every address / instance class's constructor + `add_to_frame`
are RUN on frames whose contents are a symbolic integer (tools/symtrace.py); every path is printed as a branch
of a Lean definition over `Int`.  `Tie/Address.lean` proves these equal to the model (`Model/Address.lean`) for
all 16- and 24-bit frames and all integer arguments."""
import random

import symtrace as st

NAME = "SrcAddress"

GEAR = ["GearBroadcast", "GearBroadcastUnaddressed", "GearGroup", "GearShort"]
DEVICE = ["DeviceBroadcast", "DeviceBroadcastUnaddressed", "DeviceGroup", "DeviceShort"]
NUMBERED = {"GearGroup", "GearShort", "DeviceGroup", "DeviceShort"}
INST_NUM = ["InstanceNumber", "InstanceGroup", "InstanceType", "FeatureInstanceNumber", "FeatureInstanceGroup",
            "FeatureInstanceType"]
INST_PLAIN = ["FeatureInstanceBroadcast", "InstanceBroadcast", "FeatureDevice", "Device"]


def entries():
    from dali import address
    from dali.frame import ForwardFrame

    def mk(bits, data):
        f = ForwardFrame.__new__(ForwardFrame)
        f._bits, f._data, f._error = bits, data, False
        return f

    def addr_desc(a):
        if a is None:
            return ("None", 0)
        n = getattr(a, "address", None)
        if n is None:
            n = getattr(a, "group", 0)
        return (type(a).__name__, n)

    def inst_desc(i):
        if i is None:
            return ("None", 0)
        v = i.value
        return (type(i).__name__, 0 if v is None else v)

    def add(cls, bits, numbered):
        def call(a):
            obj = cls(a["n"]) if numbered else cls()
            f = mk(bits, a["d"])
            obj.add_to_frame(f)
            return f._data
        return call

    def E(*a):
        return st.Entry(*a, wide=("d",))

    es = [
        E("fromFrame16", ["d"], "String × Int", lambda a: addr_desc(address.from_frame(mk(16, a["d"]))),
          "address.from_frame on a 16-bit frame holding d: (class name or \"None\", number)"),
        E("fromFrame24", ["d"], "String × Int", lambda a: addr_desc(address.from_frame(mk(24, a["d"]))),
          "address.from_frame on a 24-bit frame holding d"),
        E("instFromFrame24", ["d"], "String × Int", lambda a: inst_desc(address.instance_from_frame(mk(24, a["d"]))),
          "address.instance_from_frame on a 24-bit frame holding d: (class name, value)"),
    ]
    for name in GEAR + DEVICE:
        cls = getattr(address, name)
        bits = 16 if name in GEAR else 24
        numbered = name in NUMBERED
        es.append(E("add" + name, ["d"] + (["n"] if numbered else []), "Int", add(cls, bits, numbered),
                    "%s(%s).add_to_frame(frame of %d bits holding d): the frame's contents afterwards"
                    % (name, "n" if numbered else "", bits)))
    for name in INST_NUM + ["ReservedInstance"]:
        es.append(E("add" + name, ["d", "n"], "Int", add(getattr(address, name), 24, True),
                    "%s(n).add_to_frame(24-bit frame holding d)" % name))
    for name in INST_PLAIN:
        es.append(E("add" + name, ["d"], "Int", add(getattr(address, name), 24, False),
                    "%s().add_to_frame(24-bit frame holding d)" % name))
    return es


def generate(repo):
    rng = random.Random(20260930)
    out = ["import DaliVerif.Model.PyInt", "set_option linter.unusedVariables false",
           "namespace DaliVerif.Gen.SrcAddress", ""]
    summ = {}
    for e in entries():
        e.trace()
        bad = e.validate(rng, pool=[0x7F << 9, 0x7E << 9, 0xFE00, 0xFFFF, 0x8000, 0x10000, 0xFFFFFF, 0xFE0000,
                                    0xFF0000, 0xFD00, 0xFC00, 0xFE00, 63, 64, 31, 32, 15, 16])
        if bad:
            raise RuntimeError("trace of %s disagrees with the code it was traced from: %r" % (e.name, bad[:2]))
        out.append(e.lean())
        summ[e.name] = e.npaths
    out.append("end DaliVerif.Gen.SrcAddress")
    return "\n".join(out) + "\n", {"paths": summ}
