"""The decode registries of the library as flat {key: class} tables.

First choice is reflection over the registry attribute (`_opcodes`), exactly as
the library fills it at import.  If that attribute no longer has the expected
shape (a maintainer changed its representation — nested dicts, a list, a
tuple-indexed table …), the same table is recovered by PROBING the class's own
`from_frame` with one frame per key: the table is then what the decoder
actually dispatches on, whatever it is stored in.  Either way the table is data
of the current tree; the model's claim that decoding is a lookup in it is tied
by the exhaustive correspondence of C01."""


def _flat_ok(d, keycheck):
    if not isinstance(d, dict):
        return False
    for k, v in d.items():
        if not isinstance(v, type):
            return False
        if not keycheck(k):
            return False
    return True


def _int(k):
    return isinstance(k, int) and not isinstance(k, bool)


def std_registry():
    """[((devicetype, opcode), class)] of `_StandardCommand`; how = 'reflection' | 'probe'"""
    from dali.gear import general as gg
    from dali import command
    from dali.frame import ForwardFrame
    d = getattr(gg._StandardCommand, "_opcodes", None)
    if _flat_ok(d, lambda k: isinstance(k, tuple) and len(k) == 2):
        return list(d.items()), "reflection"
    dts = {0}
    for c in all_commands()[0]:
        if isinstance(c, type) and issubclass(c, gg._StandardCommand) and _int(getattr(c, "devicetype", None)):
            dts.add(c.devicetype)
    items = []
    for dt in sorted(dts):
        for op in range(256):
            obj = gg._StandardCommand.from_frame(ForwardFrame(16, [0x01, op]), devicetype=dt)
            if obj is not None and not isinstance(obj, gg.UnknownGearCommand):
                items.append(((dt, op), type(obj)))
    return items, "probe"


def special_registry():
    from dali.gear import general as gg
    from dali.frame import ForwardFrame
    d = getattr(gg._SpecialCommand, "_opcodes", None)
    if _flat_ok(d, lambda k: True):
        return list(d.items()), "reflection"
    items = []
    for b in range(256):
        for data in (0x00, 0xff, 0x01):
            obj = gg._SpecialCommand.from_frame(ForwardFrame(16, [b, data]))
            if obj is not None and not isinstance(obj, gg.UnknownGearCommand):
                items.append((b, type(obj)))
                break
    return items, "probe"


def devstd_registry():
    from dali.device import general as dg
    from dali.frame import ForwardFrame
    d = getattr(dg._StandardDeviceCommand, "_opcodes", None)
    if _flat_ok(d, lambda k: True):
        return list(d.items()), "reflection"
    items = []
    for op in range(256):
        obj = dg._StandardDeviceCommand.from_frame(ForwardFrame(24, [0x01, 0xFE, op]))
        if obj is not None and not isinstance(obj, dg.UnknownDeviceCommand):
            items.append((op, type(obj)))
    return items, "probe"


def devinst_registry():
    from dali.device import general as dg
    from dali.frame import ForwardFrame
    d = getattr(dg._StandardInstanceCommand, "_opcodes", None)
    if _flat_ok(d, lambda k: True):
        return list(d.items()), "reflection"
    items = []
    for op in range(256):
        obj = dg._StandardInstanceCommand.from_frame(ForwardFrame(24, [0x01, 0x00, op]))
        if obj is not None and not isinstance(obj, dg.UnknownDeviceCommand):
            items.append((op, type(obj)))
    return items, "probe"


def canon(obj, depth=0):
    """order-independent printable snapshot of a registry, whatever its representation"""
    if isinstance(obj, type):
        return obj.__name__
    if isinstance(obj, dict):
        return sorted((str(k), canon(v, depth + 1)) for k, v in obj.items())
    if isinstance(obj, (list, tuple)):
        return [canon(v, depth + 1) for v in obj]
    if isinstance(obj, (set, frozenset)):
        return sorted(str(canon(v, depth + 1)) for v in obj)
    return repr(obj)


# ---- registries whose NAME or representation a maintainer may change ------------------------------------------
# The library keeps several class-level registries that only order / enumerate classes (which families decode a
# frame of a given length, which address kinds exist, which event classes belong to an instance type …).  They
# are private: their names and container types are the library's business.  `holder(...)` finds such a registry
# by what it CONTAINS (classes derived from a given base), trying the historical name first, and flattens it to
# an ordered list (or a keyed list); when no attribute qualifies, the classes are found by walking subclasses in
# creation order.  The theorems that consume these lists are order-independent wherever the library's own
# dispatch is (see Props/C04 `decode_partition`), and TableOK re-checks the rest on every run.

def _flatten(x, out=None):
    out = [] if out is None else out
    if isinstance(x, type):
        out.append(x)
    elif isinstance(x, dict):
        for v in x.values():
            _flatten(v, out)
    elif isinstance(x, (list, tuple)):
        for v in x:
            _flatten(v, out)
    elif isinstance(x, (set, frozenset)):
        for v in sorted(x, key=lambda c: getattr(c, "__qualname__", str(c))):
            _flatten(v, out)
    return out


def _walk(base):
    seen = []
    stack = [base]
    while stack:
        c = stack.pop(0)
        for s in c.__subclasses__():
            if s not in seen:
                seen.append(s)
                stack.append(s)
    return seen


def _candidates(owner):
    seen = set()
    for k in owner.__mro__:
        if k is object:
            continue
        for name, v in vars(k).items():
            if name in seen or name.startswith("__"):
                continue
            seen.add(name)
            if isinstance(v, (list, tuple, dict, set, frozenset)):
                yield name, v


def holder(owner, legacy, base, member_ok=lambda c: True):
    """(ordered list of classes, how)"""
    def good(v):
        cs = _flatten(v)
        return cs and all(isinstance(c, type) and issubclass(c, base) for c in cs) and any(member_ok(c) for c in cs)
    v = getattr(owner, legacy, None)
    if v is not None and good(v):
        return _dedupe(_flatten(v)), "reflection:" + legacy
    best = None
    for name, v in _candidates(owner):
        if good(v):
            cs = _dedupe(_flatten(v))
            if best is None or len(cs) > len(best[0]):
                best = (cs, "reflection:" + name)
    if best:
        return best
    return [c for c in _walk(base) if member_ok(c)], "subclass-walk"


def _dedupe(l):
    out = []
    for x in l:
        if x not in out:
            out.append(x)
    return out


def keyed_holder(owner, legacy, base):
    """[(int key, [classes])] of a registry that maps small integers to a class or to a list of classes"""
    def items_of(v):
        if not isinstance(v, dict):
            return None
        out = []
        for k, x in v.items():
            if not _int(k):
                continue
            cs = _flatten(x)
            if not cs or not all(isinstance(c, type) and issubclass(c, base) for c in cs):
                return None
            out.append((k, cs))
        return out or None
    v = getattr(owner, legacy, None)
    it = items_of(v) if v is not None else None
    if it:
        return it, "reflection:" + legacy
    best = None
    for name, v in _candidates(owner):
        it = items_of(v)
        if it and (best is None or sum(len(c) for _, c in it) > sum(len(c) for _, c in best[0])):
            best = (it, "reflection:" + name)
    return best if best else ([], "not-found")


def all_commands():
    """every command class the library registers (historically `Command._commands`)"""
    from dali import command
    v = getattr(command.Command, "_commands", None)
    if isinstance(v, (list, tuple, set, frozenset)) and v and all(isinstance(c, type) for c in v):
        return list(v), "reflection:_commands"
    for name, x in _candidates(command.Command):
        cs = _flatten(x) if not isinstance(x, dict) else []
        if len(cs) > 100 and all(isinstance(c, type) and issubclass(c, command.Command) for c in cs):
            return _dedupe(cs), "reflection:" + name
    return [c for c in _walk(command.Command) if not c.__name__.startswith("_")], "subclass-walk"


def gear_families():
    from dali.gear import general as gg
    return holder(gg._GearCommand, "_gearcommands", gg._GearCommand)


def device_families():
    from dali.device import general as dg
    return holder(dg._DeviceCommand, "_devicecommands", dg._DeviceCommand)


def address_kinds():
    from dali import address
    return holder(address.Address, "_addrtypes", address.Address)


def frame_sizes():
    """[(frame length, [top-level families])] (historically `Command._framesizes`)"""
    from dali import command
    it, how = keyed_holder(command.Command, "_framesizes", command.Command)
    if it:
        return it, how
    # derive: the direct families declare the frame length they decode
    out = {}
    for c in command.Command.__subclasses__():
        n = getattr(c, "_framesize", None)
        if _int(n):
            out.setdefault(n, []).append(c)
    return sorted(out.items()), "derived:_framesize"


def instance_types():
    from dali.device import general as dg
    return keyed_holder(dg._Event, "_instance_types", dg._Event)


def pushbutton_events():
    from dali.device import pushbutton
    return keyed_holder(pushbutton._PushbuttonEvent, "_event_classes", pushbutton._PushbuttonEvent)


def snapshot_all():
    """printable, order-independent snapshot of every class-level container of the decoding classes, whatever
    they are called (purity check of C01: decoding must not write to any of them)"""
    from dali import command, address
    from dali.gear import general as gg
    from dali.device import general as dg, pushbutton
    parts = []
    owners = [command.Command, gg._GearCommand, gg._StandardCommand, gg._SpecialCommand, dg._DeviceCommand,
              dg._StandardDeviceCommand, dg._StandardInstanceCommand, dg._Event, pushbutton._PushbuttonEvent,
              address.Address]
    for o in owners:
        for name, v in sorted(_candidates(o), key=lambda nv: nv[0]):
            parts.append((o.__name__, name, canon(v)))
    return parts


# ---- per-class constants (opcode byte, parameter flag, special address bytes, frame size) ----------------------
# Historically class attributes `_cmdval`, `_hasparam`, `_opcode`, `_addr`, `_instance`, `_event_info`,
# `_framesize`.  They are read by name when present; when a maintainer renames them they are recovered by
# PROBING the class: build one object with neutral arguments and read the constant off its frame.

def _probe_obj(c, *argsets):
    for args, kw in argsets:
        try:
            return c(*args, **kw)
        except Exception:   # noqa
            continue
    return None


def framesize_of(c):
    v = getattr(c, "_framesize", None)
    if _int(v):
        return v
    from dali import address as A
    o = _probe_obj(c, ((A.GearBroadcast(),), {}), ((A.GearBroadcast(), 0), {}), ((A.DeviceBroadcast(),), {}),
                   ((A.DeviceBroadcast(), A.InstanceNumber(0)), {}), ((), {}), ((0,), {}), ((0, 0), {}),
                   ((), {"short_address": 0}))
    return len(o.frame) if o is not None else 0


def hasparam_of(c):
    v = getattr(c, "_hasparam", None)
    if isinstance(v, bool):
        return v
    from dali import address as A
    from dali.gear import general as gg
    if issubclass(c, gg._StandardCommand):
        return _probe_obj(c, ((A.GearBroadcast(),), {})) is None and \
            _probe_obj(c, ((A.GearBroadcast(), 0), {})) is not None
    if issubclass(c, gg._SpecialCommand):
        # the second byte carries a parameter iff two different arguments give two different second bytes
        for a, b in ((((0,), {}), ((1,), {})), (((), {"address": 0}), ((), {"address": 1}))):
            x, y = _probe_obj(c, a), _probe_obj(c, b)
            if x is not None and y is not None:
                return (x.frame.as_integer & 0xFF) != (y.frame.as_integer & 0xFF)
        return False
    return False


def code_of(c):
    """opcode byte of a standard gear / device / instance command, first byte of a special gear command,
    event-information code of an event class"""
    for attr in ("_cmdval", "_opcode", "_event_info"):
        v = getattr(c, attr, None)
        if _int(v):
            return v
    from dali import address as A
    from dali.gear import general as gg
    from dali.device import general as dg
    if issubclass(c, gg._StandardCommand):
        o = _probe_obj(c, ((A.GearBroadcast(),), {}), ((A.GearBroadcast(), 0), {}))
        return (o.frame.as_integer & 0xFF) if o is not None else None
    if issubclass(c, gg._SpecialCommand):
        o = _probe_obj(c, ((), {}), ((0,), {}), (("MASK",), {}))
        return (o.frame.as_integer >> 8) & 0xFF if o is not None else None
    if issubclass(c, (dg._StandardDeviceCommand, dg._StandardInstanceCommand)):
        o = _probe_obj(c, ((A.DeviceBroadcast(),), {}), ((A.DeviceBroadcast(), A.InstanceNumber(0)), {}))
        return (o.frame.as_integer & 0xFF) if o is not None else None
    if issubclass(c, dg._Event):
        o = _probe_obj(c, ((), {"instance_group": 0}))
        return (o.frame.as_integer & 0x3FF) if o is not None else None
    return None


def special_bytes_of(c):
    """(address byte, instance byte) of a special device command"""
    a, i = getattr(c, "_addr", None), getattr(c, "_instance", None)
    if _int(a) and (_int(i) or i is None):
        return a, i
    o = _probe_obj(c, ((), {}), ((0,), {}), ((0, 0), {}))
    if o is None:
        return None, None
    d = o.frame.as_integer
    return (d >> 16) & 0xFF, (d >> 8) & 0xFF
