"""The decode registries of the library as flat {key: class} tables.

First choice is reflection over the registry attribute (`_opcodes`), exactly as
the library fills it at import.  If that attribute no longer has the expected
shape (a maintainer changed its representation — nested dicts, a list, a
tuple-indexed table …), the same table is recovered by PROBING the class's own
`from_frame` with one frame per key: the table is then what the decoder
actually dispatches on, whatever it is stored in.  Either way the table is data
of the current tree; the model's claim that decoding is a lookup in it is tied
by the exhaustive correspondence of C01."""


def _flat_ok(d, keycheck):
    if not isinstance(d, dict):
        return False
    for k, v in d.items():
        if not isinstance(v, type):
            return False
        if not keycheck(k):
            return False
    return True


def _int(k):
    return isinstance(k, int) and not isinstance(k, bool)


def std_registry():
    """[((devicetype, opcode), class)] of `_StandardCommand`; how = 'reflection' | 'probe'"""
    from dali.gear import general as gg
    from dali import command
    from dali.frame import ForwardFrame
    d = getattr(gg._StandardCommand, "_opcodes", None)
    if _flat_ok(d, lambda k: isinstance(k, tuple) and len(k) == 2):
        return list(d.items()), "reflection"
    dts = {0}
    for c in command.Command._commands:
        if isinstance(c, type) and issubclass(c, gg._StandardCommand) and _int(getattr(c, "devicetype", None)):
            dts.add(c.devicetype)
    items = []
    for dt in sorted(dts):
        for op in range(256):
            obj = gg._StandardCommand.from_frame(ForwardFrame(16, [0x01, op]), devicetype=dt)
            if obj is not None and not isinstance(obj, gg.UnknownGearCommand):
                items.append(((dt, op), type(obj)))
    return items, "probe"


def special_registry():
    from dali.gear import general as gg
    from dali.frame import ForwardFrame
    d = getattr(gg._SpecialCommand, "_opcodes", None)
    if _flat_ok(d, lambda k: True):
        return list(d.items()), "reflection"
    items = []
    for b in range(256):
        for data in (0x00, 0xff, 0x01):
            obj = gg._SpecialCommand.from_frame(ForwardFrame(16, [b, data]))
            if obj is not None and not isinstance(obj, gg.UnknownGearCommand):
                items.append((b, type(obj)))
                break
    return items, "probe"


def devstd_registry():
    from dali.device import general as dg
    from dali.frame import ForwardFrame
    d = getattr(dg._StandardDeviceCommand, "_opcodes", None)
    if _flat_ok(d, lambda k: True):
        return list(d.items()), "reflection"
    items = []
    for op in range(256):
        obj = dg._StandardDeviceCommand.from_frame(ForwardFrame(24, [0x01, 0xFE, op]))
        if obj is not None and not isinstance(obj, dg.UnknownDeviceCommand):
            items.append((op, type(obj)))
    return items, "probe"


def devinst_registry():
    from dali.device import general as dg
    from dali.frame import ForwardFrame
    d = getattr(dg._StandardInstanceCommand, "_opcodes", None)
    if _flat_ok(d, lambda k: True):
        return list(d.items()), "reflection"
    items = []
    for op in range(256):
        obj = dg._StandardInstanceCommand.from_frame(ForwardFrame(24, [0x01, 0x00, op]))
        if obj is not None and not isinstance(obj, dg.UnknownDeviceCommand):
            items.append((op, type(obj)))
    return items, "probe"


def canon(obj, depth=0):
    """order-independent printable snapshot of a registry, whatever its representation"""
    if isinstance(obj, type):
        return obj.__name__
    if isinstance(obj, dict):
        return sorted((str(k), canon(v, depth + 1)) for k, v in obj.items())
    if isinstance(obj, (list, tuple)):
        return [canon(v, depth + 1) for v in obj]
    if isinstance(obj, (set, frozenset)):
        return sorted(str(canon(v, depth + 1)) for v in obj)
    return repr(obj)
