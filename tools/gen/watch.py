"""Translator plugin for C16 / C20: the constants the answer mappings, the
routing and the bus watcher read — Tridonic report modes / types / bus status,
hasseb status codes, serial time-outs, the bus-watch time-out (literal in
`tridonic._bus_watch`, read from the AST), the ATX prefix letters.

-> lean/DaliVerif/Gen/Watch.lean"""
import ast
import inspect
import sys
import textwrap
import types

NAME = "Watch"


def _stubs():
    for name in ("usb", "usb.core", "usb.util", "hid", "serial", "serial_asyncio"):
        try:
            __import__(name)
        except Exception:
            if name not in sys.modules:
                sys.modules[name] = types.ModuleType(name)


def _bus_watch_timeout_ms(tridonic):
    """the time-out the bus watcher applies while a command is pending: the second argument of the
    `asyncio.wait_for(...)` in the watcher — a literal, or a name that resolves to a class / module constant —
    looked for in `_bus_watch` first and then in every method of the class whose name mentions the bus watch"""
    import dali.driver.hid as hidmod

    def timeouts_in(func):
        try:
            src = textwrap.dedent(inspect.getsource(func))
        except (OSError, TypeError):
            return []
        vals = []
        for node in ast.walk(ast.parse(src)):
            if isinstance(node, ast.Call) and isinstance(node.func, ast.Attribute) and node.func.attr == "wait_for":
                arg = node.args[1] if len(node.args) >= 2 else None
                for kw in node.keywords:
                    if kw.arg == "timeout":
                        arg = kw.value
                v = None
                if isinstance(arg, ast.Constant) and isinstance(arg.value, (int, float)):
                    v = arg.value
                elif isinstance(arg, ast.Attribute):         # self.X / tridonic.X / cls.X
                    v = getattr(tridonic, arg.attr, None)
                elif isinstance(arg, ast.Name):              # module-level constant
                    v = getattr(hidmod, arg.id, None)
                if isinstance(v, (int, float)) and not isinstance(v, bool):
                    vals.append(v)
        return vals
    vals = timeouts_in(getattr(tridonic, "_bus_watch", None)) if hasattr(tridonic, "_bus_watch") else []
    if not vals:
        for name, f in vars(tridonic).items():
            if "watch" in name.lower() and callable(getattr(f, "__func__", f)):
                vals += timeouts_in(getattr(f, "__func__", f))
    vals = sorted(set(vals))
    if len(vals) != 1:
        raise RuntimeError("cannot find the single bus-watch time-out: %r" % vals)
    return int(round(vals[0] * 1000))


def generate(repo):
    _stubs()
    from dali.driver import hid
    T, H = hid.tridonic, hid.hasseb
    consts = [
        ("MODE_INFO", T._MODE_INFO), ("MODE_OBSERVE", T._MODE_OBSERVE),
        ("MODE_RESPONSE", T._MODE_RESPONSE),
        ("RESPONSE_NO_FRAME", T._RESPONSE_NO_FRAME),
        ("RESPONSE_FRAME_DALI8", T._RESPONSE_FRAME_DALI8),
        ("RESPONSE_FRAME_DALI16", T._RESPONSE_FRAME_DALI16),
        ("RESPONSE_FRAME_DALI24", T._RESPONSE_FRAME_DALI24),
        ("RESPONSE_INFO", T._RESPONSE_INFO),
        ("BUS_STATUS_FRAMING_ERROR", T._BUS_STATUS_FRAMING_ERROR),
        ("HASSEB_NO_DATA_AVAILABLE", H._NO_DATA_AVAILABLE),
        ("HASSEB_NO_ANSWER", H._NO_ANSWER), ("HASSEB_OK", H._OK),
        ("HASSEB_INVALID_ANSWER", H._INVALID_ANSWER),
        ("BUS_WATCH_TIMEOUT_MS", _bus_watch_timeout_ms(T)),
    ]
    summary = {k: v for k, v in consts}
    try:
        from dali.driver import serial as ds
        consts += [("LUBA_TIMEOUT_RX_US", int(round(ds.DriverLubaRs232.timeout_rx * 1e6))),
                   ("SCI_TIMEOUT_RX_US", int(round(ds.DriverSCIRS232.timeout_rx * 1e6)))]
    except Exception:
        pass
    lines = ["namespace DaliVerif.Gen.Watch", ""]
    for k, v in consts:
        if not isinstance(v, int) or isinstance(v, bool) or v < 0:
            raise RuntimeError("constant %s is not a natural number: %r" % (k, v))
        lines.append("def %s : Nat := %d" % (k, v))
    lines += ["", "end DaliVerif.Gen.Watch", ""]
    return "\n".join(lines), summary
