"""Translator plugin for C16 / C20: the constants the answer mappings, the
routing and the bus watcher read — Tridonic report modes / types / bus status,
hasseb status codes, serial time-outs, the bus-watch time-out (literal in
`tridonic._bus_watch`, read from the AST), the ATX prefix letters.

-> lean/DaliVerif/Gen/Watch.lean"""
import ast
import inspect
import sys
import textwrap
import types

NAME = "Watch"


def _stubs():
    for name in ("usb", "usb.core", "usb.util", "hid", "serial", "serial_asyncio"):
        try:
            __import__(name)
        except Exception:
            if name not in sys.modules:
                sys.modules[name] = types.ModuleType(name)


def _bus_watch_timeout_ms(tridonic):
    """the literal second argument of asyncio.wait_for(...) inside _bus_watch"""
    src = textwrap.dedent(inspect.getsource(tridonic._bus_watch))
    vals = []
    for node in ast.walk(ast.parse(src)):
        if isinstance(node, ast.Call) and isinstance(node.func, ast.Attribute) \
                and node.func.attr == "wait_for":
            arg = None
            if len(node.args) >= 2:
                arg = node.args[1]
            for kw in node.keywords:
                if kw.arg == "timeout":
                    arg = kw.value
            if isinstance(arg, ast.Constant) and isinstance(arg.value, (int, float)):
                vals.append(arg.value)
    if len(vals) != 1:
        raise RuntimeError("cannot find the single bus-watch time-out literal: %r" % vals)
    return int(round(vals[0] * 1000))


def generate(repo):
    _stubs()
    from dali.driver import hid
    T, H = hid.tridonic, hid.hasseb
    consts = [
        ("MODE_INFO", T._MODE_INFO), ("MODE_OBSERVE", T._MODE_OBSERVE),
        ("MODE_RESPONSE", T._MODE_RESPONSE),
        ("RESPONSE_NO_FRAME", T._RESPONSE_NO_FRAME),
        ("RESPONSE_FRAME_DALI8", T._RESPONSE_FRAME_DALI8),
        ("RESPONSE_FRAME_DALI16", T._RESPONSE_FRAME_DALI16),
        ("RESPONSE_FRAME_DALI24", T._RESPONSE_FRAME_DALI24),
        ("RESPONSE_INFO", T._RESPONSE_INFO),
        ("BUS_STATUS_FRAMING_ERROR", T._BUS_STATUS_FRAMING_ERROR),
        ("HASSEB_NO_DATA_AVAILABLE", H._NO_DATA_AVAILABLE),
        ("HASSEB_NO_ANSWER", H._NO_ANSWER), ("HASSEB_OK", H._OK),
        ("HASSEB_INVALID_ANSWER", H._INVALID_ANSWER),
        ("BUS_WATCH_TIMEOUT_MS", _bus_watch_timeout_ms(T)),
    ]
    summary = {k: v for k, v in consts}
    try:
        from dali.driver import serial as ds
        consts += [("LUBA_TIMEOUT_RX_US", int(round(ds.DriverLubaRs232.timeout_rx * 1e6))),
                   ("SCI_TIMEOUT_RX_US", int(round(ds.DriverSCIRS232.timeout_rx * 1e6)))]
    except Exception:
        pass
    lines = ["namespace DaliVerif.Gen.Watch", ""]
    for k, v in consts:
        if not isinstance(v, int) or isinstance(v, bool) or v < 0:
            raise RuntimeError("constant %s is not a natural number: %r" % (k, v))
        lines.append("def %s : Nat := %d" % (k, v))
    lines += ["", "end DaliVerif.Gen.Watch", ""]
    return "\n".join(lines), summary
