"""Translator plugin: command/event class records and the decode registries
as populated by the metaclasses at import  ->  lean/DaliVerif/Gen/Commands.lean"""
NAME = "Commands"


def lstr(s):
    return '"' + s.replace("\\", "\\\\").replace('"', '\\"') + '"'


def lbool(b):
    return "true" if b else "false"


def chunked(name, typ, items, n=32):
    """emit `def name : List typ` as an append of chunks (big literals are slow)"""
    out, parts = [], []
    for i in range(0, len(items), n):
        pn = "%s_%d" % (name, i // n)
        out.append("def %s : List (%s) := [\n  %s]" % (pn, typ, ",\n  ".join(items[i:i + n])))
        parts.append(pn)
    out.append("def %s : List (%s) := %s" % (name, typ, " ++ ".join(parts) if parts else "[]"))
    return "\n".join(out)


def qual(fn):
    """qualified name of the function object implementing a method / property"""
    f = getattr(fn, "__func__", fn)
    if isinstance(f, property):
        f = f.fget
    return getattr(f, "__qualname__", repr(f))


def generate(repo):
    import dali.gear  # noqa: F401  (imports every gear module)
    import dali.device  # noqa: F401
    from dali import command, address
    from dali.gear import general as gg
    from dali.device import general as dg, pushbutton

    def impl(cls, name):
        for k in cls.__mro__:
            if name in k.__dict__:
                return qual(k.__dict__[name])
        return "?"

    def short(cls):
        return cls.__module__.replace("dali.", "") + "." + cls.__name__

    # ---- standard gear commands ------------------------------------------------
    def behaves(c, argsets, dt=0):
        """fallback when the implementing functions were renamed / moved by a maintainer: the class still
        counts as one the model mirrors if objects built from neutral arguments decode back to the same class
        with the same text (whether the model really mirrors it is what the C01/C02 correspondence decides)"""
        from dali.frame import ForwardFrame
        okn = 0
        for args in argsets:
            try:
                o = c(*args)
                back = command.from_frame(ForwardFrame(len(o.frame), o.frame.as_integer), devicetype=dt)
            except Exception:   # noqa
                continue
            if type(back) is not c or str(back) != str(o):
                return False
            okn += 1
        return okn > 0

    def std_known(c):
        if (impl(c, "__init__") == "_StandardCommand.__init__" and
                impl(c, "from_frame") == "_StandardCommand.from_frame" and
                impl(c, "__str__") == "_StandardCommand.__str__"):
            return True
        if any(n in c.__dict__ for n in ("__init__", "from_frame", "__str__")):
            return False        # the class itself overrides one of them: not the family's behaviour
        return behaves(c, [(address.GearBroadcast(),), (address.GearBroadcast(), 3), (address.GearShort(5),),
                           (address.GearShort(5), 0)], dt=c.devicetype if isinstance(c.devicetype, int) else 0)

    def std_rec(c):
        cv = reg.code_of(c)
        return "⟨%s, %d, %s, %d, %s⟩" % (lstr(short(c)), cv if cv is not None else 999,
                                        lbool(reg.hasparam_of(c)), c.devicetype, lbool(std_known(c)))

    from gen import _registry as reg
    std_reg, how_std = reg.std_registry()
    special_reg, how_special = reg.special_registry()
    devstd_reg, how_devstd = reg.devstd_registry()
    devinst_reg, how_devinst = reg.devinst_registry()
    std_items = []
    for (dt, op), c in std_reg:
        if not isinstance(dt, int) or not isinstance(op, int):
            continue
        std_items.append("((%d, %d), %s)" % (dt, op, std_rec(c)))

    def special_kind(c):
        i, f, s = impl(c, "__init__"), impl(c, "from_frame"), impl(c, "__str__")
        if (i, f, s) == ("_SpecialCommand.__init__", "_SpecialCommand.from_frame", "_SpecialCommand.__str__"):
            return ".plain"
        if (i, f, s) == ("_ShortAddrSpecialCommand.__init__", "_ShortAddrSpecialCommand.from_frame",
                         "_ShortAddrSpecialCommand.__str__"):
            return ".shortAddr"
        if (i, f, s) == ("Initialise.__init__", "Initialise.from_frame", "Initialise.__str__") \
                and c.__module__ == "dali.gear.general":
            return ".initialise"
        return ".custom"

    def special_rec(c):
        return "⟨%s, %d, %s, %s⟩" % (lstr(short(c)), reg.code_of(c), lbool(reg.hasparam_of(c)), special_kind(c))

    special_items = ["(%d, %s)" % (op, special_rec(c)) for op, c in special_reg
                     if isinstance(op, int)]

    def gear_entry(c):
        return {"UnknownGearCommand": ".unknown", "_StandardCommand": ".standard", "DAPC": ".dapc",
                "_SpecialCommand": ".special"}.get(c.__name__ if c.__module__ == "dali.gear.general" else "",
                                                   ".custom " + lstr(short(c)))
    # DAPC / Unknown must still be implemented by the functions the model mirrors
    gear_entries = []
    for c in reg.gear_families()[0]:
        e = gear_entry(c)
        if e == ".dapc" and (impl(c, "__init__"), impl(c, "from_frame"), impl(c, "__str__")) != \
                ("DAPC.__init__", "DAPC.from_frame", "DAPC.__str__"):
            e = ".custom " + lstr(short(c))
        gear_entries.append(e)

    # ---- device commands -----------------------------------------------------------
    def dev_known(c, base):
        if (impl(c, "__init__") == base + ".__init__" and impl(c, "from_frame") == base + ".from_frame"
                and impl(c, "__str__") == base + ".__str__"):
            return True
        if any(n in c.__dict__ for n in ("__init__", "from_frame", "__str__")):
            return False
        return behaves(c, [(address.DeviceBroadcast(),), (address.DeviceShort(5),),
                           (address.DeviceBroadcast(), address.InstanceNumber(3)),
                           (address.DeviceShort(5), address.Device())])

    dev_items = ["(%d, ⟨%s, %d, %s⟩)" % (op, lstr(short(c)), op, lbool(dev_known(c, "_StandardDeviceCommand")))
                 for op, c in devstd_reg if isinstance(op, int)]
    inst_items = ["(%d, ⟨%s, %d, %s⟩)" % (op, lstr(short(c)), op, lbool(dev_known(c, "_StandardInstanceCommand")))
                  for op, c in devinst_reg if isinstance(op, int)]

    def devspecial_kind(c):
        i, f, s = impl(c, "__init__"), impl(c, "from_frame"), impl(c, "__str__")
        if c.__name__.startswith("_"):
            return ".abstractBase"
        for base, k in (("_SpecialDeviceCommand", ".zero"), ("_SpecialDeviceCommandOneParam", ".one"),
                        ("_SpecialDeviceCommandTwoParam", ".two")):
            if (i, f, s) == (base + ".__init__", base + ".from_frame", base + ".__str__"):
                return k
        if any(n in c.__dict__ for n in ("__init__", "from_frame", "__str__")):
            return ".custom"
        # implementing functions renamed / merged: classify by what the constructor takes
        for args, k in (((), ".zero"), ((0x5A,), ".one"), ((0x5A, 0xA5), ".two")):
            if behaves(c, [args]):
                return k
        return ".custom"

    def dev_entry(c):
        if c.__module__ == "dali.device.general":
            if c.__name__ == "UnknownDeviceCommand":
                return ".unknown"
            if c.__name__ == "_StandardDeviceCommand":
                return ".stdDevice"
            if c.__name__ == "_StandardInstanceCommand":
                return ".stdInstance"
        if issubclass(c, dg._SpecialDeviceCommand):
            a, i = reg.special_bytes_of(c)
            a = a if isinstance(a, int) else 999
            i = i if isinstance(i, int) else 999
            return ".special ⟨%s, %d, %d, %s⟩" % (lstr(short(c)), a, i, devspecial_kind(c))
        return ".custom " + lstr(short(c))
    dev_entries = [dev_entry(c) for c in reg.device_families()[0]]

    # ---- events --------------------------------------------------------------------------
    def event_kind(c):
        f = impl(c, "from_event_data")
        s = impl(c, "_set_event_data")
        i = impl(c, "__init__")
        if i != "_Event.__init__":
            return ".custom"
        if f == "_PushbuttonEvent.from_event_data" and s == "_Event._set_event_data":
            return ".pushbutton"
        if f == "OccupancyEvent.from_event_data" and s == "OccupancyEvent._set_event_data":
            return ".occupancy"
        if f == "LightEvent.from_event_data" and s == "LightEvent._set_event_data":
            return ".light"
        return ".custom"
    itype_items = ["(%d, ⟨%s, %s⟩)" % (t, lstr(short(c)), event_kind(c))
                   for t, cs in reg.instance_types()[0] for c in cs[:1]]
    push_items = ["(%d, ⟨%s, %s, %d⟩)" % (info, lstr(short(c)), lstr(c.__name__), info)
                  for info, cs in reg.pushbutton_events()[0] for c in cs[:1]]

    # ---- top level and addresses ---------------------------------------------------------------
    def top_entry(c):
        return {"_GearCommand": ".gear", "_DeviceCommand": ".device", "_Event": ".event"}.get(
            c.__name__, ".custom " + lstr(short(c)))
    fs_items = ["(%d, [%s])" % (n, ", ".join(top_entry(c) for c in subs))
                for n, subs in reg.frame_sizes()[0]]
    akind = {"GearAddress": ".gearAbstract", "DeviceAddress": ".deviceAbstract",
             "GearBroadcast": ".gearBroadcast", "DeviceBroadcast": ".deviceBroadcast",
             "GearBroadcastUnaddressed": ".gearUnaddressed", "DeviceBroadcastUnaddressed": ".deviceUnaddressed",
             "GearGroup": ".gearGroup", "DeviceGroup": ".deviceGroup", "GearShort": ".gearShort",
             "DeviceShort": ".deviceShort"}
    addr_items = [akind[c.__name__] for c in reg.address_kinds()[0] if c.__name__ in akind]
    unknown_addr = [c.__name__ for c in reg.address_kinds()[0] if c.__name__ not in akind]

    # ---- class rows (C03) -------------------------------------------------------------------------
    def resp_kind(r):
        if r is None:
            return ""
        names = [k.__name__ for k in r.__mro__]
        v = impl(r, "value")
        if "YesNoResponse" in names and v == "YesNoResponse.value":
            return "yesno"
        if "NumericResponseMask" in names and v == "NumericResponseMask.value":
            return "numericmask"
        if "NumericResponse" in names and v == "NumericResponse.value":
            return "numeric"
        if "BitmapResponse" in names:
            return "bitmap"
        if "EnumResponse" in names:
            return "enum"
        if v == "Response.value":
            return "generic"
        return "custom"

    def family(c):
        if issubclass(c, gg._StandardCommand):
            return "std"
        if issubclass(c, gg.DAPC):
            return "dapc"
        if issubclass(c, gg._SpecialCommand):
            return {".plain": "special", ".shortAddr": "shortSpecial", ".initialise": "initialise"}.get(
                special_kind(c), "custom")
        if issubclass(c, gg.UnknownGearCommand):
            return "unknownGear"
        if issubclass(c, dg._StandardDeviceCommand):
            return "devStd"
        if issubclass(c, dg._StandardInstanceCommand):
            return "devInst"
        if issubclass(c, dg._SpecialDeviceCommand):
            return {".zero": "devSpecial0", ".one": "devSpecial1", ".two": "devSpecial2"}.get(
                devspecial_kind(c), "custom")
        if issubclass(c, dg.UnknownDeviceCommand):
            return "unknownDevice"
        if issubclass(c, dg._Event):
            return "event"
        return "custom"

    rows = []
    for c in sorted(reg.all_commands()[0], key=short):
        fam = family(c)
        code = reg.code_of(c)
        code = code if isinstance(code, int) else 0
        sa, si = reg.special_bytes_of(c) if fam.startswith("devSpecial") else (None, None)
        ab = sa if isinstance(sa, int) else 0
        ib = si if isinstance(si, int) else 0
        r = c.response
        rows.append("⟨%s, %d, %s, %d, %d, %d, %s, %d, %s, %s, %s, %s, %s, %s, %s, %s⟩" % (
            lstr(short(c)), reg.framesize_of(c), lstr(fam), code, ab, ib,
            lbool(bool(reg.hasparam_of(c))), c.devicetype if isinstance(c.devicetype, int) else 999,
            lbool(bool(c.sendtwice)), lstr(r.__name__ if r else ""), lstr(resp_kind(r)),
            lbool(bool(c.uses_dtr0)), lbool(bool(c.uses_dtr1)), lbool(bool(c.uses_dtr2)),
            lbool(bool(c.appctrl)), lbool(bool(c.inputdev))))

    src = ["import DaliVerif.Model.CmdTypes", "set_option maxRecDepth 8192",
           "namespace DaliVerif.Gen", "open DaliVerif DaliVerif.Cmd", ""]
    src.append(chunked("stdOpcodes", "(Nat × Nat) × StdClass", std_items))
    src.append(chunked("specialOpcodes", "Nat × SpecialClass", special_items))
    src.append(chunked("devOpcodes", "Nat × DevClass", dev_items))
    src.append(chunked("instOpcodes", "Nat × DevClass", inst_items))
    src.append(chunked("devCommands", "DevEntry", dev_entries))
    src.append(chunked("classRows", "ClassRow", rows, n=24))
    src.append("""
def tables : Tables where
  framesizes := [%s]
  gearCommands := [%s]
  stdOpcodes := stdOpcodes
  specialOpcodes := specialOpcodes
  devCommands := devCommands
  devOpcodes := devOpcodes
  instOpcodes := instOpcodes
  instanceTypes := [%s]
  pushEvents := [%s]
  addrOrder := [%s]

/-- registered address classes the model does not know -/
def unknownAddrClasses : List String := [%s]
""" % (", ".join(fs_items), ", ".join(gear_entries), ", ".join(itype_items), ", ".join(push_items),
       ", ".join(addr_items), ", ".join(lstr(x) for x in unknown_addr)))
    src.append("end DaliVerif.Gen\n")
    summary = {"classes": len(rows), "stdOpcodes": len(std_items), "specialOpcodes": len(special_items),
               "devOpcodes": len(dev_items), "instOpcodes": len(inst_items),
               "devCommands": len(dev_entries), "instanceTypes": len(itype_items),
               "pushEvents": len(push_items),
               "registries_read_by": {"std": how_std, "special": how_special, "devStd": how_devstd,
                                      "devInst": how_devinst}}
    return "\n".join(src), summary
