"""Source translator plugin: the event constructor `_Event.__init__` -> lean/DaliVerif/Gen/SrcEvent.lean

The constructor is RUN on symbolic integers once per addressing scheme of part 103 Table 3 (which keyword
arguments are given selects the scheme), with the class's event-information code and instance type made
symbolic, for the classes that use `_Event.__init__` unchanged: the push-button events (no event data) and the
light-sensor event (10-bit illuminance written over the information field).  Every such class is traced and
must yield the family's tree.  `Tie/Event.lean` proves the trees equal to the model's `newFrame` +
`eventSrcToFrame` (+ the data write) for every field value."""
from common import exc_name  # noqa: E402
import random

import symtrace as st

NAME = "SrcEvent"

SCHEMES = [("device", ["short_address"]), ("deviceInstance", ["short_address", "instance_number"]),
           ("deviceGroup", ["device_group"]), ("instanceGroup", ["instance_group"]), ("inst", ["instance_number"])]


def _mk(cls, kws, with_data):
    def call(a):
        o = object.__new__(cls)
        o._event_info = a["info"]
        o._instance_type = a["itype"]
        kw = {k: a[k] for k in kws}
        if with_data:
            kw["data"] = a["data"]
        cls.__init__(o, **kw)
        return o.frame.as_integer
    return call


def _real(cls, kws, with_data, env):
    kw = {k: env[k] for k in kws}
    if with_data:
        kw["data"] = env["data"]
    return cls(**kw).frame.as_integer


def generate(repo):
    import dali.device  # noqa
    from dali.device import general as dg, pushbutton, light, occupancy
    rng = random.Random(20261002)

    def walk(c):
        for s in c.__subclasses__():
            yield s
            yield from walk(s)
    plain = [c for c in walk(dg._Event) if c.__init__ is dg._Event.__init__
             and c._set_event_data is dg._Event._set_event_data and isinstance(getattr(c, "_event_info", None), int)
             and isinstance(getattr(c, "_instance_type", None), int)]
    lights = [c for c in walk(dg._Event) if c.__init__ is dg._Event.__init__
              and c._set_event_data is light.LightEvent._set_event_data]
    occs = [c for c in walk(dg._Event) if c.__init__ is dg._Event.__init__
            and c._set_event_data is occupancy.OccupancyEvent._set_event_data]
    if not plain or not lights or not occs:
        raise RuntimeError("event families not found")
    out = ["import DaliVerif.Model.PyInt", "set_option linter.unusedVariables false",
           "namespace DaliVerif.Gen.SrcEvent", ""]
    summ = {}
    for fam, classes, with_data in (("ev", plain, False), ("evLight", lights, True), ("evOcc", occs, True)):
        for sname, kws in SCHEMES:
            params = ["info", "itype"] + kws + (["data"] if with_data else [])
            rep = st.Entry("%s_%s" % (fam, sname), params, "Int", _mk(classes[0], kws, with_data),
                           "%s(%s%s) : contents of .frame" % ({"ev": "_Event.__init__", "evLight": "LightEvent", "evOcc": "OccupancyEvent"}[fam],
                                                             ", ".join(kws), ", data" if with_data else "")).trace()
            for c in classes[1:]:
                t = st.Entry(rep.name, params, "Int", _mk(c, kws, with_data)).trace()
                if t.tree != rep.tree:
                    raise RuntimeError("class %s does not follow the paths of its family" % c.__name__)
            # validate against the real constructors (the class's own constants)
            for c in classes:
                for _ in range(40):
                    env = {"info": c._event_info, "itype": c._instance_type}
                    for k in kws:
                        env[k] = rng.choice([-1, 0, 1, 31, 32, 63, 64, rng.randrange(64)])
                    if with_data:
                        env["data"] = rng.choice([-1, 0, 1, 15, 16, 1023, 1024, rng.randrange(16), rng.randrange(1024)])
                    try:
                        want = ('ok', _real(c, kws, with_data, env))
                    except Exception as e:  # noqa
                        want = ('raise', exc_name(e))
                    if with_data and want[0] == 'ok':
                        # LightEvent stores the data as its event information: the frame starts from the class's code
                        pass
                    got = rep.eval_tree(env)
                    if got != want:
                        raise RuntimeError("trace of %s disagrees with %s: %r %r %r" % (rep.name, c.__name__, env, got, want))
            out.append(rep.lean())
            summ[rep.name] = rep.npaths
        out.append("def %sClasses : List String := [%s]\n" % (fam, ", ".join('"%s"' % c.__name__ for c in classes)))
    out.append("end DaliVerif.Gen.SrcEvent")
    return "\n".join(out) + "\n", {"paths": summ, "plain": len(plain), "light": len(lights), "occupancy": len(occs)}
