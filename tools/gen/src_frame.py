"""Source translator plugin: `dali/frame.py` -> lean/DaliVerif/Gen/SrcFrame.lean

Every integer-only, loop-free operation of `Frame` is RUN on symbolic integers (tools/symtrace.py) and each of
its paths is printed as a branch of a Lean definition over `Int`.  `Proofs/SrcFrameTie.lean` then proves that
these definitions equal the hand-written model (`Model/Frame.lean`) for every frame and every integer operand,
which ties the model to the source by translation rather than by sampling.  The trace is also validated against
the real code on concrete points here (a mismatch makes the plugin fail, leaving an empty module)."""
import random

import symtrace as st

NAME = "SrcFrame"


def entries():
    from dali.frame import Frame

    def mk(bits, data):
        f = Frame.__new__(Frame)
        f._bits, f._data, f._error = bits, data, False
        return f

    def st_(f):
        return (f._bits, f._data)

    def setslice(a):
        f = mk(a["bits"], a["data"])
        f[a["a"]:a["b"]] = a["v"]
        return st_(f)

    def setbit(a):
        f = mk(a["bits"], a["data"])
        f[a["k"]] = a["v"]
        return st_(f)

    def add(a):
        return st_(mk(a["b1"], a["d1"]) + mk(a["b2"], a["d2"]))

    def E(*a):
        return st.Entry(*a, wide=("data", "d1", "d2", "v"))
    return [
        E("init", ["bits", "data"], "Int × Int", lambda a: st_(Frame(a["bits"], a["data"])),
          "Frame(bits, data) with integer arguments: the resulting (_bits, _data)"),
        E("getSlice", ["bits", "data", "a", "b"], "Int",
          lambda a: mk(a["bits"], a["data"])[a["a"]:a["b"]], "frame[a:b]"),
        E("getBit", ["bits", "data", "k"], "Bool", lambda a: mk(a["bits"], a["data"])[a["k"]], "frame[k]"),
        E("setSlice", ["bits", "data", "a", "b", "v"], "Int × Int", setslice,
          "frame[a:b] = v with an integer v: (_bits, _data) afterwards"),
        E("setBit", ["bits", "data", "k", "v"], "Int × Int", setbit,
          "frame[k] = v with an integer v (its truth value is used): (_bits, _data) afterwards"),
        E("containsTrue", ["bits", "data"], "Bool", lambda a: True in mk(a["bits"], a["data"]), "True in frame"),
        E("containsFalse", ["bits", "data"], "Bool", lambda a: False in mk(a["bits"], a["data"]),
          "False in frame"),
        E("add", ["b1", "d1", "b2", "d2"], "Int × Int", add, "frame + frame: (_bits, _data) of the sum"),
        E("eq", ["b1", "d1", "b2", "d2"], "Bool", lambda a: mk(a["b1"], a["d1"]) == mk(a["b2"], a["d2"]),
          "frame == frame"),
        E("ne", ["b1", "d1", "b2", "d2"], "Bool", lambda a: mk(a["b1"], a["d1"]) != mk(a["b2"], a["d2"]),
          "frame != frame"),
    ]


def generate(repo):
    rng = random.Random(20260929)
    out = ["import DaliVerif.Model.PyInt", "set_option linter.unusedVariables false",
           "namespace DaliVerif.Gen.SrcFrame", ""]
    summ = {}
    for e in entries():
        e.trace()
        bad = e.validate(rng)
        if bad:
            raise RuntimeError("trace of %s disagrees with the code it was traced from: %r" % (e.name, bad[:2]))
        out.append(e.lean())
        summ[e.name] = e.npaths
    out.append("end DaliVerif.Gen.SrcFrame")
    return "\n".join(out) + "\n", {"paths": summ}
