"""Source translator plugin: the constructors that assemble their frame from a byte tuple
-> lean/DaliVerif/Gen/SrcSpecial.lean

`_SpecialCommand.__init__` (IEC 62386-102 Table 16 and the part-2xx special commands: 16-bit, address byte =
the command's own code, second byte = the parameter or 0) hands `ForwardFrame(16, (self._cmdval, self.param))` a
TUPLE, which `Frame.__init__` turns into a number with `int.from_bytes(data, 'big')`.  `int.from_bytes` is C code
that asks each element for `__index__`, which the tracer refuses; so, for the duration of a trace, the name `int`
in `dali/frame.py` is bound to `_IntShim`, which is `int` for `isinstance` and for calls and whose `from_bytes`
spells out what CPython does for a sequence of integers, big-endian: every element must lie in range(0, 256)
(ValueError otherwise, checked left to right) and the result is ((0 << 8 | b0) << 8 | b1) ….  That reading of
`int.from_bytes` is an addition to the tracer's vocabulary (DESIGN II.8, trusted base); it is compared with the
real `int.from_bytes` on a grid here, and every traced tree is validated against the real constructors.
The class's code attribute is symbolic; EVERY class of the family is traced and must yield the family's tree."""
from common import exc_name  # noqa: E402
import builtins
import random

import symtrace as st

NAME = "SrcSpecial"


class _ShimMeta(type):
    def __instancecheck__(cls, x):
        return isinstance(x, builtins.int)

    def __call__(cls, *a, **k):
        return builtins.int(*a, **k)


class _IntShim(metaclass=_ShimMeta):
    @staticmethod
    def from_bytes(data, byteorder="big", *, signed=False):
        if byteorder != "big" or signed:
            raise st.Untraceable("int.from_bytes other than unsigned big-endian")
        if isinstance(data, (bytes, bytearray)):
            return builtins.int.from_bytes(data, byteorder)
        acc = 0
        for b in data:
            if not isinstance(b, builtins.int):
                raise TypeError("'%s' object cannot be interpreted as an integer" % type(b).__name__)
            if b < 0 or b > 255:
                raise ValueError("bytes must be in range(0, 256)")
            acc = (acc << 8) | b
        return acc


class _patched:
    def __enter__(self):
        import dali.frame as fr
        self.fr = fr
        self.had = "int" in fr.__dict__
        self.old = fr.__dict__.get("int")
        fr.int = _IntShim

    def __exit__(self, *a):
        if self.had:
            self.fr.int = self.old
        else:
            del self.fr.int


class _str_compare:
    """`address == "MASK"` on an integer: CPython's `int.__eq__` returns NotImplemented for a `str` operand and the
    comparison is False (True for `!=`); the tracer's `SInt` would refuse the operand, so for the duration of a
    trace it answers a `str` operand the way `int` does (anything else goes to the tracer as before)."""
    def __enter__(self):
        self.eq, self.ne = st.SInt.__eq__, st.SInt.__ne__
        eq, ne = self.eq, self.ne
        st.SInt.__eq__ = lambda a, b: NotImplemented if isinstance(b, str) else eq(a, b)
        st.SInt.__ne__ = lambda a, b: NotImplemented if isinstance(b, str) else ne(a, b)

    def __exit__(self, *a):
        st.SInt.__eq__, st.SInt.__ne__ = self.eq, self.ne


def _shim_selftest(rng):
    for _ in range(3000):
        n = rng.randrange(0, 5)
        t = tuple(rng.choice([-1, 0, 1, 127, 128, 255, 256, rng.randrange(-3, 300)]) for _ in range(n))
        try:
            want = ('ok', builtins.int.from_bytes(t, 'big'))
        except Exception as e:  # noqa
            want = ('raise', type(e).__name__)
        try:
            got = ('ok', _IntShim.from_bytes(t, 'big'))
        except Exception as e:  # noqa
            got = ('raise', type(e).__name__)
        if got != want:
            raise RuntimeError("int.from_bytes shim disagrees with CPython on %r: %r %r" % (t, got, want))


def generate(repo):
    import dali.gear  # noqa
    from dali.gear import general as gg
    for m in ("colour", "led", "emergency", "converter", "incandescent"):
        __import__("dali.gear." + m)
    rng = random.Random(20261003)
    _shim_selftest(rng)

    def walk(c):
        for s in c.__subclasses__():
            yield s
            yield from walk(s)

    def members(pred):
        out = []
        for c in walk(gg._SpecialCommand):
            if c not in out and not c.__name__.startswith("_") and c.__init__ is gg._SpecialCommand.__init__ \
                    and isinstance(c._cmdval, int) and pred(c):
                out.append(c)
        return out

    def qn(c):
        return c.__module__.replace("dali.", "") + "." + c.__name__

    def mk(cls, with_param):
        def call(a):
            o = object.__new__(cls)
            o._cmdval = a["cmdval"]
            with _patched():
                cls.__init__(o, *((a["param"],) if with_param else ()))
            return o.frame.as_integer
        return call

    out = ["import DaliVerif.Model.PyInt", "set_option linter.unusedVariables false",
           "namespace DaliVerif.Gen.SrcSpecial", ""]
    summ = {}
    for name, pred, with_param, doc in (
            ("specialNoParam", lambda c: not c._hasparam, False,
             "_SpecialCommand.__init__() of a class without parameter: contents of .frame"),
            ("specialParam", lambda c: bool(c._hasparam), True,
             "_SpecialCommand.__init__(param) of a class with the 8-bit parameter")):
        classes = members(pred)
        if not classes:
            raise RuntimeError("family %s is empty" % name)
        params = ["cmdval"] + (["param"] if with_param else [])
        rep = st.Entry(name, params, "Int", mk(classes[0], with_param), doc).trace()
        for c in classes[1:]:
            t = st.Entry(name, params, "Int", mk(c, with_param), doc).trace()
            if t.tree != rep.tree:
                raise RuntimeError("class %s does not follow the paths of its family %s" % (qn(c), name))
        # the traced tree against the real constructors (unpatched library, the class's own code)
        for c in classes:
            for p in ([None] if not with_param else [-1, 0, 1, 127, 128, 254, 255, 256, rng.randrange(256), 1 << 20]):
                env = {"cmdval": c._cmdval}
                if with_param:
                    env["param"] = p
                try:
                    want = ('ok', (c(p) if with_param else c()).frame.as_integer)
                except Exception as e:  # noqa
                    want = ('raise', exc_name(e))
                got = rep.eval_tree(env)
                if got != want:
                    raise RuntimeError("trace of %s disagrees with %s(%r): %r %r" % (name, qn(c), p, got, want))
        out.append(rep.lean())
        out.append("/-- the classes whose constructor is this function (each traced, all with this tree) -/")
        out.append("def %sClasses : List String := [%s]\n" % (name, ", ".join('"%s"' % qn(c) for c in classes)))
        out.append("/-- the same classes by (device type, code attribute) -/")
        out.append("def %sKeys : List (Nat × Nat) := [%s]\n" % (name, ", ".join(
            "(%d, %d)" % (getattr(c, "devicetype", 0), c._cmdval) for c in classes)))
        summ[name] = {"paths": rep.npaths, "classes": len(classes)}
    # --- the two constructor families that compute the second byte from an address -----------------------------
    def short_members():
        return [c for c in walk(gg._SpecialCommand) if not c.__name__.startswith("_")
                and c.__init__ is gg._ShortAddrSpecialCommand.__init__ and isinstance(c._cmdval, int)]

    def mk_short(cls, mask):
        def call(a):
            o = object.__new__(cls)
            o._cmdval = a["cmdval"]
            with _patched(), _str_compare():
                cls.__init__(o, "MASK" if mask else a["address"])
            return o.frame.as_integer
        return call

    def mk_init(cls, broadcast, with_addr):
        def call(a):
            o = object.__new__(cls)
            o._cmdval = a["cmdval"]
            with _patched():
                cls.__init__(o, broadcast=broadcast, address=a["address"] if with_addr else None)
            return o.frame.as_integer
        return call

    shorts = short_members()
    inits = [c for c in [gg.Initialise] + list(walk(gg.Initialise)) if c.__init__ is gg.Initialise.__init__]
    if not shorts or not inits:
        raise RuntimeError("short-address special command families not found")
    ADDRS = [-1, 0, 1, 31, 62, 63, 64, 127, 128, 255, 1 << 20]
    fams = [
        ("shortSpecial", shorts, ["cmdval", "address"], lambda c: mk_short(c, False),
         lambda c, e: c(e["address"]), "_ShortAddrSpecialCommand.__init__(address) with an integer address"),
        ("shortSpecialMask", shorts, ["cmdval"], lambda c: mk_short(c, True),
         lambda c, e: c("MASK"), "_ShortAddrSpecialCommand.__init__('MASK')"),
        ("initialiseAddr", inits, ["cmdval", "address"], lambda c: mk_init(c, False, True),
         lambda c, e: c(address=e["address"]), "Initialise.__init__(broadcast=False, address=<int>)"),
        ("initialiseBroadcastAddr", inits, ["cmdval", "address"], lambda c: mk_init(c, True, True),
         lambda c, e: c(broadcast=True, address=e["address"]), "Initialise.__init__(broadcast=True, address=<int>)"),
        ("initialiseBroadcast", inits, ["cmdval"], lambda c: mk_init(c, True, False),
         lambda c, e: c(broadcast=True), "Initialise.__init__(broadcast=True)"),
        ("initialiseUnaddressed", inits, ["cmdval"], lambda c: mk_init(c, False, False),
         lambda c, e: c(), "Initialise.__init__() : gear without a short address"),
    ]
    for name, classes, params, mk_, real, doc in fams:
        rep = st.Entry(name, params, "Int", mk_(classes[0]), doc).trace()
        for c in classes[1:]:
            if st.Entry(name, params, "Int", mk_(c), doc).trace().tree != rep.tree:
                raise RuntimeError("class %s does not follow the paths of its family %s" % (qn(c), name))
        for c in classes:
            for a in (ADDRS if "address" in params else [None]):
                env = {"cmdval": c._cmdval}
                if a is not None:
                    env["address"] = a
                try:
                    want = ('ok', real(c, env).frame.as_integer)
                except Exception as e:  # noqa
                    want = ('raise', exc_name(e))
                got = rep.eval_tree(env)
                if got != want:
                    raise RuntimeError("trace of %s disagrees with %s(%r): %r %r" % (name, qn(c), a, got, want))
        out.append(rep.lean())
        summ[name] = {"paths": rep.npaths, "classes": len(classes)}
    out.append("def shortSpecialKeys : List (Nat × Nat) := [%s]\n" % ", ".join("(0, %d)" % c._cmdval for c in shorts))
    out.append("def initialiseKeys : List (Nat × Nat) := [%s]\n" % ", ".join("(0, %d)" % c._cmdval for c in inits))
    # --- the 24-bit special commands of part 103: three bytes (address byte, instance byte, opcode byte) -------
    from dali.device import general as dg
    for m in ("pushbutton", "occupancy", "light"):
        __import__("dali.device." + m)

    def dev_members(base):
        return [c for c in walk(dg._SpecialDeviceCommand) if not c.__name__.startswith("_")
                and c.__init__ is base.__init__ and isinstance(c._addr, int)
                and (isinstance(c._instance, int) or base is dg._SpecialDeviceCommandTwoParam)]

    def mk_dev(cls, argnames):
        def call(a):
            o = object.__new__(cls)
            o._addr = a["addr"]
            if "inst" in a:
                o._instance = a["inst"]
            with _patched():
                cls.__init__(o, *[a[k] for k in argnames])
            return o.frame.as_integer
        return call

    BYTES = [-1, 0, 1, 127, 128, 255, 256, 1 << 20]
    for name, base, argnames, doc in (
            ("devSpecial0", dg._SpecialDeviceCommand, [], "_SpecialDeviceCommand.__init__()"),
            ("devSpecial1", dg._SpecialDeviceCommandOneParam, ["param"], "_SpecialDeviceCommandOneParam.__init__(param)"),
            ("devSpecial2", dg._SpecialDeviceCommandTwoParam, ["a", "b"], "_SpecialDeviceCommandTwoParam.__init__(a, b)")):
        classes = dev_members(base)
        if not classes:
            raise RuntimeError("family %s is empty" % name)
        params = ["addr"] + (["inst"] if len(argnames) < 2 else []) + argnames
        rep = st.Entry(name, params, "Int", mk_dev(classes[0], argnames), doc).trace()
        for c in classes[1:]:
            if st.Entry(name, params, "Int", mk_dev(c, argnames), doc).trace().tree != rep.tree:
                raise RuntimeError("class %s does not follow the paths of its family %s" % (qn(c), name))
        for c in classes:
            for _ in range(12):
                args = [rng.choice(BYTES + [rng.randrange(256)]) for _ in argnames]
                env = dict(zip(argnames, args), addr=c._addr)
                if "inst" in params:
                    env["inst"] = c._instance
                try:
                    want = ('ok', c(*args).frame.as_integer)
                except Exception as e:  # noqa
                    want = ('raise', exc_name(e))
                got = rep.eval_tree(env)
                if got != want:
                    raise RuntimeError("trace of %s disagrees with %s%r: %r %r" % (name, qn(c), tuple(args), got, want))
        out.append(rep.lean())
        out.append("def %sKeys : List (Nat × Nat) := [%s]\n" % (name, ", ".join(
            "(%d, %d)" % (c._addr, c._instance or 0) for c in classes)))
        summ[name] = {"paths": rep.npaths, "classes": len(classes)}
    out.append("end DaliVerif.Gen.SrcSpecial")
    return "\n".join(out) + "\n", summ
