"""Translator plugin for C11: the declared memory map and everything the pure
value interpretation reads.

Banks are the `MemoryBank` instances bound to module-level names of the
`dali.memory.*` modules (key = "<module>.<NAME>", e.g. `info.BANK_0_legacy`).
For every value registered in a bank (`bank.values`, which includes the
bank's own `LastAddress` and `LockByte`): its locations (address, type,
default, reset), which *function object* implements `raw_to_value`,
`is_valid`, `check_raw`, `value_to_raw`, `from_list` (module + qualified
name mapped to the model's constructors; unknown -> `.custom "<qualname>"`),
and the class data those functions read (`mask_supported`, `tmask_supported`,
`signed`, `min_value`, `max_value`, `scaling_factor`, `offset`,
`mask_length_adjust`, the `mask` / `tmask` byte patterns computed by the
metaclass).

-> lean/DaliVerif/Gen/Memory.lean"""
import importlib
import pkgutil
from decimal import Decimal

NAME = "Memory"

R2V = {
    "dali.memory.location:MemoryValue.raw_to_value": ".plain",
    "dali.memory.location:NumericValue.raw_to_value": ".numeric",
    "dali.memory.location:FixedScaleNumericValue.raw_to_value": ".fixedScale",
    "dali.memory.energy:ScaledNumericValue.raw_to_value": ".scaled",
    "dali.memory.location:StringValue.raw_to_value": ".string",
    "dali.memory.location:BinaryValue.raw_to_value": ".binary",
    "dali.memory.location:TemperatureValue.raw_to_value": ".temperature",
    "dali.memory.location:VersionNumberValue.raw_to_value": ".version",
    "dali.memory.oem:CCT.raw_to_value": ".cct",
    "dali.memory.oem:LightDistributionType.raw_to_value": ".lightDist",
}
VALID = {
    "dali.memory.location:MemoryValue.is_valid": ".always",
    "dali.memory.location:NumericValue.is_valid": ".numeric",
    "dali.memory.location:BinaryValue.is_valid": ".binary",
    "dali.memory.oem:CCT.is_valid": ".cct",
}
CHECK = {
    "dali.memory.location:MemoryValue.check_raw": ".base",
    "dali.memory.energy:ScaledNumericValue.check_raw": ".scaled",
}
V2R = {
    "dali.memory.location:MemoryValue.value_to_raw": ".base",
    "dali.memory.location:NumericValue.value_to_raw": ".numeric",
    "dali.memory.location:StringValue.value_to_raw": ".string",
}
FROMLIST = {"dali.memory.location:MemoryValue.from_list": True}
MEMTYPE = {"ROM": ".ROM", "RAM_RO": ".RAM_RO", "RAM_RW": ".RAM_RW", "NVM_RO": ".NVM_RO",
           "NVM_RW": ".NVM_RW", "NVM_RW_L": ".NVM_RW_L", "NVM_RW_P": ".NVM_RW_P"}


def lstr(s):
    return '"' + s.replace("\\", "\\\\").replace('"', '\\"').replace("\n", "\\n") + '"'


def lbool(b):
    return "true" if b else "false"


def lopt(v, f=str):
    return "none" if v is None else "(some %s)" % f(v)


def lint(i):
    return str(i) if i >= 0 else "(%d)" % i


def _qual(cls, name):
    for k in cls.__mro__:
        if k is object:
            continue
        if name in k.__dict__:
            obj = k.__dict__[name]
            f = obj.__func__ if isinstance(obj, (classmethod, staticmethod)) else obj
            kind = "classmethod" if isinstance(obj, classmethod) else type(obj).__name__
            return "%s:%s" % (getattr(f, "__module__", "?"), getattr(f, "__qualname__", "?")), kind
    return "absent", "absent"


def _impl(cls, name, table):
    q, kind = _qual(cls, name)
    if kind != "classmethod":
        return ".custom %s" % lstr(q + " (" + kind + ")")
    if q in table:
        return table[q]
    return ".custom %s" % lstr(q)


def modules():
    import dali.memory
    mods = []
    for m in pkgutil.iter_modules(dali.memory.__path__):
        mods.append(importlib.import_module("dali.memory." + m.name))
    return mods


def banks():
    """[(key, MemoryBank)] in module order, then name order"""
    from dali.memory.location import MemoryBank
    res = []
    seen = set()
    for mod in sorted(modules(), key=lambda m: m.__name__):
        for n in sorted(vars(mod)):
            b = getattr(mod, n)
            if isinstance(b, MemoryBank) and id(b) not in seen and b.__class__.__module__ and \
                    n.isupper() is not None:
                # a bank imported into another module keeps its first (defining) name
                seen.add(id(b))
                res.append(("%s.%s" % (mod.__name__.split(".")[-1], n), b))
    return res


def decimal_parts(x):
    """(mantissa, exponent, is_decimal) of an int / Decimal scaling factor"""
    if isinstance(x, bool) or not isinstance(x, (int, Decimal)):
        return None
    if isinstance(x, int):
        return (x, 0, False)
    if not x.is_finite():
        return None
    sign, digits, exp = x.as_tuple()
    m = int("".join(str(d) for d in digits) or "0")
    return (-m if sign else m, exp, True)


def describe(cls, bank_key):
    from dali.memory.location import MemoryType
    d = {"name": cls.__name__, "module": cls.__module__, "bank": bank_key}
    locs = []
    for l in cls.locations:
        t = l.type_
        locs.append((int(l.address), MEMTYPE.get(t.name, None) if isinstance(t, MemoryType) else None,
                     l.default, l.reset))
    d["locs"] = locs
    d["r2v"] = _impl(cls, "raw_to_value", R2V)
    d["valid"] = _impl(cls, "is_valid", VALID)
    d["check"] = _impl(cls, "check_raw", CHECK)
    d["v2r"] = _impl(cls, "value_to_raw", V2R)
    q, kind = _qual(cls, "from_list")
    d["fromListBase"] = (q in FROMLIST and kind == "classmethod")
    d["mask_supported"] = bool(cls.mask_supported)
    d["tmask_supported"] = bool(cls.tmask_supported)
    d["signed"] = bool(cls.signed)
    for a in ("min_value", "max_value"):
        v = getattr(cls, a, None)
        if v is not None and (isinstance(v, bool) or not isinstance(v, int)):
            d["valid"] = ".custom %s" % lstr("%s is not an int: %r" % (a, v))
            v = None
        d[a] = v
    sf = getattr(cls, "scaling_factor", 1)
    parts = decimal_parts(sf)
    if parts is None:
        d["r2v"] = ".custom %s" % lstr("scaling_factor %r" % (sf,))
        parts = (1, 0, False)
    d["scale"] = parts
    off = getattr(cls, "offset", 0)
    if isinstance(off, bool) or not isinstance(off, int):
        d["r2v"] = ".custom %s" % lstr("offset %r" % (off,))
        off = 0
    d["offset"] = off
    d["mask_length_adjust"] = int(getattr(cls, "mask_length_adjust", 0))
    d["mask"] = list(cls.mask) if d["mask_supported"] and isinstance(getattr(cls, "mask", None), bytes) else None
    d["tmask"] = list(cls.tmask) if d["tmask_supported"] and isinstance(getattr(cls, "tmask", None), bytes) else None
    d["lock"] = bool(getattr(cls, "lock", False))
    d["latch"] = bool(getattr(cls, "latch", False))
    return d


def table():
    """([(bank_key, bank)], [(value class, description)])"""
    bs = banks()
    vals = []
    for key, b in bs:
        for cls in b.values:
            vals.append((cls, describe(cls, key)))
    return bs, vals


def generate(repo):
    bs, vals = table()
    brow = []
    for key, b in bs:
        la = b.LastAddress.locations[0].default
        brow.append("  { key := %s, address := %d, lastAddress := %s, hasLock := %s, hasLatch := %s,\n"
                    "    occupied := %s }" % (
                        lstr(key), b.address, lopt(la), lbool(b.has_lock), lbool(b.has_latch),
                        "[" + ", ".join("(%d, %s)" % (a, lstr(e.memory_value.__name__))
                                        for a, e in sorted(b.locations.items()) if e) + "]"))
    vrow = []
    custom = []
    for cls, d in vals:
        for k in ("r2v", "valid", "check", "v2r"):
            if d[k].startswith(".custom"):
                custom.append("%s.%s" % (d["name"], k))
        locs = "[" + ", ".join(
            "{ addr := %d, type := %s, default := %s, reset := %s }" % (
                a, t if t else ".unknown", lopt(dflt), lopt(rst)) for a, t, dflt, rst in d["locs"]) + "]"
        vrow.append(
            "  { name := %s, module := %s, bank := %s,\n"
            "    locs := %s,\n"
            "    r2v := %s, valid := %s, check := %s, v2r := %s, fromListBase := %s,\n"
            "    maskSupported := %s, tmaskSupported := %s, signed := %s, minValue := %s, maxValue := %s,\n"
            "    scaleMant := %s, scaleExp := %s, scaleIsDecimal := %s, offset := %s, maskLengthAdjust := %s,\n"
            "    mask := %s, tmask := %s }" % (
                lstr(d["name"]), lstr(d["module"]), lstr(d["bank"]), locs,
                d["r2v"], d["valid"], d["check"], d["v2r"], lbool(d["fromListBase"]),
                lbool(d["mask_supported"]), lbool(d["tmask_supported"]), lbool(d["signed"]),
                lopt(d["min_value"], lint), lopt(d["max_value"], lint),
                lint(d["scale"][0]), lint(d["scale"][1]), lbool(d["scale"][2]), lint(d["offset"]),
                lint(d["mask_length_adjust"]),
                lopt(d["mask"], lambda l: "[" + ", ".join(map(str, l)) + "]"),
                lopt(d["tmask"], lambda l: "[" + ", ".join(map(str, l)) + "]")))
    src = ("import DaliVerif.Model.MemValueTypes\n"
           "namespace DaliVerif.Gen\nopen DaliVerif.Mem\n\n"
           "/-- the memory banks declared by dali.memory.* (%d) -/\n"
           "def memBanks : List Bank := [\n%s\n]\n\n"
           "/-- every value registered in those banks (%d) -/\n"
           "def memValues : List MemValue := [\n%s\n]\n\n"
           "end DaliVerif.Gen\n" % (len(brow), ",\n".join(brow), len(vrow), ",\n".join(vrow)))
    return src, {"banks": len(brow), "values": len(vrow), "custom": custom}
