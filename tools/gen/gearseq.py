"""Translator plugin for the gear sequences (C14, also used by C07/C08's model):
the DT8 enums the colour sequences validate against, and — for every command class the
modelled sequences yield — the frame of a canonical instance, its devicetype, sendtwice
flag and response class, read from the working tree."""
NAME = "GearSeqEnums"


def generate(repo):
    from dali.gear import colour, general
    from dali import address

    def enum_list(e):
        return "[" + ", ".join('("%s", %d)' % (m.name, int(m.value)) for m in e) + "]"

    s0 = address.GearShort(0)
    samples = [
        general.DTR0(0), general.DTR1(0), general.DTR2(0), general.EnableDeviceType(0),
        general.Terminate(), general.Initialise(broadcast=True), general.Randomise(), general.Compare(),
        general.Withdraw(), general.SetSearchAddrH(0), general.SetSearchAddrM(0), general.SetSearchAddrL(0),
        general.ProgramShortAddress(0), general.VerifyShortAddress(0),
        general.SetShortAddress(s0), general.QueryControlGearPresent(s0), general.QueryDeviceType(s0),
        general.QueryNextDeviceType(s0), general.QueryGroupsZeroToSeven(s0),
        general.QueryGroupsEightToFifteen(s0), general.AddToGroup(s0, 0), general.RemoveFromGroup(s0, 0),
        general.QueryActualLevel(s0), general.QueryContentDTR0(s0),
        colour.SetTemporaryColourTemperature(s0), colour.Activate(s0),
        colour.StoreColourTemperatureTcLimit(s0), colour.QueryColourValue(s0),
    ]
    rows = []
    for c in samples:
        rows.append('("%s", %d, %d, %s, "%s")' % (
            type(c).__name__, c.frame.as_integer, c.devicetype, "true" if c.sendtwice else "false",
            c.response.__name__ if c.response else "-"))
    addr_rows = []
    for a in (address.GearShort(0), address.GearShort(63), address.GearGroup(0), address.GearGroup(15),
              address.GearBroadcast(), address.GearBroadcastUnaddressed()):
        addr_rows.append("%d" % general.QueryControlGearPresent(a).frame.as_integer)
    src = """namespace DaliVerif.Gen.GearSeqEnums

/-- `dali.gear.colour.QueryColourValueDTR` (name, value) -/
def queryColourValueDTR : List (String × Nat) := %s

/-- `dali.gear.colour.StoreColourTemperatureTcLimitDTR2` (name, value) -/
def tcLimitDTR2 : List (String × Nat) := %s

/-- (class name, frame of the canonical instance, devicetype, sendtwice, response class) -/
def cmdSamples : List (String × Nat × Nat × Bool × String) := [
  %s]

/-- frames of QueryControlGearPresent for Short 0, Short 63, Group 0, Group 15, Broadcast, BroadcastUnaddressed -/
def addrSamples : List Nat := [%s]

end DaliVerif.Gen.GearSeqEnums
""" % (enum_list(colour.QueryColourValueDTR), enum_list(colour.StoreColourTemperatureTcLimitDTR2),
       ",\n  ".join(rows), ", ".join(addr_rows))
    return src, {"selectors": len(list(colour.QueryColourValueDTR)), "commands": len(rows)}
