"""tools/benignrun.py [Cxx | Cxx-A …]  — run the property's check against each kept BEHAVIOUR-PRESERVING change
(benign/<id>/patch.diff) in a scratch worktree of /repo; the check must stay quiet (exit 0, no VIOLATION line).
--import: copy new ones from $BENIGN_SRC (default /tmp/benign_out)/Cxx/{A,B,C}/ first."""
import glob, json, os, shutil, subprocess, sys
VERIF = os.path.dirname(os.path.dirname(os.path.abspath(__file__)))
args = sys.argv[1:]
if args and args[0] == "--import":
    src = os.environ.get("BENIGN_SRC", "/tmp/benign_out")
    args = args[1:]
    for pid in args:
        for d in sorted(glob.glob("%s/%s/?" % (src, pid))):
            if os.path.exists(d + "/patch.diff") and os.path.getsize(d + "/patch.diff"):
                out = "%s/benign/%s-%s" % (VERIF, pid, os.path.basename(d))
                os.makedirs(out, exist_ok=True)
                for f in ("patch.diff", "equiv.py", "notes.md"):
                    if os.path.exists(d + "/" + f):
                        shutil.copy(d + "/" + f, out + "/" + f)
for d in sorted(glob.glob(VERIF + "/benign/*")):
    name = os.path.basename(d)
    pid = name.split("-")[0]
    if args and name not in args and pid not in args:
        continue
    wt = "/tmp/benwt_%d" % os.getpid()
    subprocess.run(["git", "-C", "/repo", "worktree", "add", "--detach", wt, "main"], capture_output=True)
    try:
        ap = subprocess.run(["git", "apply", d + "/patch.diff"], cwd=wt, capture_output=True, text=True)
        if ap.returncode:
            print(name, "DOES-NOT-APPLY", ap.stderr[:200]); continue
        t = subprocess.run(["/venv/bin/python", "-m", "pytest", "-q", "-p", "no:cacheprovider", "dali/tests"], cwd=wt,
                           capture_output=True, text=True)
        env = dict(os.environ, VERIF_REPO=wt, VERIF_SEED=os.environ.get("VERIF_SEED", "0"))
        c = subprocess.run([VERIF + "/check", pid], cwd=VERIF, env=env, capture_output=True, text=True)
        open(d + "/check_output.txt", "w").write(c.stdout[-6000:] + c.stderr[-2000:])
        viol = [l for l in c.stdout.splitlines() if "VIOLATION" in l]
        meta = {"property": pid, "suite_rc": t.returncode, "suite": t.stdout.strip().splitlines()[-1] if t.stdout.strip() else "",
                "check_rc": c.returncode, "quiet": c.returncode == 0 and not viol, "violation": viol[:1],
                "ran": ["git apply patch.diff in a scratch worktree of /repo main", "pytest dali/tests",
                        "VERIF_REPO=<worktree> ./check %s  (must exit 0)" % pid]}
        json.dump(meta, open(d + "/meta.json", "w"), indent=1)
        print(name, "suite_rc=%d" % t.returncode, "QUIET" if meta["quiet"] else "ALARM rc=%d %s" % (c.returncode, viol[:1]), flush=True)
    finally:
        subprocess.run(["git", "-C", "/repo", "worktree", "remove", "--force", wt], capture_output=True)
