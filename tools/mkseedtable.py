"""Regenerate the table of seeded changes (DESIGN.md §II.7) from seeded/*/meta.json + notes.md."""
import glob, json, os, re
VERIF = os.path.dirname(os.path.dirname(os.path.abspath(__file__)))
rows = []
for d in sorted(glob.glob(VERIF + "/seeded/*")):
    mp = d + "/meta.json"
    if not os.path.exists(mp):
        continue
    m = json.load(open(mp))
    name = os.path.basename(d)
    notes = open(d + "/notes.md").read() if os.path.exists(d + "/notes.md") else ""
    title = ""
    for line in notes.splitlines():
        line = line.strip().lstrip("#").strip()
        if line:
            title = re.sub(r"^(C\d+\s*/?\s*(change\s*)?[A-D]\s*[—:-]*\s*)", "", line, flags=re.I)
            title = re.sub(r"^(Change\s*[A-D]\s*[—:-]*\s*)", "", title, flags=re.I)
            break
    files = sorted(set(re.findall(r"^\+\+\+ b/(\S+)", open(d + "/patch.diff").read(), flags=re.M)))
    v = m.get("violation", "")
    how = "MISSED" if not m.get("caught") else ("proof/tie broken, no concrete input" if "no-failing-input-found" in v else "concrete failing input")
    key = ""
    co = d + "/check_output.txt"
    rows.append("| %s | %s | %s | %s | %s |" % (name, m["property"], ", ".join(f.replace("dali/", "") for f in files), title[:150].replace("|", "/"), how))
table = "| seed | property | files | what it does | result of `./check` |\n|---|---|---|---|---|\n" + "\n".join(rows)
p = VERIF + "/DESIGN.md"
s = open(p).read()
a, b = "<!-- SEEDTABLE-BEGIN -->", "<!-- SEEDTABLE-END -->"
if a in s:
    s = s[:s.index(a) + len(a)] + "\n" + table + "\n" + s[s.index(b):]
    open(p, "w").write(s)
print(len(rows), "rows;", sum(1 for r in rows if "MISSED" in r), "missed;", sum(1 for r in rows if "no concrete" in r), "without concrete input")
