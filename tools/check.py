"""./check Cxx [--tier quick|thorough] [--replay FILE]

GEN -> PROVE (lake build + axiom audit + forbidden-word grep [+ leanchecker])
-> CORRESPOND (model vs implementation) + ORACLE (implementation vs
specification) -> KNOWN FINDINGS -> evidence / violation.  See DESIGN.md §4.
Exit 0 = held on everything explored; 1 = VIOLATION line printed; 2 = the
machinery itself failed."""
import argparse
import importlib
import json
import os
import random
import sys
import time
import traceback

sys.path.insert(0, os.path.dirname(os.path.abspath(__file__)))
import common  # noqa
from common import InfraError  # noqa


class Ctx:
    pass


EXTRA_SEEDS = 3
QUICK_DEEP = {"C02", "C03", "C04", "C05", "C06", "C07", "C10", "C11", "C14", "C15", "C16", "C17", "C18", "C19"}


def main():
    ap = argparse.ArgumentParser()
    ap.add_argument("prop")
    ap.add_argument("--tier", default=os.environ.get("VERIF_TIER", "quick"),
                    choices=["quick", "thorough"])
    ap.add_argument("--replay")
    args = ap.parse_args()
    prop = args.prop.upper()
    try:
        seed = int(os.environ.get("VERIF_SEED", "0"))
    except ValueError:
        seed = 0
    common.ensure_repo_on_path()
    mod = importlib.import_module("props." + prop.lower())
    ctx = Ctx()
    ctx.prop, ctx.tier, ctx.seed = prop, args.tier, seed
    ctx.rng = random.Random(seed * 7919 + int(prop[1:]))
    # depth of the differential step: harnesses size their suites by ctx.thorough.  Properties whose deep suites
    # cost under a minute use them in the quick tier as well (QUICK_DEEP); the thorough tier adds leanchecker
    # and repeats the sampled suites under further seeds (EXTRA_SEEDS).
    ctx.thorough = args.tier == "thorough" or (prop in QUICK_DEEP and not os.environ.get("VERIF_SHALLOW"))
    ctx.t0 = time.time()

    if args.replay:
        payload = json.load(open(args.replay))
        still = mod.replay(ctx, payload)
        print("replay: %s" % ("still fails" if still else "does not fail"))
        return 1 if still else 0

    log = lambda *a: print("[%s %6.1fs]" % (prop, time.time() - ctx.t0), *a, flush=True)

    # ---- 1. GEN --------------------------------------------------------------
    # The generated tables, the proofs built over them and the model drivers compiled from them must all belong to
    # THIS tree for the whole run.  Checks of the same tree share build/tree.lock; a check whose tree generates
    # different tables takes it exclusively, regenerates and rebuilds, then re-enters shared and re-verifies.
    import fcntl
    MODS = [mod.MODULE] + list(getattr(mod, "EXTRA_MODULES", []))   # extra: cross-property composition theorems
    gen_info = {}
    common.BUILD.mkdir(exist_ok=True)
    treelock = open(common.BUILD / "tree.lock", "w")
    ctx._treelock = treelock          # held (shared) until the process exits
    import extract
    for attempt in range(20):
        fcntl.flock(treelock, fcntl.LOCK_SH)
        if not getattr(mod, "GEN", True):
            gen_info = {"summary": "not used by this property"}
            break
        dry = extract.generate(dry=True)
        if not dry["changed"]:
            gen_info = dry
            break
        fcntl.flock(treelock, fcntl.LOCK_UN)
        fcntl.flock(treelock, fcntl.LOCK_EX)
        try:
            gen_info = extract.generate()
            common.lake_build(MODS + list(mod.EXES))
        finally:
            fcntl.flock(treelock, fcntl.LOCK_UN)
    else:
        raise InfraError("could not obtain a stable set of generated tables (another tree keeps regenerating them)")
    log("GEN: %s" % gen_info.get("summary", "ok"))
    ctx.gen = gen_info
    ok, out = common.lake_build(MODS + list(mod.EXES))

    # ---- 2. PROVE ------------------------------------------------------------
    broken = []          # names of theorems / obligations that no longer check
    build_errors = []
    if not ok and len(MODS) > 1:
        # Composition theorems (EXTRA_MODULES) join this property's model with OTHER properties' models.  If only
        # they fail to build, the cause lies in another property's obligations, which that property's own check
        # reports; this property's theorems are unaffected, so the extras are dropped for this run (and noted).
        ok1, _ = common.lake_build([mod.MODULE] + list(mod.EXES))
        if ok1:
            log("PROVE: NOTE composition module(s) %s do not build on this tree (another property's obligations); "
                "not part of this property's verdict" % MODS[1:])
            ctx.extras_dropped = MODS[1:]
            MODS = MODS[:1]
            ok = True
    if not ok:
        # is it the proof side or the drivers?
        okp, outp = common.lake_build(MODS[:1])
        if not okp:
            build_errors = common.lean_errors(outp)
            broken.append("lake build %s" % mod.MODULE)
            log("PROVE: build of %s FAILED" % mod.MODULE)
        oke, oute = common.lake_build(list(mod.EXES))
        if not oke:
            # drivers depend on Model + Gen only; if they do not build, nothing can be compared
            if okp:
                raise InfraError("model drivers do not build:\n" + oute[-3000:])
            build_errors += common.lean_errors(oute)
    theorems = {}
    if not broken:
        allth = common.audit(mod.MODULE)
        pre = mod.MODULE + "."
        theorems = {k[len(pre):]: v for k, v in allth.items() if k.startswith(pre)}
        for em in MODS[1:]:
            short = em.split(".")[-1]
            for k, v in common.audit(em).items():
                if k.startswith(em + "."):
                    theorems[short + "." + k[len(em) + 1:]] = v
        for t in list(mod.THEOREMS) + (list(getattr(mod, "EXTRA_THEOREMS", [])) if len(MODS) > 1 else []):
            if t not in theorems:
                broken.append("theorem %s missing from %s" % (t, mod.MODULE))
        for t, axs in theorems.items():
            bad = [a for a in axs if a not in common.ALLOWED_AXIOMS]
            if bad:
                broken.append("theorem %s depends on %s" % (t, ",".join(bad)))
        exe_roots = {'m_frame': 'MFrame', 'm_cmd': 'MCmd', 'm_resp': 'MResp', 'm_memval': 'MMemval',
                     'm_gearseq': 'MGearseq', 'm_devseq': 'MDevseq', 'm_memseq': 'MMemseq', 'm_wire': 'MWire',
                     'm_rx': 'MRx', 'm_drv': 'MDrv', 'm_watch': 'MWatch'}
        hits = common.grep_forbidden(MODS + [exe_roots[e] for e in mod.EXES if e in exe_roots])
        if hits:
            broken.append("forbidden words in Lean sources: " + "; ".join(hits[:5]))
        if args.tier == "thorough":
            okc, outc = common.leanchecker(MODS)
            if not okc:
                broken.append("leanchecker rejected %s: %s" % (mod.MODULE, outc[-500:]))
            log("PROVE: leanchecker %s" % ("ok" if okc else "FAILED"))
        log("PROVE: %d theorems audited, %d problems" % (len(theorems), len(broken)))

    # ---- 2b. TIE BY TRANSLATION ---------------------------------------------------
    # The source of the pure kernels is re-translated on every run (tools/symtrace.py, Gen/Src*.lean) and
    # Tie/*.lean proves the hand-written model equal to it.  This is one of the TWO ties between model and
    # code (DESIGN.md II.8); the other is the differential correspondence of step 3.  A harmless rewrite of the
    # source can defeat the translation or its equivalence proof, so a tie that no longer checks is not a
    # violation by itself and not an obligation of the property: it makes this run fall back on the
    # differential tie alone, at the thorough tier's depth, and says so in the evidence.
    tie = {"modules": list(getattr(mod, "TIE_MODULES", [])), "status": "not used by this property"}
    ctx.tie_broken = []
    if tie["modules"]:
        okt, outt = common.lake_build(tie["modules"])
        tie_th = {}
        if okt:
            for tm in tie["modules"]:
                for k, v in common.audit(tm).items():
                    if k.startswith(tm + "."):
                        tie_th[k[len("DaliVerif."):]] = v
            missing = [t for t in getattr(mod, "TIE_THEOREMS", []) if t not in tie_th]
            badax = [t for t, axs in tie_th.items() if any(a not in common.ALLOWED_AXIOMS for a in axs)]
            hits = common.grep_forbidden(tie["modules"])
            if missing or badax or hits:
                okt = False
                outt = "missing %s, axioms %s, forbidden words %s" % (missing, badax, hits)
        if okt:
            tie.update(status="proved", theorems=tie_th)
            log("TIE: source translation = model: %d theorems proved over the regenerated definitions" % len(tie_th))
        else:
            failed = gen_info.get("failed", {}) if isinstance(gen_info, dict) else {}
            tie.update(status="not established on this tree", errors=common.lean_errors(outt)[:3] or [outt[-600:]],
                       translator_failures={k: v[-400:] for k, v in failed.items() if k.startswith("Src")})
            ctx.tie_broken = tie["modules"]
            log("TIE: NOTE the translated source is no longer proved equal to the model (%s); falling back on the "
                "differential correspondence at thorough depth" % ", ".join(tie["modules"]))
            ctx.thorough = True      # depth of step 3 only; the tier recorded in the evidence stays as requested
    ctx.tie = tie

    # ---- 3. CORRESPOND + ORACLE ------------------------------------------------
    corr = common.Corr()
    exes_ok = all((common.LEAN / ".lake" / "build" / "bin" / e).exists() for e in mod.EXES)
    ctx.model_available = exes_ok
    ctx.proof_broken = bool(broken)
    ctx.log = log
    try:
        if exes_ok:
            mod.correspond(ctx, corr)
            # thorough tier: the sampled suites again under further seeds (the exhaustive ones simply repeat),
            # as long as nothing has been found and the budget allows
            extra = 0
            if args.tier == "thorough" and not ctx.tie_broken:
                budget = float(os.environ.get("VERIF_THOROUGH_BUDGET_S", "420"))
                while (extra < EXTRA_SEEDS and not corr.disagreements and not corr.violations
                       and time.time() - ctx.t0 < budget):
                    extra += 1
                    ctx.rng = random.Random((seed + 1000 * extra) * 7919 + int(prop[1:]))
                    mod.correspond(ctx, corr)
                log("CORRESPOND: %d further seed(s) in the thorough tier" % extra)
            ctx.extra_seeds = extra
        else:
            broken.append("model drivers %s do not build (regenerated tables no longer fit the model)" % mod.EXES)
            log("CORRESPOND: skipped, model drivers unavailable")
    except InfraError:
        raise
    except Exception:
        # the harness tripped over the implementation's behaviour: the tie is broken
        corr.disagree("harness-exception", traceback.format_exc()[-1500:], "n/a", "n/a")
        log("CORRESPOND: harness exception (recorded as a broken correspondence)")
    ndis = len(corr.disagreements)
    log("CORRESPOND: %d evaluations, %d distinct non-trivial, %d disagreements, %d oracle failures"
        % (corr.evaluations, len(corr.distinct), ndis, len(corr.violations)))

    # ---- 4. KNOWN FINDINGS -----------------------------------------------------
    known = common.known_findings(prop)
    open_keys = {k: txt for (st, k, txt) in known if st == "open"}
    new_viol = []
    seen_known = set()
    for v in corr.violations:
        if v["key"] in open_keys:
            seen_known.add(v["key"])
        else:
            new_viol.append(v)
    # open findings are replayed even when no generator happened to hit them
    if hasattr(mod, "replay_known"):
        for k in open_keys:
            if k not in seen_known and mod.replay_known(ctx, k):
                seen_known.add(k)
    for k in sorted(seen_known):
        print("KNOWN-FINDING: property=%s %s" % (prop, open_keys[k]), flush=True)

    # ---- 5./6. verdict ---------------------------------------------------------
    wall = time.time() - ctx.t0
    coverage = {
        "obligations": len(mod.THEOREMS),
        "discharged": sum(1 for t in mod.THEOREMS if t in theorems
                          and all(a in common.ALLOWED_AXIOMS for a in theorems[t])) if not broken else
        sum(1 for t in mod.THEOREMS if t in theorems),
        "checker_cmd": "cd lean && lake build %s && lake env lean <audit of %s> %s" % (
            mod.MODULE, mod.MODULE, "&& lake env leanchecker " + mod.MODULE if args.tier == "thorough" else ""),
        "trusted_base": common.TRUSTED_BASE + list(getattr(mod, "TRUSTED", [])),
        "theorems": {t: theorems.get(t) for t in sorted(theorems)},
        "evaluations": corr.evaluations,
        "distinct_nontrivial": len(corr.distinct),
        "rule": " | ".join(corr.rule),
        "samples": corr.samples,
        "exhaustive": bool(corr.exhaustive) and all(corr.exhaustive.values()),
        "exhaustive_suites": corr.exhaustive,
        "suites": corr.suites,
        "input_distribution": corr.dist,
        "traces_validated_against_impl": corr.suites.get("traces", 0),
        "disagreements_model_vs_impl": ndis,
        "known_findings_reproduced": sorted(seen_known),
        "gen": {k: v for k, v in gen_info.items() if k != "files"},
        "tie_by_translation": ctx.tie,
        "extra_seeds": getattr(ctx, "extra_seeds", 0),
        "partial": getattr(mod, "PARTIAL", ""),
    }
    assumptions = list(getattr(mod, "ASSUMPTIONS", []))

    if not broken and ndis == 0 and not new_viol:
        common.write_evidence(prop, ctx.tier, seed, coverage, wall, 0, assumptions)
        log("OK")
        return 0

    # something broke: a concrete failing input on the real code?
    if not new_viol and hasattr(mod, "search"):
        log("SEARCH: looking for a failing input on the implementation")
        found = mod.search(ctx, corr, broken) or []
        new_viol = [v for v in found if v["key"] not in open_keys]
    coverage["broken_obligations"] = broken
    if new_viol:
        v = new_viol[0]
        path = common.write_replay(prop, seed, {
            "property": prop, "kind": "failing-input", "failure": v,
            "more": new_viol[1:6], "broken_obligations": broken,
            "lean_errors": build_errors,
            "disagreements": [d for d in corr.disagreements if d][:10],
            "replay_cmd": "./check %s --replay <this file>" % prop})
        common.write_evidence(prop, ctx.tier, seed, coverage, wall, len(new_viol), assumptions)
        print("VIOLATION property=%s replay=%s" % (prop, path), flush=True)
        return 1
    path = common.write_replay(prop, seed, {
        "property": prop, "kind": "no-failing-input-found",
        "no_longer_checks": broken or ["correspondence suite(s): " + ", ".join(
            sorted({d["suite"] for d in corr.disagreements if d}))],
        "lean_errors": build_errors,
        "disagreements": [d for d in corr.disagreements if d][:10]})
    common.write_evidence(prop, ctx.tier, seed, coverage, wall, 1, assumptions)
    print("VIOLATION property=%s replay=%s no-failing-input-found" % (prop, path), flush=True)
    return 1


if __name__ == "__main__":
    try:
        sys.exit(main())
    except InfraError as e:
        print("INFRASTRUCTURE ERROR: %s" % e, file=sys.stderr)
        sys.exit(2)
    except Exception:
        traceback.print_exc()
        sys.exit(2)
