"""Shared machinery of the checks: paths, lake, audit, model processes,
evidence, known findings.  Runs under /venv/bin/python with /repo first on
sys.path, so `import dali` is the working tree."""
import contextlib
import fcntl
import json
import os
import random
import re
import subprocess
import sys
import time
from pathlib import Path

VERIF = Path(__file__).resolve().parent.parent
REPO = Path(os.environ.get("VERIF_REPO", "/repo"))
LEAN = VERIF / "lean"
BUILD = VERIF / "build"
# evidence/ and replays/ describe /repo itself; a run against any other tree (seeded / benign changes in scratch
# worktrees, VERIF_REPO=...) keeps its records apart so that the committed evidence is never overwritten by it
_OTHER_TREE = REPO.resolve() != Path("/repo").resolve()
EVIDENCE = (BUILD / "other_tree" / "evidence") if _OTHER_TREE else VERIF / "evidence"
REPLAYS = (BUILD / "other_tree" / "replays") if _OTHER_TREE else VERIF / "replays"
KNOWN = VERIF / "known_findings.txt"
PY = "/venv/bin/python"
ALLOWED_AXIOMS = {"propext", "Classical.choice", "Quot.sound"}
FORBIDDEN = re.compile(
    r"\bsorry\b|\badmit\b|^axiom |native_decide|bv_decide|implemented_by|\bunsafe |maxHeartbeats 0")

TRUSTED_BASE = [
    "Lean 4.33.0 kernel (thorough tier re-checks the .olean files with leanchecker)",
    "axioms allowed: propext, Classical.choice, Quot.sound (audited per theorem on every run); "
    "no sorry/admit/native_decide/bv_decide/own axioms (grepped on every run)",
    "Lean compiler: the compiled model drivers (m_*) are trusted to agree with the kernel's reading of the same definitions",
    "translator tools/extract.py: Python reflection over the imported package (data only)",
    "correspondence harness + generators (sampling outside the exhaustive domains); CPython",
]


class InfraError(Exception):
    """Something in the machinery itself failed (exit 2, never a violation)."""


def ensure_repo_on_path():
    p = str(REPO)
    if sys.path[0] != p:
        sys.path.insert(0, p)


@contextlib.contextmanager
def flock(name):
    BUILD.mkdir(exist_ok=True)
    with open(BUILD / (name + ".lock"), "w") as fh:
        fcntl.flock(fh, fcntl.LOCK_EX)
        try:
            yield
        finally:
            fcntl.flock(fh, fcntl.LOCK_UN)


def run(cmd, cwd=None, timeout=None, env=None, input=None):
    e = dict(os.environ)
    if env:
        e.update(env)
    p = subprocess.run(cmd, cwd=cwd, timeout=timeout, env=e, input=input,
                       stdout=subprocess.PIPE, stderr=subprocess.STDOUT, text=True)
    return p.returncode, p.stdout


def lake_build(targets, timeout=3000):
    """Build lake targets; returns (ok, output).  Serialised by a lock."""
    with flock("lake"):
        rc, out = run(["lake", "build"] + list(targets), cwd=LEAN, timeout=timeout)
    return rc == 0, out


def lean_errors(out):
    """Extract the error lines of a failed lake build (for the replay file)."""
    lines = out.splitlines()
    errs = []
    for i, l in enumerate(lines):
        if l.startswith("error:") or " error: " in l or "error(" in l:
            errs.append("\n".join(lines[i:i + 12]))
    return errs[:10]


AUDIT_TEMPLATE = """import Lean
import {module}
open Lean Elab Command

#eval show CommandElabM Unit from do
  let env ← getEnv
  let some idx := env.getModuleIdx? `{module} | throwError "module not found"
  for (c, info) in env.constants.map₁.toList do
    if env.getModuleIdxFor? c != some idx then continue
    match info with
    | .thmInfo _ =>
      if c.isInternalDetail then continue
      let axs ← liftCoreM (collectAxioms c)
      let axs := axs.toList.map (fun a => "\\"" ++ a.toString ++ "\\"")
      IO.println s!"AUDIT \\{{\\"theorem\\": \\"{{c}}\\", \\"axioms\\": [{{", ".intercalate axs}}]}}"
    | _ => pure ()
"""


def audit(module):
    """Return {theorem: [axioms]} for every theorem declared in `module`."""
    BUILD.mkdir(exist_ok=True)
    f = BUILD / ("audit_%s_%d.lean" % (module.replace(".", "_"), os.getpid()))
    f.write_text(AUDIT_TEMPLATE.format(module=module))
    try:
        with flock("lake"):
            rc, out = run(["lake", "env", "lean", str(f)], cwd=LEAN, timeout=600)
    finally:
        f.unlink(missing_ok=True)
    if rc != 0:
        raise InfraError("audit failed:\n" + out[-2000:])
    res = {}
    for l in out.splitlines():
        if l.startswith("AUDIT "):
            d = json.loads(l[6:])
            res[d["theorem"]] = d["axioms"]
    return res


def strip_comments(src):
    # remove /- ... -/ (nested not handled beyond one level) and -- comments
    src = re.sub(r"/-.*?-/", lambda m: "\n" * m.group(0).count("\n"), src, flags=re.S)
    src = re.sub(r"--.*", "", src)
    return src


def import_closure(roots):
    """Lean source files (under lean/) reachable from the given module names / root files"""
    seen, todo = {}, list(roots)
    while todo:
        m = todo.pop()
        if m in seen:
            continue
        f = LEAN / (m.replace(".", "/") + ".lean")
        if not f.exists():
            continue
        seen[m] = f
        for line in f.read_text().splitlines():
            mm = re.match(r"\s*(?:public\s+)?import\s+([A-Za-z0-9_.]+)", line)
            if mm and (mm.group(1).startswith("DaliVerif") or (LEAN / (mm.group(1) + ".lean")).exists()):
                todo.append(mm.group(1))
    return seen


def grep_forbidden(roots=None):
    """forbidden words in the Lean sources a property depends on (its Props
    module and the roots of its model drivers), comments stripped"""
    if roots:
        files = sorted(import_closure(roots).values())
    else:
        files = sorted(LEAN.glob("DaliVerif/**/*.lean"))
    hits = []
    for p in files:
        for n, line in enumerate(strip_comments(p.read_text()).splitlines(), 1):
            if FORBIDDEN.search(line):
                hits.append("%s:%d: %s" % (p.relative_to(VERIF), n, line.strip()))
    return hits


def leanchecker(modules):
    rc, out = run(["lake", "env", "leanchecker"] + list(modules), cwd=LEAN, timeout=3000)
    return rc == 0, out


class Model:
    """A compiled model driver spoken to over the line protocol."""

    def __init__(self, exe):
        self.path = LEAN / ".lake" / "build" / "bin" / exe
        if not self.path.exists():
            raise InfraError("model driver %s not built" % exe)
        self.proc = None

    def batch(self, lines):
        """Answer a list of request lines (one process run)."""
        if not lines:
            return []
        p = subprocess.run([str(self.path)], input="\n".join(lines) + "\n",
                           stdout=subprocess.PIPE, stderr=subprocess.PIPE, text=True)
        if p.returncode != 0:
            raise InfraError("model driver crashed: " + p.stderr[-500:])
        out = p.stdout.splitlines()
        if len(out) != len(lines):
            raise InfraError("model driver answered %d lines for %d requests"
                             % (len(out), len(lines)))
        return out

    # lock-step use
    def start(self):
        self.proc = subprocess.Popen([str(self.path)], stdin=subprocess.PIPE,
                                     stdout=subprocess.PIPE, text=True, bufsize=1)
        return self

    def ask(self, line):
        self.proc.stdin.write(line + "\n")
        self.proc.stdin.flush()
        r = self.proc.stdout.readline()
        if not r:
            raise InfraError("model driver died on: " + line)
        return r.rstrip("\n")

    def close(self):
        if self.proc:
            try:
                self.proc.stdin.close()
                self.proc.wait(timeout=10)
            except Exception:
                self.proc.kill()
            self.proc = None


# ---- python value <-> protocol token -------------------------------------

def tok(v):
    """Encode a Python operand as a protocol token (see Drivers/Proto.lean)."""
    if v is None:
        return "n"
    if isinstance(v, bool):
        return "b:1" if v else "b:0"
    if isinstance(v, int):
        return "i:%d" % v
    if isinstance(v, float):
        return "f:%d" % int(v) if v == int(v) else "f:x"
    if isinstance(v, str):
        assert " " not in v
        return "s:" + v
    if isinstance(v, (list, tuple, bytes)):
        return "l:" + ",".join(str(int(x)) for x in v)
    return "o"


def outcome(fn):
    """Run fn(); canonical ('ok', value) or ('err', ExceptionClassName)."""
    try:
        return ("ok", fn())
    except BaseException as e:  # noqa
        if isinstance(e, (KeyboardInterrupt, SystemExit)):
            raise
        return ("err", type(e).__name__)


# ---- known findings ---------------------------------------------------------

def known_findings(prop):
    """Entries of known_findings.txt for `prop`: list of (status, key, text).
    Lines:  open: property=Cxx key=<key> <what fails>
            fixed: property=Cxx <commit> <what failed>"""
    res = []
    if not KNOWN.exists():
        return res
    for l in KNOWN.read_text().splitlines():
        l = l.strip()
        if not l or l.startswith("#"):
            continue
        m = re.match(r"(open|fixed):\s+property=(\S+)\s+(.*)", l)
        if not m or m.group(2) != prop:
            continue
        status, rest = m.group(1), m.group(3)
        key = None
        km = re.match(r"key=(\S+)\s+(.*)", rest)
        if km:
            key, rest = km.group(1), km.group(2)
        res.append((status, key, rest))
    return res


# ---- evidence -----------------------------------------------------------------

def write_evidence(prop, tier, seed, coverage, wall_s, violations=0, assumptions=None, level="proof"):
    EVIDENCE.mkdir(parents=True, exist_ok=True)
    d = {
        "property_id": prop,
        "tier": tier,
        "seed": seed,
        "level": level,
        "coverage": coverage,
        "assumptions": assumptions or [],
        "wall_s": round(wall_s, 2),
        "violations": violations,
    }
    tmp = EVIDENCE / (prop + ".json.tmp")
    tmp.write_text(json.dumps(d, indent=1, default=str) + "\n")
    tmp.replace(EVIDENCE / (prop + ".json"))


def write_replay(prop, seed, payload):
    REPLAYS.mkdir(parents=True, exist_ok=True)
    p = REPLAYS / ("%s-%s.json" % (prop, seed))
    p.write_text(json.dumps(payload, indent=1, default=str) + "\n")
    return p.relative_to(VERIF)


class Corr:
    """Accumulates what a correspondence / oracle run covered."""

    def __init__(self):
        self.evaluations = 0
        self.distinct = set()
        self.samples = []
        self.disagreements = []   # model vs implementation
        self.violations = []      # implementation vs specification (property oracle)
        self.suites = {}
        self.exhaustive = {}
        self.rule = []
        self.dist = {}

    def count(self, suite, n=1):
        self.evaluations += n
        self.suites[suite] = self.suites.get(suite, 0) + n

    def bump(self, key, n=1):
        self.dist[key] = self.dist.get(key, 0) + n

    def nontrivial(self, key):
        self.distinct.add(key)

    def sample(self, s, limit=12):
        if len(self.samples) < limit:
            self.samples.append(s)

    def disagree(self, suite, inp, model, impl):
        if len(self.disagreements) < 50:
            self.disagreements.append({"suite": suite, "input": inp, "model": model, "impl": impl})
        else:
            self.disagreements.append(None)

    def violate(self, key, inp, expected, observed, note=""):
        self.violations.append({"key": key, "input": inp, "expected": expected,
                                "observed": observed, "note": note})




# the exception classes the models and the property statements speak about: the library's own (dali/exceptions.py at
# the pinned commit) and the builtins the code raises.  An exception is judged as the FIRST of these along its MRO:
# a maintainer may raise a more specific subclass of the documented class (with a better message) - for every
# `except` clause and `isinstance` test of a caller that is still the documented class.
EXC_VOCAB = frozenset("""DALIError AddressError IncompatibleFrame CommandError MissingResponse ResponseError
DALISequenceError ProgramShortAddressFailure MemoryError LatchingNotSupported MemoryLocationNotImplemented
MemoryWriteError MemoryValueNotWriteable MemoryLocationNotWriteable MemoryWriteFailure DriverError CommunicationError
UnsupportedFrameTypeError TypeError ValueError IndexError KeyError AttributeError OverflowError AssertionError
RuntimeError NotImplementedError OSError TimeoutError ZeroDivisionError StopIteration RecursionError NameError
CancelledError QueueFull QueueEmpty InvalidStateError GeneratorExit KeyboardInterrupt SystemExit SeqBoom Spin
InfraError Captured""".split())


def exc_name(e):
    """canonical class name of an exception (object or class) raised by the code under test"""
    cls = e if isinstance(e, type) else type(e)
    for k in cls.__mro__:
        if k.__name__ in EXC_VOCAB:
            return k.__name__
    return cls.__name__


class Spin(BaseException):
    """raised INSIDE code that has been running for too long without returning to the harness (a synchronous
    busy loop in the code under test: e.g. a retry loop that never awaits).  BaseException, so that the library's
    own `except Exception` / `except CommunicationError` handlers cannot swallow it."""


class watchdog:
    """with watchdog(seconds): …   — wall-clock limit for one scenario, by SIGALRM (main thread only; elsewhere
    a no-op).  A scenario of these harnesses takes milliseconds; the limit only fires when the code under test
    spins, and turns the spin into a `Spin` exception that the harness reports as 'never completes'."""

    def __init__(self, seconds):
        self.seconds = seconds
        self.armed = False

    def __enter__(self):
        import signal, threading
        if threading.current_thread() is threading.main_thread():
            def fire(_s, _f):
                raise Spin()
            self.old = signal.signal(signal.SIGALRM, fire)
            signal.setitimer(signal.ITIMER_REAL, self.seconds)
            self.armed = True
        return self

    def __exit__(self, *exc):
        if self.armed:
            import signal
            signal.setitimer(signal.ITIMER_REAL, 0)
            signal.signal(signal.SIGALRM, self.old)
        return False


def hot_addr(rng, n=64):
    """a unit address: mostly one of a few 'hot' ones, so that successive runs of a harness meet DIFFERENT unit
    states at the SAME address (anything the library remembers per address from an earlier call then shows)"""
    return rng.choice([5, 0, n - 1]) if rng.random() < 0.6 else rng.randrange(n)
