#!/bin/bash
# tools/seedimport8.sh Cxx …  — import seed outputs of round 8: /tmp/seedr8/Cxx/out/{A,B} become seeded/Cxx-{O,P};
# the sub-agent's scratch worktree is removed
for p in "$@"; do
  for pair in A:O B:P; do
    s=/tmp/seedr8/$p/out/${pair%%:*}; d=/verif/seeded/$p-${pair##*:}
    if [ -s $s/patch.diff ]; then mkdir -p $d; cp $s/patch.diff $s/demo.py $s/notes.md $d/ 2>/dev/null; fi
  done
  git -C /repo worktree remove --force /tmp/seedr8/$p/wt 2>/dev/null
done
