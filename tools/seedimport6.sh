#!/bin/bash
# tools/seedimport6.sh Cxx …  — import seed outputs of round $R (default 6): /tmp/seedr$R/Cxx/out/{A,B} become
# seeded/Cxx-{K,L} (round 6) or seeded/Cxx-{M,N} (round 7); the scratch worktree is removed
R=${R:-6}
if [ "$R" = 7 ]; then N1=M; N2=N; else N1=K; N2=L; fi
for p in "$@"; do
  for pair in A:$N1 B:$N2; do
    s=/tmp/seedr$R/$p/out/${pair%%:*}; d=/verif/seeded/$p-${pair##*:}
    if [ -s $s/patch.diff ]; then mkdir -p $d; cp $s/patch.diff $s/demo.py $s/notes.md $d/ 2>/dev/null; fi
  done
  git -C /repo worktree remove --force /tmp/seedr$R/$p/wt 2>/dev/null
done
