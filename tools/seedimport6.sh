#!/bin/bash
# tools/seedimport6.sh Cxx …  — import round-6 seed outputs (/tmp/seedr6/Cxx/out/{A,B}) as seeded/Cxx-{K,L}, drop the worktree
for p in "$@"; do
  for pair in A:K B:L; do
    s=/tmp/seedr6/$p/out/${pair%%:*}; d=/verif/seeded/$p-${pair##*:}
    if [ -s $s/patch.diff ]; then mkdir -p $d; cp $s/patch.diff $s/demo.py $s/notes.md $d/ 2>/dev/null; fi
  done
  git -C /repo worktree remove --force /tmp/seedr6/$p/wt 2>/dev/null
done
