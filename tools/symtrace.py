"""Path-tracing translator: runs REAL library code on symbolic integers and records every path.

A `SInt` is an `int` subclass whose arithmetic builds expression trees; a comparison yields an `SBool`
whose truth value, when the code under trace asks for it (`if`, `and`, `or`, `not`, `max`, `min`, …), is
taken from a decision list, so that re-running the same call with every decision list in turn (depth
first) enumerates all paths of a loop-free function.  The outcome of each path (returned value or the class
of the exception raised, plus the final value of any mutated attribute the caller asks for) becomes a leaf
of a decision tree, which `lean_of_tree` prints as a Lean 4 definition over `Int`.

What the tracer itself decides (and is therefore trusted for) is only the meaning of the integer operators;
partial operators are given Python's semantics by forking inside the operator (`x << n` raises ValueError for
n < 0, `//` and `%` raise ZeroDivisionError, …).  Anything the tracer cannot follow symbolically (`hash`,
`__index__`, `str`/`format`, `int()` of a symbolic value) raises `Untraceable`, so a function that needs it is
reported as not translatable rather than silently mistranslated.  Each traced tree is in addition validated
against the real code on concrete points by the caller (see tools/gen/src_*.py: `validate`).
"""
from common import exc_name  # noqa: E402
import itertools


class Untraceable(Exception):
    pass


SYMTEXT = "\u27easymbolic\u27eb"


class _Ctx:
    def __init__(self):
        self.prefix = []
        self.taken = []      # [(cond_expr, outcome)] and ('CALL', collaborator, arg_expr, result_var)
        self.limit = 400
        self.raise_at = None


_ctx = _Ctx()


# ---- expressions -------------------------------------------------------------------------------------------
# ('var', name) ('const', int) ('bconst', bool) (op, a, b) / (op, a)
def _e(x):
    if isinstance(x, SInt):
        return x._sym
    if isinstance(x, SBool):
        return ('ite', x._sym, ('const', 1), ('const', 0))
    if isinstance(x, bool):
        return ('const', int(x))
    if isinstance(x, int):
        return ('const', int(x))
    raise Untraceable("operand of type %s" % type(x).__name__)


def _isnum(x):
    return isinstance(x, (int, SBool)) and not isinstance(x, float)


class SBool:
    """symbolic truth value of a comparison"""
    __slots__ = ("_sym",)

    def __init__(self, sym):
        self._sym = sym

    def __bool__(self):
        c = _ctx
        i = sum(1 for t in c.taken if t[0] != 'CALL')
        if len(c.taken) >= c.limit:
            raise Untraceable("more than %d decisions on one path" % c.limit)
        out = c.prefix[i] if i < len(c.prefix) else True
        c.taken.append((self._sym, out))
        return out

    # `==` / `!=` between truth values, and arithmetic use of a truth value (rare)
    def __eq__(self, o):
        if isinstance(o, SBool):
            return SBool(('beq', self._sym, o._sym))
        if isinstance(o, bool):
            return self if o else SBool(('not', self._sym))
        return SInt(_e(self)) == o

    def __ne__(self, o):
        r = self.__eq__(o)
        return SBool(('not', r._sym))

    def __hash__(self):
        raise Untraceable("hash of a symbolic truth value")

    def __repr__(self):
        raise Untraceable("repr of a symbolic truth value")

    def __and__(self, o):
        return SInt(_e(self)) & o

    def __or__(self, o):
        return SInt(_e(self)) | o

    def __add__(self, o):
        return SInt(_e(self)) + o

    __radd__ = __add__


def _cmp(op):
    def f(self, o):
        if isinstance(o, SBool):
            o = SInt(_e(o))
        if not isinstance(o, int):
            return NotImplemented
        return SBool((op, _e(self), _e(o)))
    return f


def _bin(op, check=None):
    def f(self, o):
        if isinstance(o, SBool):
            o = SInt(_e(o))
        if not isinstance(o, int) or isinstance(o, float):
            return NotImplemented
        if check:
            check(self, o)
        return SInt((op, _e(self), _e(o)))

    def r(self, o):
        if isinstance(o, SBool):
            o = SInt(_e(o))
        if not isinstance(o, int):
            return NotImplemented
        if check:
            check(o, self)
        return SInt((op, _e(o), _e(self)))
    return f, r


def _chk_shift(a, n):
    if isinstance(n, SBool):
        return
    if n < 0:           # a fork when n is symbolic, an ordinary test when it is not
        raise ValueError("negative shift count")


def _chk_div(a, n):
    if isinstance(n, SBool):
        n = SInt(_e(n))
    if n == 0:
        raise ZeroDivisionError("integer division or modulo by zero")


class SInt(int):
    """symbolic Python int (the concrete value of the int object itself is never used)"""

    def __new__(cls, sym):
        o = int.__new__(cls, 0)
        o._sym = sym if isinstance(sym, tuple) else ('var', sym)
        return o

    __lt__ = _cmp('lt')
    __le__ = _cmp('le')
    __gt__ = _cmp('gt')
    __ge__ = _cmp('ge')
    __eq__ = _cmp('eq')
    __ne__ = _cmp('ne')
    __add__, __radd__ = _bin('add')
    __sub__, __rsub__ = _bin('sub')
    __mul__, __rmul__ = _bin('mul')
    __and__, __rand__ = _bin('and')
    __or__, __ror__ = _bin('or')
    __xor__, __rxor__ = _bin('xor')
    __lshift__, __rlshift__ = _bin('shl', _chk_shift)
    __rshift__, __rrshift__ = _bin('shr', _chk_shift)
    __floordiv__, __rfloordiv__ = _bin('fdiv', _chk_div)
    __mod__, __rmod__ = _bin('fmod', _chk_div)

    def __neg__(self):
        return SInt(('sub', ('const', 0), self._sym))

    def __pos__(self):
        return self

    def __invert__(self):
        return SInt(('sub', ('const', -1), self._sym))

    def __abs__(self):
        return -self if self < 0 else self

    def bit_length(self):
        return SInt(('bitlen', self._sym))

    def __bool__(self):
        return bool(self != 0)

    def _no(name):
        def f(self, *a, **k):
            raise Untraceable(name + " of a symbolic integer")
        return f

    __hash__ = _no("hash")
    __index__ = _no("__index__")
    __int__ = _no("int()")
    __float__ = _no("float()")
    # text (exception messages, logging) may mention a symbolic value; such text must not reach a result
    def __str__(self):
        return SYMTEXT

    __repr__ = __str__

    def __format__(self, spec):
        return SYMTEXT

    __truediv__ = _no("true division")
    __rtruediv__ = _no("true division")
    __pow__ = _no("pow")
    __rpow__ = _no("pow")
    __divmod__ = _no("divmod")
    __round__ = _no("round")
    to_bytes = _no("to_bytes")
    del _no


# ---- calls to collaborators ---------------------------------------------------------------------------------
class Collaborator:
    """Stands in for an object the code under trace calls into but which is translated separately (an address
    or instance-byte object: their `add_to_frame` is tied by Tie/Address.lean).  `call(arg)` records the call on
    the current path and returns a fresh symbolic integer for its result; in the printed Lean definition the
    collaborator becomes a parameter `name : Int -> Except PyErr Int` and the call a bind (its error propagates
    unchanged, which `Entry.trace` confirms by raising a marker exception from each call site in turn)."""

    def __init__(self, name):
        self.name = name

    def call(self, arg):
        c = _ctx
        k = sum(1 for t in c.taken if t[0] == 'CALL')
        if c.raise_at is not None and c.raise_at == k:
            c.taken.append(('CALL', self.name, _e(arg), None))
            raise CollaboratorError()
        var = "r%d" % (k + 1)
        c.taken.append(('CALL', self.name, _e(arg), var))
        return SInt(var)


class CollaboratorError(Exception):
    """raised by a stub collaborator to see whether the code under trace lets it through unchanged"""


# ---- path enumeration ---------------------------------------------------------------------------------------
def explore(run, max_paths=4000):
    """`run()` performs the call under trace with fresh symbolic arguments and returns a leaf description
    (any hashable/printable structure built by the caller from the result).  Returns the decision tree:
    ('leaf', value) | ('node', cond_expr, tree_if_true, tree_if_false)."""
    paths = []
    stack = [[]]
    while stack:
        prefix = stack.pop()
        _ctx.prefix, _ctx.taken = prefix, []
        try:
            leaf = run()
        except Untraceable:
            raise
        taken = list(_ctx.taken)
        paths.append((taken, leaf))
        if len(paths) > max_paths:
            raise Untraceable("more than %d paths" % max_paths)
        decisions = [t[1] for t in taken if t[0] != 'CALL']
        for i in range(len(prefix), len(decisions)):
            # decisions beyond the prefix defaulted to True: schedule the False branch
            stack.append(decisions[:i] + [False])
    _ctx.prefix, _ctx.taken = [], []
    return _build(paths, 0), len(paths)


def _build(paths, depth):
    if len(paths) == 1 and len(paths[0][0]) == depth:
        return ('leaf', paths[0][1])
    if any(len(p[0]) <= depth for p in paths):
        raise Untraceable("the code under trace is not deterministic (paths disagree at depth %d)" % depth)
    heads = {p[0][depth] if p[0][depth][0] == 'CALL' else p[0][depth][0] for p in paths}
    if len(heads) != 1:
        raise Untraceable("the code under trace is not deterministic (paths disagree at depth %d)" % depth)
    head = heads.pop()
    if head[0] == 'CALL':
        return ('bind', head[1], head[2], head[3], _build(paths, depth + 1))
    cond = head
    t = [p for p in paths if p[0][depth][1]]
    f = [p for p in paths if not p[0][depth][1]]
    if not t or not f:
        raise Untraceable("incomplete exploration at depth %d" % depth)
    return ('node', cond, _build(t, depth + 1), _build(f, depth + 1))


def _max_calls(tree):
    if tree[0] == 'leaf':
        return 0
    if tree[0] == 'bind':
        return 1 + _max_calls(tree[4])
    return max(_max_calls(tree[2]), _max_calls(tree[3]))


def _leaves_after_call(tree, k, seen=0):
    """leaves of the paths on which collaborator call number k was made (and raised)"""
    if tree[0] == 'leaf':
        return [tree[1]] if seen > k else []
    if tree[0] == 'bind':
        return _leaves_after_call(tree[4], k, seen + 1)
    return _leaves_after_call(tree[2], k, seen) + _leaves_after_call(tree[3], k, seen)


def outcome(thunk, describe):
    """Run `thunk`; describe its result or the class of the exception it raised."""
    try:
        r = thunk()
    except Untraceable:
        raise
    except Exception as e:      # noqa - the exception class IS the outcome
        return ('raise', exc_name(e))
    return ('ok', describe(r))


# ---- concrete evaluation of expressions / trees (used to validate a trace against the real code) -----------
def ev(e, env):
    op = e[0]
    if op == 'var':
        return env[e[1]]
    if op == 'const':
        return e[1]
    if op == 'ite':
        return ev(e[2], env) if evb(e[1], env) else ev(e[3], env)
    if op == 'bitlen':
        return ev(e[1], env).bit_length()
    a, b = ev(e[1], env), ev(e[2], env)
    return {'add': lambda: a + b, 'sub': lambda: a - b, 'mul': lambda: a * b, 'and': lambda: a & b,
            'or': lambda: a | b, 'xor': lambda: a ^ b, 'shl': lambda: a << b, 'shr': lambda: a >> b,
            'fdiv': lambda: a // b, 'fmod': lambda: a % b}[op]()


def evb(c, env):
    op = c[0]
    if op == 'not':
        return not evb(c[1], env)
    if op == 'beq':
        return evb(c[1], env) == evb(c[2], env)
    a, b = ev(c[1], env), ev(c[2], env)
    return {'lt': a < b, 'le': a <= b, 'gt': a > b, 'ge': a >= b, 'eq': a == b, 'ne': a != b}[op]


def run_tree(tree, env, collaborators=None):
    """evaluate a tree on concrete values; `collaborators[name](int) -> int` (may raise) answers the binds"""
    env = dict(env)
    while tree[0] != 'leaf':
        if tree[0] == 'node':
            tree = tree[2] if evb(tree[1], env) else tree[3]
        else:
            _, name, arg, var, sub = tree
            try:
                env[var] = collaborators[name](ev(arg, env))
            except Exception as e:      # noqa
                return ('raise', exc_name(e))
            tree = sub
    return tree[1] if tree[1][0] == 'raise' else ('ok', ev_val(tree[1][1], env))


def constants(tree, acc=None):
    """all integer constants compared against / combined with symbolic values in a tree (seeds for generators)"""
    acc = set() if acc is None else acc

    def walk(e):
        if isinstance(e, tuple):
            if e and e[0] == 'const':
                acc.add(e[1])
            else:
                for x in e[1:]:
                    walk(x)
    if tree[0] == 'node':
        walk(tree[1])
        constants(tree[2], acc)
        constants(tree[3], acc)
    elif tree[0] == 'bind':
        walk(tree[2])
        constants(tree[4], acc)
    else:
        walk(tree[1])
    return acc


# ---- Lean output ---------------------------------------------------------------------------------------------
_LOP = {'add': '+', 'sub': '-', 'mul': '*'}
_LFN = {'and': 'pyAnd', 'or': 'pyOr', 'xor': 'pyXor', 'shl': 'pyShl', 'shr': 'pyShr', 'fdiv': 'Int.fdiv',
        'fmod': 'Int.fmod'}
_LCMP = {'lt': '<', 'le': '≤', 'gt': '>', 'ge': '≥', 'eq': '=', 'ne': '≠'}


def lean_expr(e):
    op = e[0]
    if op == 'var':
        return e[1]
    if op == 'const':
        return str(e[1]) if e[1] >= 0 else "(%d)" % e[1]
    if op == 'ite':
        return "(if %s then %s else %s)" % (lean_cond(e[1]), lean_expr(e[2]), lean_expr(e[3]))
    if op == 'bitlen':
        return "(bitLength %s : Int)" % lean_expr(e[1])
    if op in _LOP:
        return "(%s %s %s)" % (lean_expr(e[1]), _LOP[op], lean_expr(e[2]))
    return "(%s %s %s)" % (_LFN[op], lean_expr(e[1]), lean_expr(e[2]))


def lean_cond(c):
    op = c[0]
    if op == 'not':
        return "¬ (%s)" % lean_cond(c[1])
    if op == 'beq':
        return "((%s) ↔ (%s))" % (lean_cond(c[1]), lean_cond(c[2]))
    return "%s %s %s" % (lean_expr(c[1]), _LCMP[op], lean_expr(c[2]))


def lean_of_tree(tree, leaf, indent=2):
    """`leaf(value) -> str` renders a leaf as a Lean term"""
    pad = " " * indent
    if tree[0] == 'leaf':
        return pad + leaf(tree[1])
    if tree[0] == 'bind':
        return "%smatch %s %s with\n%s| .error e => .error e\n%s| .ok %s =>\n%s" % (
            pad, tree[1], lean_expr(tree[2]), pad, pad, tree[3], lean_of_tree(tree[4], leaf, indent + 2))
    return "%sif %s then\n%s\n%selse\n%s" % (pad, lean_cond(tree[1]), lean_of_tree(tree[2], leaf, indent + 2),
                                             pad, lean_of_tree(tree[3], leaf, indent + 2))


# ---- entries: one traced function -----------------------------------------------------------------------------
PYERRS = {"TypeError", "ValueError", "IndexError", "OverflowError", "AttributeError", "KeyError",
          "NotImplementedError", "AssertionError", "RuntimeError", "IncompatibleFrame", "MissingResponse",
          "ResponseError", "DALISequenceError", "ProgramShortAddressFailure", "MemoryLocationNotImplemented",
          "MemoryValueNotWriteable", "MemoryLocationNotWriteable", "MemoryWriteFailure", "MemoryWriteError",
          "CommunicationError", "UnsupportedFrameTypeError"}


def val(x):
    """describe a (possibly symbolic) result component: int -> expression, truth value -> condition"""
    if isinstance(x, SBool):
        return ('B', x._sym)
    if isinstance(x, bool):
        return ('B', ('true',) if x else ('false',))
    if isinstance(x, int):
        return ('I', _e(x))
    if x is None:
        return ('N',)
    if isinstance(x, str):
        if SYMTEXT in x:
            raise Untraceable("a result string depends on a symbolic integer")
        return ('S', x)
    if isinstance(x, (tuple, list)):
        return ('T',) + tuple(val(y) for y in x)
    raise Untraceable("result component of type %s" % type(x).__name__)


def lean_val(v):
    k = v[0]
    if k == 'I':
        return lean_expr(v[1])
    if k == 'B':
        if v[1] == ('true',):
            return "true"
        if v[1] == ('false',):
            return "false"
        return "decide (%s)" % lean_cond(v[1])
    if k == 'N':
        return "()"
    if k == 'S':
        return '"%s"' % v[1]
    if k == 'T':
        return "(" + ", ".join(lean_val(x) for x in v[1:]) + ")"
    raise Untraceable("cannot print %r" % (v,))


def ev_val(v, env):
    k = v[0]
    if k == 'I':
        return ev(v[1], env)
    if k == 'B':
        return True if v[1] == ('true',) else False if v[1] == ('false',) else evb(v[1], env)
    if k == 'N':
        return None
    if k == 'S':
        return v[1]
    return tuple(ev_val(x, env) for x in v[1:])


def conc_val(x):
    """the same description for a concrete result"""
    if isinstance(x, bool):
        return x
    if isinstance(x, int):
        return int(x)
    if x is None or isinstance(x, str):
        return x
    return tuple(conc_val(y) for y in x)


class Entry:
    """name, params (names of the Int parameters), lean_type (of the `ok` payload), call(args) -> python result
    (already reduced to ints / bools / tuples by the plugin's wrapper)."""

    def __init__(self, name, params, lean_type, call, doc="", wide=(), collaborators=()):
        self.name, self.params, self.lean_type, self.call, self.doc = name, params, lean_type, call, doc
        self.wide = set(wide)       # parameters that may take values of any size when validating
        self.collaborators = list(collaborators)    # names of the function parameters (see Collaborator)
        self.tree = None
        self.npaths = 0

    def trace(self):
        def run():
            args = {p: SInt(p) for p in self.params}
            return outcome(lambda: self.call(args), val)
        self.tree, self.npaths = explore(run)
        # a collaborator's exception must leave the traced code unchanged (that is what the printed bind says)
        ncalls = _max_calls(self.tree)
        for k in range(ncalls):
            _ctx.raise_at = k
            try:
                t2, _ = explore(run)
            finally:
                _ctx.raise_at = None
            for leaf in _leaves_after_call(t2, k):
                if leaf != ('raise', 'CollaboratorError'):
                    raise Untraceable("an exception raised by collaborator call %d does not propagate unchanged" % k)
        return self

    def eval_tree(self, env, collaborators=None):
        return run_tree(self.tree, env, collaborators)

    def eval_real(self, env):
        try:
            r = self.call(dict(env))
        except Exception as e:      # noqa
            return ('raise', exc_name(e))
        return ('ok', conc_val(r))

    def lean(self):
        def leaf(l):
            if l[0] == 'raise':
                if l[1] not in PYERRS:
                    raise Untraceable("exception class %s has no counterpart in PyErr" % l[1])
                return ".error .%s" % l[1]
            return ".ok (%s)" % lean_val(l[1])
        ps = " ".join(self.params)
        cs = "".join(" (%s : Int → Except PyErr Int)" % c for c in self.collaborators)
        doc = "/-- %s (%d paths) -/\n" % (self.doc or self.name, self.npaths)
        return "%sdef %s%s (%s : Int) : Except PyErr (%s) :=\n%s\n" % (
            doc, self.name, cs, ps, self.lean_type, lean_of_tree(self.tree, leaf))

    def validate(self, rng, n=400, pool=None):
        if self.collaborators:
            return []       # entries with collaborators are validated by their plugin (real objects as collaborators)
        """the traced tree against the real code on concrete points (boundary-biased)"""
        cs = sorted(constants(self.tree))
        base = set(pool or [])
        for c in cs:
            base |= {c - 1, c, c + 1}
        base |= {-1, 0, 1, 2, 7, 8, 15, 16, 17, 23, 24, 25, 63, 64, 255, 256, 4095}
        base = sorted(b for b in base if abs(b) <= 4096)
        widebase = sorted(set(base) | {65535, 65536, (1 << 24) - 1, 1 << 24, (1 << 64) - 1})
        bad = []
        for i in range(n):
            env = {}
            for p in self.params:
                r = rng.random()
                if r < 0.6:
                    env[p] = rng.choice(widebase if p in self.wide else base)
                elif r < 0.9:
                    env[p] = rng.getrandbits(rng.choice([1, 3, 8, 16, 24, 33, 70] if p in self.wide else [1, 3, 5, 6]))
                else:
                    env[p] = -rng.getrandbits(rng.choice([1, 4, 9]))
            a, b = self.eval_tree(env), self.eval_real(env)
            if a != b:
                bad.append((env, a, b))
        return bad
