#!/bin/bash
# tools/benimport5.sh Cxx … — import benign round-5 outputs (/tmp/benr5/Cxx/out/{F,G}) as benign/Cxx-{H,I}
for p in "$@"; do
  for pair in F:H G:I; do
    s=/tmp/benr5/$p/out/${pair%%:*}; d=/verif/benign/$p-${pair##*:}
    if [ -s $s/patch.diff ]; then mkdir -p $d; cp $s/patch.diff $s/equiv.py $s/notes.md $d/ 2>/dev/null; fi
  done
  git -C /repo worktree remove --force /tmp/benr5/$p/wt 2>/dev/null
done
