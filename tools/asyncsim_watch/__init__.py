"""Virtual-time asyncio harness for C16 / C20 (builder drvwatch).

Runs the REAL `dali.driver.hid.tridonic`, `hid.hasseb`, `DriverLubaRs232`,
`DriverSCIRS232` with no change to the repository: `hid.os` is replaced by a
fake module, `add_reader` is overridden by the loop, and
`serial_asyncio.create_serial_connection` is replaced by a function returning a
fake transport.  Time is the loop's virtual clock: when nothing is ready the
clock jumps to the next timer, so a 200 ms bus-watch time-out costs nothing.
"""
import asyncio
import heapq
import struct
import sys
import types


# ---------------------------------------------------------------------------
# the loop

class VLoop(asyncio.SelectorEventLoop):
    def __init__(self):
        super().__init__()
        self._vt = 0.0
        self.readers = {}

    def time(self):
        return self._vt

    def _run_once(self):
        while self._scheduled and self._scheduled[0]._cancelled:
            h = heapq.heappop(self._scheduled)
            h._scheduled = False
            self._timer_cancelled_count -= 1
        if not self._ready and self._scheduled:
            self._vt = max(self._vt, self._scheduled[0]._when)
        if not self._ready and not self._scheduled:
            # nothing can ever happen again: do not block in select()
            raise RuntimeError("virtual loop: every task is blocked and no timer is pending")
        super()._run_once()

    def add_reader(self, fd, cb, *a):
        self.readers[fd] = (cb, a)

    def remove_reader(self, fd):
        return self.readers.pop(fd, None) is not None


def run(coro_fn, *args, spin_limit_s=30):
    """run `coro_fn(loop, *args)` to completion in a fresh virtual-time loop"""
    import common
    loop = VLoop()
    asyncio.set_event_loop(loop)
    try:
        # a scenario costs milliseconds of real time (the clock is virtual); the limit only fires when the code
        # under test spins without awaiting, and then `common.Spin` propagates to the caller of run()
        with common.watchdog(spin_limit_s):
            return loop.run_until_complete(coro_fn(loop, *args))
    finally:
        try:
            pending = [t for t in asyncio.all_tasks(loop) if not t.done()]
            for t in pending:
                t.cancel()
            if pending:
                loop.run_until_complete(asyncio.gather(*pending, return_exceptions=True))
        finally:
            asyncio.set_event_loop(None)
            loop.close()


async def settle(n=6):
    for _ in range(n):
        await asyncio.sleep(0)


# ---------------------------------------------------------------------------
# HID

class FakeOS:
    O_RDWR = 2
    O_NONBLOCK = 2048

    def __init__(self):
        self.written = []
        self.inq = []
        self.on_write = None

    def open(self, p, f):
        return 99

    def write(self, fd, data):
        data = bytes(data)
        self.written.append(data)
        if self.on_write:
            self.on_write(data)
        return len(data)

    def read(self, fd, n):
        return self.inq.pop(0)

    def close(self, fd):
        pass


class OSHub:
    """`hid.os` for SEVERAL drivers in one process (two USB interfaces on two DALI lines): every os.open() hands
    out a new file descriptor bound to the FakeOS of the driver that is connecting; reads and writes are routed
    by descriptor, so each driver talks to its own gateway only."""
    O_RDWR = 2
    O_NONBLOCK = 2048

    def __init__(self):
        self.views = {}
        self.next_fd = 100
        self.connecting = None

    def open(self, p, f):
        fd = self.next_fd
        self.next_fd += 1
        self.views[fd] = self.connecting
        return fd

    def write(self, fd, data):
        return self.views[fd].write(fd, data)

    def read(self, fd, n):
        return self.views[fd].read(fd, n)

    def close(self, fd):
        pass


def _stub_modules():
    for name in ("usb", "usb.core", "usb.util", "hid"):
        if name not in sys.modules:
            try:
                __import__(name)
            except Exception:
                sys.modules[name] = types.ModuleType(name)


RESP = struct.Struct(">BB4sHB55x")


def tri_packet(mode, rtype, frame4=(0, 0, 0, 0), seq=0, interval=0):
    return RESP.pack(mode, rtype, bytes(frame4), interval, seq)


def frame4(bits, data):
    return tuple(data.to_bytes(4, "big"))


class TriSim:
    """a connected hid.tridonic in the current (virtual) loop"""

    def __init__(self, dev_inst_map=None, seq0=None, hub=None):
        _stub_modules()
        from dali.driver import hid
        self.hid = hid
        self.fos = FakeOS()
        self.hub = hub
        hid.os = self.fos if hub is None else hub
        self.d = hid.tridonic("/dev/null-dali", dev_inst_map=dev_inst_map)
        if seq0 is not None:
            # start the driver's sequence numbers at a chosen value where it keeps a counter of that shape; a driver
            # that chooses its numbers differently keeps its own choice (the harnesses read the number from what the
            # driver writes) - whether that choice is sound is for the scenarios to find out, not for this line
            try:
                self.d._cmd_seq = iter(self.d._seqnum(seq0))
            except AttributeError:
                pass
        self.log = []          # (virtual time, raw packet) for everything delivered after connect

    async def start(self):
        loop = asyncio.get_running_loop()
        self.loop = loop
        if self.hub is not None:
            self.hub.connecting = self.fos
        self.d.connect()
        self._push(bytes([1, 0, 0, 1, 2] + [0] * 59))
        await settle(2)
        self._push(bytes([1, 1, 2, 3, 4] + [0] * 59))
        await self.d.connected.wait()
        await settle(2)
        self.fos.written.clear()
        return self

    def _push(self, data):
        self.fos.inq.append(bytes(data))
        self.d._reader()

    def deliver(self, data):
        """a report arrives from the gateway now"""
        self.log.append((self.loop.time(), bytes(data)))
        self._push(data)


class HassebSim:
    def __init__(self):
        _stub_modules()
        from dali.driver import hid
        self.hid = hid
        self.fos = FakeOS()
        hid.os = self.fos
        self.d = hid.hasseb("/dev/null-dali")

    async def start(self):
        self.loop = asyncio.get_running_loop()
        self.d.connect()
        await self.d.connected.wait()
        return self

    def deliver(self, status, byte):
        self.fos.inq.append(bytes([status, byte]))
        self.d._reader()


# ---------------------------------------------------------------------------
# serial

class FakeTransport:
    def __init__(self, loop):
        self.loop = loop
        self.written = []
        self.on_write = None

    def write(self, b):
        b = bytes(b)
        self.written.append(b)
        if self.on_write:
            self.on_write(b)

    def close(self):
        pass


def luba_frame(cmd, payload):
    body = [cmd, len(payload)] + list(payload)
    cs = 0
    for b in body:
        cs ^= b
    return bytes([0x59] + body + [cs])


def luba_event(event_type, event_info, data, tick=0, line=0):
    """LUBA EVENT MESSAGE: tick(2) line(1) status(1) data…"""
    status = ((event_type & 3) << 6) | (event_info & 0x3F)
    return luba_frame(0x31, [tick >> 8, tick & 0xFF, line, status] + list(data))


def luba_rx(data):
    """the gateway saw a frame on the bus"""
    return luba_event(2, 8 * len(data), data)


def luba_txconf(tx_id, data):
    """the gateway transmitted our frame"""
    return luba_event(0, 8 * len(data), [tx_id] + list(data))


def sci_frame(status, d1, d2, d3):
    return bytes([status, d1, d2, d3, status ^ d1 ^ d2 ^ d3])


def sci_rx(data):
    data = list(data)
    if len(data) == 1:
        return sci_frame(0x2, 0, 0, data[0])
    if len(data) == 2:
        return sci_frame(0x3, 0, data[0], data[1])
    return sci_frame(0x8, data[0], data[1], data[2])


class SerialSim:
    """a connected DriverLubaRs232 / DriverSCIRS232 in the current loop"""

    def __init__(self, kind, dev_inst_map=None):
        from dali.driver import serial as ds
        self.ds = ds
        self.kind = kind
        self.dev_inst_map = dev_inst_map
        self.tr = None

    async def start(self):
        ds = self.ds
        loop = asyncio.get_running_loop()
        self.loop = loop
        self.tr = FakeTransport(loop)
        tr = self.tr

        async def fake_create(loop=None, protocol_factory=None, url=None, baudrate=None, **kw):
            p = protocol_factory()
            p.connection_made(tr)
            return tr, p
        ds.serial_asyncio.create_serial_connection = fake_create
        if self.kind == "luba":
            d = ds.DriverLubaRs232("luba232:/dev/null", dev_inst_map=self.dev_inst_map)
            ct = asyncio.ensure_future(d.connect())
            await settle(3)
            d._protocol.data_received(luba_frame(
                0x21, [0] * 6 + [0] * 8 + [1, 2] + list((24166096).to_bytes(4, "big"))))
            await settle(3)
            d._protocol.data_received(luba_frame(0x2B, [0, 0b00010010, 0]))
            await ct
        else:
            d = ds.DriverSCIRS232("scirs232:/dev/null", dev_inst_map=self.dev_inst_map)
            ct = asyncio.ensure_future(d.connect())
            await settle(3)
            d._protocol.data_received(sci_frame(0x10, 0, 0, 0))
            await ct
        self.d = d
        self.p = d._protocol
        tr.written.clear()
        return self

    def feed(self, data, chunks=None):
        """bytes arrive; `chunks` = list of chunk lengths (default: one call)"""
        data = bytes(data)
        if not chunks:
            self.p.data_received(data)
            return
        i = 0
        for n in chunks:
            if i >= len(data):
                break
            self.p.data_received(data[i:i + n])
            i += n
        if i < len(data):
            self.p.data_received(data[i:])

    def rx(self, data):
        self.feed(luba_rx(data) if self.kind == "luba" else sci_rx(data))

    def auto_confirm(self, delay):
        """the gateway confirms every frame it is asked to send, `delay` seconds after the write"""
        self.tr.on_write = lambda b: self.loop.call_later(delay, self.confirm, b)

    def confirm(self, written):
        """the gateway confirms the frame it was asked to send (`written` = bytes of our write)"""
        for rep in self.confirmations(written):
            self.feed(rep)

    def frame_of_write(self, written):
        """the DALI frame bytes in one of our writes"""
        if self.kind == "luba":
            return bytes(written[6:6 + written[4] // 8])
        n = {2: 1, 3: 2, 8: 3}[written[0] & 0x0F]
        return bytes(written[1:1 + n])

    def confirmations(self, written):
        """the gateway's "frame sent" report(s) for one of our writes, as separate byte strings"""
        if self.kind == "luba":
            data = list(self.frame_of_write(written))
            twice = bool(written[5] & 0x80)
            return [luba_txconf(7, data) for _ in range(2 if twice else 1)]
        return [sci_frame(0x10, 0, 0, 0)]

    def outcome_report(self, bus):
        """what the gateway reports for the bus outcome after our frame: nothing (silence), the 8-bit
        backward frame, or the framing error it only reports as an error event"""
        if bus == "s":
            return []
        if bus == "g":
            return [luba_event(2, 63, []) if self.kind == "luba" else sci_frame(0x17, 0, 0, 3)]
        return [luba_rx([int(bus[1:])]) if self.kind == "luba" else sci_rx([int(bus[1:])])]
