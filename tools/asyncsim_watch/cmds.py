"""Real commands used by the C16 / C20 harnesses, found by decoding frames
with the library's own `from_frame` (no dependency on another builder's
command model)."""


class ClassIds:
    """opaque numbers for response classes (the Lean side only compares them)"""

    def __init__(self):
        self.ids = {}
        self.names = {}

    def __call__(self, cls):
        if cls is None:
            return None
        if cls not in self.ids:
            self.ids[cls] = len(self.ids) + 1
            self.names[self.ids[cls]] = cls.__module__ + "." + cls.__qualname__
        return self.ids[cls]

    def tok(self, cls):
        return "-" if cls is None else str(self(cls))


def ensure_registry():
    """import every command module so that from_frame knows all commands"""
    import dali.gear.general  # noqa
    import dali.device.general  # noqa
    import importlib
    import pkgutil
    import dali.gear
    import dali.device
    for pkg in (dali.gear, dali.device):
        for m in pkgutil.iter_modules(pkg.__path__):
            try:
                importlib.import_module(pkg.__name__ + "." + m.name)
            except Exception:
                pass


def catalogue(rng, per_class=1):
    """one instance per concrete command class reachable by decoding a
    structured set of frames: {class: (command, devicetype used)}"""
    ensure_registry()
    from dali import command, frame
    found = {}

    def try_frame(bits, data, dt):
        try:
            c = command.from_frame(frame.ForwardFrame(bits, data), devicetype=dt)
        except Exception:
            return
        k = type(c)
        if k not in found:
            found[k] = c
    his = [0x01, 0x03, 0x7F, 0x81, 0x9F, 0xFF, 0xFD, 0xFE, 0x00] + list(range(0xA1, 0xCD, 2)) + [0xCD, 0xEF]
    for hi in his:
        for lo in range(256):
            try_frame(16, (hi << 8) | lo, 0)
    for dt in range(1, 60):
        for hi in (0x01, 0xFF):
            for lo in range(224, 256):
                try_frame(16, (hi << 8) | lo, dt)
    for b0 in (0x01, 0x7F, 0x81, 0xFF, 0xFD, 0xC1, 0xC5, 0xC9, 0xCB, 0xFE):
        for b1 in (0xFE, 0xFF, 0x00, 0x1F, 0x80, 0x9F, 0xC0, 0xDF):
            for b2 in range(256):
                try_frame(24, (b0 << 16) | (b1 << 8) | b2, 0)
    for _ in range(3000):
        try_frame(24, rng.randrange(1 << 24), 0)
    return found


def kinds(found):
    """representative commands by (width, query?, send-twice?, devicetype≠0)"""
    res = {}
    for cls, c in found.items():
        key = (len(c.frame), c.response is not None, bool(c.sendtwice), c.devicetype != 0)
        res.setdefault(key, c)
    return res
