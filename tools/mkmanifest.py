"""Regenerate MANIFEST.json from the property modules present in tools/props."""
import importlib, json, os, sys
sys.path.insert(0, os.path.dirname(os.path.abspath(__file__)))
import common

ALL = ["C%02d" % i for i in range(1, 21)]
checks, na = [], []
CLAIMED = set((common.VERIF / "tools" / "claimed.txt").read_text().split())
for pid in ALL:
    if pid not in CLAIMED:
        na.append({"property_id": pid, "reason": "check not finished yet (work in progress; see DESIGN.md §8a order of work)"})
        continue
    try:
        m = importlib.import_module("props." + pid.lower())
    except ModuleNotFoundError:
        na.append({"property_id": pid, "reason": "check not built yet (work in progress; see DESIGN.md §8a order of work)"})
        continue
    if getattr(m, "NOT_CLAIMED", None):
        na.append({"property_id": pid, "reason": m.NOT_CLAIMED})
        continue
    checks.append({
        "property_id": pid,
        "quick_cmd": "./check %s --tier quick" % pid,
        "thorough_cmd": "./check %s --tier thorough" % pid,
        "evidence_file": "evidence/%s.json" % pid,
        "replay_cmd_template": "./check %s --replay {path}" % pid,
        "engine": "lean4-proof+correspondence",
        "level_claimed": {
            "category": "proof",
            "text": m.LEVEL_TEXT,
            "design_ref": "DESIGN.md §6 " + pid,
        },
        "level_note": m.LEVEL_NOTE,
        "technique": m.TECHNIQUE,
    })
man = {
    "version": 1,
    "setup_cmd": "./setup.sh",
    "hooks": {
        "guard": "PYTHON_DALI_VERIF",
        "enable": "no hooks are installed in /repo: registries are read by reflection, transports/locks are substituted from outside (DESIGN.md §9)",
        "baseline_off_cmd": "cd /repo && /venv/bin/python -m pytest -ra -q -p no:cacheprovider --timeout=900 --continue-on-collection-errors",
        "source_commits": [],
        "add_only": True,
    },
    "engines": [{
        "name": "lean4-proof+correspondence",
        "path": "lean/ (models, specs, proofs), tools/ (translator, correspondence harnesses, check pipeline)",
        "serves_properties": [c["property_id"] for c in checks],
        "kind_free_text": "Lean 4 theorems about executable models; models tied to /repo on every run by a data translator (tools/extract.py) and by differential execution against compiled model drivers",
    }],
    "checks": checks,
    "not_applicable": na,
    "notes": "One entry point: ./check Cxx --tier quick|thorough. A broken proof obligation or correspondence triggers a failing-input search on the real code; see DESIGN.md §4.",
}
json.dump(man, open(common.VERIF / "MANIFEST.json", "w"), indent=1)
print("claimed:", [c["property_id"] for c in checks])
