"""tools/benigncross.py [name …]  — run, against each kept BEHAVIOUR-PRESERVING change (benign/<id>/patch.diff), the
checks of every OTHER property that is anchored in a file the change touches (the change's own property is what
tools/benignrun.py runs).  Every check must stay quiet.  Results: benign/<id>/cross.json."""
import glob, json, os, re, subprocess, sys
VERIF = os.path.dirname(os.path.dirname(os.path.abspath(__file__)))
anch = {}
for l in open(VERIF + "/properties.jsonl"):
    p = json.loads(l)
    anch[p["id"]] = set(p["anchors"]["files"])
# code that every command-level property goes through although its anchors name only some of the files
SHARED = {"dali/frame.py": ["C01", "C02", "C03", "C04", "C05", "C06"],
          "dali/address.py": ["C01", "C02", "C03", "C04", "C12"],
          "dali/command.py": ["C01", "C02", "C03", "C06", "C12", "C16", "C18"]}
args = sys.argv[1:]
for d in sorted(glob.glob(VERIF + "/benign/*")):
    name = os.path.basename(d)
    own = name.split("-")[0]
    if args and name not in args and own not in args:
        continue
    files = set(re.findall(r"^\+\+\+ b/(\S+)", open(d + "/patch.diff").read(), flags=re.M))
    props = sorted({p for p, fs in anch.items() if fs & files} | {p for f in files for p in SHARED.get(f, [])})
    props = [p for p in props if p != own]
    if not props:
        continue
    wt = "/tmp/bencross_%d" % os.getpid()
    subprocess.run(["git", "-C", "/repo", "worktree", "add", "--detach", wt, "main"], capture_output=True)
    res = {}
    try:
        ap = subprocess.run(["git", "apply", d + "/patch.diff"], cwd=wt, capture_output=True, text=True)
        if ap.returncode:
            print(name, "DOES-NOT-APPLY"); continue
        for p in props:
            env = dict(os.environ, VERIF_REPO=wt, VERIF_SEED=os.environ.get("VERIF_SEED", "0"))
            c = subprocess.run([VERIF + "/check", p], cwd=VERIF, env=env, capture_output=True, text=True)
            viol = [l for l in c.stdout.splitlines() if "VIOLATION" in l]
            res[p] = {"rc": c.returncode, "quiet": c.returncode == 0 and not viol, "violation": viol[:1],
                      "tail": c.stdout.splitlines()[-6:]}
            print(name, p, "QUIET" if res[p]["quiet"] else "ALARM rc=%d %s" % (c.returncode, viol[:1]), flush=True)
        json.dump(res, open(d + "/cross.json", "w"), indent=1)
    finally:
        subprocess.run(["git", "-C", "/repo", "worktree", "remove", "--force", wt], capture_output=True)
