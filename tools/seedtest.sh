#!/bin/sh
# tools/seedtest.sh <PROP> <dir with patch.diff and demo.py> : verify a seeded change and run the check against it.
# Uses a scratch worktree of /repo under /tmp, removed afterwards.  Prints a JSON summary.
prop=$1; dir=$(cd "$2" && pwd); wt=/tmp/seedwt_$$
here=$(cd "$(dirname "$0")/.." && pwd)
git -C /repo worktree add --detach "$wt" main >/dev/null 2>&1 || exit 2
cd "$wt" || exit 2
PYTHONPATH="$wt" /venv/bin/python "$dir/demo.py" >/tmp/seed_demo_clean.$$ 2>&1; demo_clean=$?
if ! git apply "$dir/patch.diff" 2>/tmp/seed_apply.$$; then echo "{\"prop\":\"$prop\",\"applies\":false}"; cat /tmp/seed_apply.$$; cd /; git -C /repo worktree remove --force "$wt"; exit 1; fi
/venv/bin/python -m pytest -q -p no:cacheprovider dali/tests >/tmp/seed_pytest.$$ 2>&1; suite=$?
PYTHONPATH="$wt" /venv/bin/python "$dir/demo.py" >/tmp/seed_demo_mut.$$ 2>&1; demo_mut=$?
cd "$here" && VERIF_REPO="$wt" VERIF_SEED=${VERIF_SEED:-0} ./check "$prop" >/tmp/seed_check.$$ 2>&1; chk=$?
viol=$(grep VIOLATION /tmp/seed_check.$$ | head -1)
echo "{\"prop\":\"$prop\",\"applies\":true,\"suite_rc\":$suite,\"suite\":\"$(tail -1 /tmp/seed_pytest.$$)\",\"demo_clean_rc\":$demo_clean,\"demo_mutated_rc\":$demo_mut,\"check_rc\":$chk,\"violation\":\"$viol\"}"
cp /tmp/seed_check.$$ "$dir/check_output.txt" 2>/dev/null
cd /; git -C /repo worktree remove --force "$wt"
rm -f /tmp/seed_*.$$
