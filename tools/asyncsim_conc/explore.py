"""Schedule exploration: stateless DFS over the environment's choices at every
quiescent point (each run re-executes the real driver from scratch under a
choice prefix), seeded random walks, and replay of a recorded schedule."""
from .sim import Sim


def run_schedule(cfg, schedule):
    """replay a recorded schedule (list of choice tuples); choices not offered -> first"""
    it = iter(schedule)

    def chooser(ch, sim):
        want = next(it, None)
        if want is not None:
            want = tuple(want)
            for i, c in enumerate(ch):
                if tuple(c) == want:
                    return i
        return 0
    return Sim(cfg).run(chooser)


def dfs(cfg, visit, max_runs=None, max_depth=None):
    """visit(sim) for every schedule (or the first max_runs in DFS order).
    Returns (runs, exhausted)."""
    prefix = []
    runs = 0
    while True:
        taken, widths = [], []

        def chooser(ch, sim):
            d = len(taken)
            i = prefix[d] if d < len(prefix) else 0
            if i >= len(ch):
                i = 0
            taken.append(i)
            widths.append(len(ch) if (max_depth is None or d < max_depth) else 1)
            return i
        sim = Sim(cfg).run(chooser)
        runs += 1
        if visit(sim) is False:
            return runs, False
        # next prefix
        k = len(taken) - 1
        while k >= 0 and taken[k] + 1 >= widths[k]:
            k -= 1
        if k < 0:
            return runs, True
        prefix = taken[:k] + [taken[k] + 1]
        if max_runs is not None and runs >= max_runs:
            return runs, False


def random_walks(cfg, visit, rng, n, bias=None):
    """n seeded random schedules; `bias(choice) -> weight`"""
    for _ in range(n):
        def chooser(ch, sim):
            if bias is None:
                return rng.randrange(len(ch))
            w = [max(0.0, bias(c, sim)) for c in ch]
            tot = sum(w)
            if tot <= 0:
                return rng.randrange(len(ch))
            x = rng.random() * tot
            for i, wi in enumerate(w):
                x -= wi
                if x <= 0:
                    return i
            return len(ch) - 1
        sim = Sim(dict(cfg, budget=dict(cfg.get("budget", {})))).run(chooser)
        if visit(sim) is False:
            return False
    return True


FAULT_KINDS = ("lose", "trunc", "drop", "cancel")
_AFTER = {"back": 0, "start": 1, "deliver": 2, "timer": 3, "connect": 4}


def sweep(cfg, visit, faults=FAULT_KINDS, second=False, sequential=False):
    """single-fault sweep: take the fault-free run (always the first choice offered: start, then deliver, then
    timer) and, for EVERY quiescent point of it and EVERY fault choice offered there, one run that follows the
    fault-free run up to that point, injects the fault and then lets the environment recover (device back, reports
    delivered, timers fired; no second fault unless `second`).  Linear in the length of the run, so no injection
    point is left to the luck of the DFS budget or of the random walks.  `sequential`: the fault-free run starts a
    caller only when nothing else can happen (callers one after the other) instead of all at once (queued on the
    lock).  Returns the number of runs."""
    def base_choice(ch):
        if not sequential:
            return 0
        ok = [j for j, c in enumerate(ch) if c[0] not in faults]
        if not ok:
            return 0
        return min(ok, key=lambda j: ({"deliver": 0, "timer": 1, "start": 2}.get(ch[j][0], 9), j))

    def run(pos, which):
        n = [0]
        offered = []

        def chooser(ch, sim):
            i = n[0]
            n[0] += 1
            fl = [j for j, c in enumerate(ch) if c[0] in faults]
            if i < pos:
                return base_choice(ch)
            if i == pos:
                offered.extend(fl)
                if which < len(fl):
                    return fl[which]
                return base_choice(ch)
            ok = [j for j, c in enumerate(ch) if c[0] not in faults or second]
            if not ok:
                return 0
            return min(ok, key=lambda j: (_AFTER.get(ch[j][0], 9), j))
        sim = Sim(dict(cfg, budget=dict(cfg.get("budget", {})))).run(chooser)
        return sim, n[0], len(offered)

    base, length, _ = run(10 ** 9, 0)
    runs = 1
    if visit(base) is False:
        return runs
    for pos in range(length):
        which = 0
        while True:
            sim, _, nf = run(pos, which)
            if which >= nf:
                break
            runs += 1
            if visit(sim) is False:
                return runs
            which += 1
    return runs
