"""Conforming gateway models on the far side of the fake hidraw fd / serial
transport.  Each decodes what the real driver writes into a DALI frame
(bits, value, send-twice) for the wire trace, and queues the reports a real
gateway would send back.  Reports are *queued*, never delivered on their own:
the schedule explorer decides when (and, for silence faults, whether) each one
reaches the driver.

Only as much of each wire format as the concurrency/fault protocol needs is
here; the byte-level formats themselves are property C18/C19's business.
"""
import struct


class Report:
    __slots__ = ("data", "kind", "seq", "tag")

    def __init__(self, data, kind, seq=None, tag=None):
        self.data, self.kind, self.seq, self.tag = data, kind, seq, tag

    def __repr__(self):
        return "<%s%s>" % (self.kind, "" if self.seq is None else " seq=%d" % self.seq)


class GatewayBase:
    """answer(bits, value) -> None (command has no answer slot) | 'no' | int 0..255"""

    def __init__(self, sim, answer):
        self.sim = sim
        self.answer = answer
        self.pending = []        # reports the gateway still owes, FIFO
        self.present = True      # device plugged in
        self.wfail = False       # next write fails (and the device is gone)
        self.silent = False      # serial: the gateway stopped talking (mid-frame); it queues no further report

    def clear(self):
        self.pending = []


# --------------------------------------------------------------------------
# HID: a fake `os` module, one instance per simulation
# --------------------------------------------------------------------------

class FakeOS:
    """Stands in for the `os` module inside dali.driver.hid."""
    O_RDWR = 2
    O_NONBLOCK = 2048

    def __init__(self, gw):
        self.gw = gw
        self.next_fd = 100
        self.fd = None
        self.inq = []
        self.read_error = False

    def open(self, path, flags):
        self.gw.sim.rec("drv", "open", "ok" if self.gw.present else "fail")
        if not self.gw.present:
            raise OSError(19, "No such device")
        self.next_fd += 1
        self.fd = self.next_fd
        self.inq = []
        self.read_error = False
        self.gw.clear()
        return self.fd

    def close(self, fd):
        if fd == self.fd:
            self.fd = None

    def read(self, fd, n):
        if fd is None or fd != self.fd:
            raise TypeError("read on a closed/None fd")
        if self.read_error:
            raise OSError(5, "Input/output error")
        if not self.gw.present or not self.inq:
            return b""
        return self.inq.pop(0)

    def write(self, fd, data):
        if not isinstance(fd, int):
            # what the real os.write does with fd=None
            raise TypeError("an integer is required (got %r)" % (fd,))
        if fd != self.fd:
            raise OSError(9, "Bad file descriptor")
        if self.gw.wfail or not self.gw.present:
            self.gw.wfail = False
            self.gw.present = False
            self.gw.clear()
            self.gw.sim.rec(self.gw.sim.cur(), "wfail")
            self.gw.sim.device_vanished(fd)
            raise OSError(19, "No such device")
        self.gw.on_write(bytes(data))
        return len(data)


class TridonicGW(GatewayBase):
    kind = "tridonic"
    _resp = struct.Struct(">BB4sHB55x")

    def on_write(self, data):
        sim = self.sim
        cmd = data[0]
        if cmd == 0x01:                        # INIT
            if data[1] == 0x00:
                sim.rec("drv", "hswrite", "version")
                self.pending.append(Report(bytes([1, 0, 0, 1, 2] + [0] * 59), "hs-version"))
            elif data[1] == 0x02:
                sim.rec("drv", "hswrite", "serial")
                self.pending.append(Report(bytes([1, 1, 2, 3, 4] + [0] * 59), "hs-serial"))
            return
        if cmd != 0x12:
            sim.rec(sim.cur(), "write-other", data[:8].hex())
            return
        seq, ctrl, mode = data[1], data[2], data[3]
        bits = {2: 8, 3: 16, 6: 24}.get(mode)
        value = int.from_bytes(data[4:8], "big")
        twice = bool(ctrl & 0x20)
        sim.wire_write(bits, value, twice, seq=seq)
        echo = 0x73 if bits == 16 else 0x76
        for _ in range(2 if twice else 1):
            self.pending.append(Report(self._resp.pack(0x12, echo, data[4:8], 0, seq), "echo", seq))
        a = self.answer(bits, value)
        if isinstance(a, int):
            self.pending.append(Report(self._resp.pack(0x12, 0x72, bytes([0, 0, 0, a]), 0, seq), "answer", seq))
        else:
            self.pending.append(Report(self._resp.pack(0x12, 0x71, bytes(4), 0, seq), "answer", seq))

    def noise(self):
        """an unsolicited report: another master's frame observed on the bus"""
        return Report(self._resp.pack(0x11, 0x73, bytes([0, 0, 0x01, 0x00]), 0, 0), "noise")


class HassebGW(GatewayBase):
    kind = "hasseb"

    def on_write(self, data):
        bits = 8 * len(data)
        value = int.from_bytes(data, "big")
        # a send-twice (configuration) command is simply written twice and has no answer
        self.sim.wire_write(bits, value, False)
        a = self.answer(bits, value)
        if a is None:
            return
        if isinstance(a, int):
            self.pending.append(Report(bytes([2, a]), "answer"))
        else:
            self.pending.append(Report(bytes([1, 0]), "answer"))

    def noise(self):
        return Report(bytes([0, 0]), "noise")        # NO_DATA_AVAILABLE, sent continuously when idle


# --------------------------------------------------------------------------
# serial
# --------------------------------------------------------------------------

class FakeTransport:
    def __init__(self, gw, loop):
        self.gw, self.loop = gw, loop

    def write(self, b):
        self.gw.on_write(bytes(b))

    def close(self):
        pass


def _luba(cmd, payload):
    body = [cmd, len(payload)] + list(payload)
    cs = 0
    for b in body:
        cs ^= b
    return bytes([0x59] + body + [cs])


class LubaGW(GatewayBase):
    kind = "luba"

    def __init__(self, sim, answer):
        super().__init__(sim, answer)
        self.txid = 0

    def on_write(self, data):
        sim = self.sim
        cmd = data[1]
        if cmd == 0x20:
            sim.rec("drv", "hswrite", "info")
            self.pending.append(Report(_luba(0x21, [0] * 6 + [0] * 8 + [1, 2] + list((24166096).to_bytes(4, "big"))),
                                       "hs-info"))
            return
        if cmd == 0x2A:
            sim.rec("drv", "hswrite", "settings")
            self.pending.append(Report(_luba(0x2B, [data[3], data[4], data[5]]), "hs-settings"))
            return
        if cmd != 0x32:
            sim.rec(sim.cur(), "write-other", data.hex())
            return
        nbits, mode = data[4], data[5]
        fb = list(data[6:6 + nbits // 8])
        value = int.from_bytes(bytes(fb), "big")
        twice = bool(mode & 0x80)
        sim.wire_write(nbits, value, twice)
        if self.silent:
            return
        self.txid = (self.txid + 1) & 0xFF
        # "accepted" response, then one "frame sent" event per transmission, then the backward frame
        self.pending.append(Report(_luba(0x33, [self.txid, 0]), "accept"))
        for _ in range(2 if twice else 1):
            self.pending.append(Report(_luba(0x31, [0, 0, 0, 0, self.txid] + fb), "confirm"))
        a = self.answer(nbits, value)
        if isinstance(a, int):
            self.pending.append(Report(_luba(0x31, [0, 0, 0, (2 << 6) | 8, a]), "answer"))

    def noise(self):
        # another master's 16-bit forward frame observed on the bus
        return Report(_luba(0x31, [0, 0, 0, (2 << 6) | 16, 0x01, 0x00]), "noise")


def _sci(status, hi, mi, lo):
    return bytes([status, hi, mi, lo, status ^ hi ^ mi ^ lo])


class SciGW(GatewayBase):
    kind = "sci"

    def on_write(self, data):
        sim = self.sim
        ctl = data[0]
        mode = ctl & 0x0F
        if ctl & 0x40 and mode == 2 and data[1:4] == b"\0\0\0":
            sim.rec("drv", "hswrite", "info")
            self.pending.append(Report(_sci(0x10, 0, 0, 0), "hs-info"))
            return
        twice = bool(ctl & 0x10)
        if mode == 3:
            bits, value = 16, (data[1] << 8) | data[2]
        elif mode == 8:
            bits, value = 24, (data[1] << 16) | (data[2] << 8) | data[3]
        else:
            bits, value = 8, data[1]
        sim.wire_write(bits, value, twice)
        if self.silent:
            return
        a = self.answer(bits, value)
        if isinstance(a, int):
            self.pending.append(Report(_sci(0x10, 0, 0, 0), "confirm"))
            self.pending.append(Report(_sci(0x12, 0, 0, a), "answer"))
        elif a == "no":
            self.pending.append(Report(_sci(0x11, 0, 0, 0), "confirm"))
        else:
            self.pending.append(Report(_sci(0x10, 0, 0, 0), "confirm"))

    def noise(self):
        return Report(_sci(0x13, 0, 0x01, 0x00), "noise")
