"""The property statements of C15 / C17 evaluated directly on one finished
simulation of the REAL driver (independent of the Lean model).  Each failed
statement is returned as (key, expected, observed); the key is the stable
identifier used in known_findings.txt."""

EDT_HI = 0xC1


def expected_unit(sim, c, edt_in_send=True):
    """frames (bits, value, twice) one caller's program puts on the wire when nothing fails"""
    out = []
    for it in c.items():
        cmd = sim.cmds.get((c.tid, it)) if isinstance(it, str) else None
        if cmd is None:
            continue
        f = cmd.frame
        if cmd.devicetype != 0:
            out.append((16, (EDT_HI << 8) | cmd.devicetype, False))
        n = 2 if (cmd.sendtwice and sim.kind == "hasseb") else 1
        for _ in range(n):
            out.append((len(f), f.as_integer, bool(cmd.sendtwice) and sim.kind != "hasseb"))
        if c.opts.get("boom") is not None:
            pass
    return out


def check_c15(sim, faulty):
    pr = []
    drv = sim.kind
    holder = None
    units = []          # (tid, [frames]) in wire order, one per acq..rel region
    cur = None
    last_wire = None    # (tid, bits, value)
    for ev in sim.events:
        t, who, what = ev[0], ev[1], ev[2]
        if what == "acq":
            if holder is not None:
                pr.append(("mutex:" + drv, "transaction_lock acquired only when free",
                           "caller %s acquired while %s holds it" % (who, holder)))
            holder = who
            cur = (who, [])
            units.append(cur)
        elif what == "rel":
            if holder != who:
                pr.append(("mutex:" + drv, "release by the holder", "caller %s released, holder %s" % (who, holder)))
            holder = None
            cur = None
        elif what == "write":
            bits, value, twice = ev[3], ev[4], ev[5]
            if holder != who or cur is None:
                pr.append(("contig:" + drv, "every frame is written by the lock holder",
                           "caller %s wrote %d:%#x while holder is %s" % (who, bits, value, holder)))
            else:
                cur[1].append((bits, value, twice))
            ent = sim.frames.get((bits, value))
            if ent is not None and ent[2].devicetype != 0:
                dt = ent[2].devicetype
                want = (who, 16, (EDT_HI << 8) | dt)
                # a send-twice frame the hasseb driver writes twice counts once
                repeat_ok = drv == "hasseb" and bool(ent[2].sendtwice) and last_wire == (who, bits, value)
                if last_wire != want and not repeat_ok:
                    c = sim.callers[who] if isinstance(who, int) and who < len(sim.callers) else None
                    kind = c.kind if c else "send"
                    pr.append(("edt:%s:%s" % (drv, kind),
                               "frame %d:%#06x (device type %d) immediately preceded by the same caller's "
                               "EnableDeviceType(%d)" % (bits, value, dt, dt),
                               "preceded by %s" % (last_wire,)))
            if ent is not None and ent[0] != who and ent[0] != 100:
                pr.append(("contig:" + drv, "a caller writes only its own frames",
                           "caller %s wrote caller %s's frame" % (who, ent[0])))
            last_wire = (who, bits, value)
    # whole units: a caller that completed normally in a fault-free run produced exactly its program
    if not faulty:
        for c in sim.callers:
            if c.done and c.result[0] == "ok":
                mine = [u[1] for u in units if u[0] == c.tid]
                exp = expected_unit(sim, c)
                if drv in ("luba", "sci") and c.kind == "send":
                    alt = [f for f in exp if (f[1] >> 8) != EDT_HI or f[0] != 16]
                else:
                    alt = None
                got = mine[0] if len(mine) == 1 else mine
                if got != exp and not (alt is not None and got == alt):
                    pr.append(("unit:" + drv, "one contiguous unit %s" % (exp,), "units %s" % (mine,)))
    # the serial drivers never retransmit: also in a faulty run (late / lost confirmation, cancellation) a caller
    # puts no frame on the wire more often than its program contains it, and what it wrote is a prefix of its unit
    if drv in ("luba", "sci"):
        for c in sim.callers:
            if not c.started:
                continue
            mine = [f for u in units if u[0] == c.tid for f in u[1]]
            exp = expected_unit(sim, c)
            alt = [f for f in exp if (f[1] >> 8) != EDT_HI or f[0] != 16] if c.kind == "send" else exp
            if mine != exp[:len(mine)] and mine != alt[:len(mine)]:
                pr.append(("unit-prefix:" + drv, "what a caller wrote is a prefix of its unit %s" % (exp,),
                           "wrote %s" % (mine,)))
    # sequences are closed and the lock released whatever the exit
    for c in sim.callers:
        if c.kind == "seq" and c.done and c.seqwrap is not None and c.seqwrap.started and not c.seqwrap.closed:
            pr.append(("close:" + drv, "a started sequence is closed on every exit", "caller %d: not closed" % c.tid))
    return pr


def check_retry_units(sim):
    """A send that is retried after a communication failure (HID, exceptions off) starts its unit again from the
    top: what one caller put on the wire inside its locked region is attempt_1 ++ ... ++ attempt_n, every attempt a
    non-empty prefix of the caller's unit (EnableDeviceType first when the command needs a device type) and, when
    the caller got a result, the last attempt the whole unit.  A retry that re-sends the bare command (or the prefix
    alone) is not a prefix of the unit."""
    pr = []
    if not sim.is_hid:
        return pr
    drv = sim.kind
    for c in sim.callers:
        if not c.started or c.kind != "send":
            continue
        exp = expected_unit(sim, c)
        mine = [(w[1], w[2], w[3]) for w in sim.wire if w[0] == c.tid]
        if not exp or not mine:
            continue
        states = {0}
        bad = None
        for i, f in enumerate(mine):
            new = {j + 1 for j in states if j < len(exp) and exp[j] == f}
            if exp[0] == f and any(j >= 1 for j in states):
                new.add(1)
            if not new:
                bad = i
                break
            states = new
        whole = c.done and c.result[0] == "ok"
        if bad is not None:
            pr.append(("retry:" + drv,
                       "caller %d: every (re)transmission starts its unit %s from the top" % (c.tid, _fr(exp)),
                       "wrote %s: frame #%d %s does not continue or restart the unit" % (_fr(mine), bad, _fr([mine[bad]]))))
        elif whole and len(exp) not in states:
            pr.append(("retry:" + drv,
                       "caller %d got a result, so its last transmission is the whole unit %s" % (c.tid, _fr(exp)),
                       "wrote %s" % _fr(mine)))
    return pr


def _fr(frames):
    return "[" + ", ".join("%d:%#x%s" % (f[0], f[1], "x2" if f[2] else "") for f in frames) + "]"


def check_retried_results(sim):
    """HID, nothing cancelled: a caller that gets a result gets the answer to ITS OWN command, also when the command
    had to be retried after a loss (the bus model answers a device-type command only behind its EnableDeviceType)"""
    pr = []
    if not sim.is_hid or any(e[1] == "env" and e[2] in ("cancel", "drop") for e in sim.events):
        return pr
    from .sim import ANSWERS
    for c in sim.callers:
        if not c.done or c.result[0] != "ok":
            continue
        items = [it for it in c.items() if isinstance(it, str) and (c.tid, it) in sim.cmds]
        got = [c.result[1]] if c.kind == "send" else list(c.result[1])
        for it, r in zip(items, got):
            if it not in ANSWERS:
                continue
            cmd = sim.cmds[(c.tid, it)]
            want = "%s:%d" % (cmd.response.__name__, (ANSWERS[it] + c.tid) & 0xFF)
            if r != want:
                bare = [b for b in sim.bare_dt_frames if b[0] == c.tid]
                pr.append(("result:" + sim.kind, "caller %d %s -> %s (its own command's answer)" % (c.tid, it, want),
                           "%s%s" % (r, "; frames that reached the bus without EnableDeviceType: %s" % bare if bare else "")))
    return pr


def check_serial_deadline(sim):
    """serial: from the moment a caller has the transaction lock, every command of it ends - confirmed, answered,
    'no answer' or TimeoutError - within the documented timeouts (timeout_tx_confirm per transmission, timeout_rx for
    the answer), whatever the gateway does or stops doing"""
    pr = []
    if sim.is_hid or sim.hang:
        return pr
    drv = sim.kind
    t_conf, t_rx = sim.timeouts
    for c in sim.callers:
        if not c.done:
            continue
        acq = [e[0] for e in sim.events if e[1] == c.tid and e[2] == "acq"]
        if not acq:
            continue
        allow = 0.0
        for it in c.items():
            if isinstance(it, tuple) and it[0] == "sleep":
                allow += it[1]
            cmd = sim.cmds.get((c.tid, it)) if isinstance(it, str) else None
            if cmd is None:
                continue
            n = 2 if cmd.sendtwice else 1
            allow += n * t_conf + (t_rx if cmd.response is not None else 0)
            if cmd.devicetype != 0:
                allow += t_conf
        if c.t_done - acq[0] > allow + 1e-6:
            pr.append(("timeout:" + drv, "caller %d done within %.3f s of getting the lock" % (c.tid, allow),
                       "after %.3f s" % (c.t_done - acq[0])))
    return pr


def check_end(sim):
    pr = []
    drv = sim.kind
    if sim.hang:
        stuck = getattr(sim, "unfinished", None)
        if stuck is None:
            stuck = [c.tid for c in sim.callers if c.started and not c.done]
        if getattr(sim, "spin", False):
            pr.append(("hang:" + drv, "every caller completes (or fails) and the lock is free at the end",
                       "the driver ran for seconds of real time without returning to the event loop (a busy loop: "
                       "virtual time does not advance, no other caller, timer or report can be served); callers "
                       "%s never completed" % (stuck,)))
            return pr
        pr.append(("hang:" + drv, "every caller completes (or fails) and the lock is free at the end",
                   "callers %s never completed: no report, no timer and no other event is left that could wake them; "
                   "end state %s" % (stuck, getattr(sim, "end_state", None))))
        return pr
    o = sim.end_state
    if sim.waiting:
        # callers legitimately wait for an absent device (exceptions off / queued): nothing to check
        return pr
    if o["lock"] or o["lock_waiters"]:
        pr.append(("lockfree:" + drv, "transaction_lock free at the end", str(o)))
    if not o["inner_free"]:
        pr.append(("leak:%s:inner" % drv, "inner serialiser free at the end", str(o)))
    if o["outstanding"]:
        pr.append(("leak:%s:outstanding" % drv, "_outstanding empty when nothing is in flight",
                   "entries %s" % o["outstanding"]))
    fr = getattr(sim, "follow_results", None)
    if fr is not None:
        bad = [r for r in fr if r[0] != "ok"]
        want = "ok", "NumericResponseMask:%d" % ((0x40 + 100) & 0xFF)
        wrong = [r for r in fr if r[0] == "ok" and r[1] != want[1]]
        if bad:
            pr.append(("wrap:" + drv, "%d further sends complete" % sim.cfg.get("follow", 0),
                       "send #%d -> %s" % (bad[0][1], bad[0][2] if len(bad[0]) > 2 else bad[0][0])))
        elif wrong and not sim.late:
            cancelled = any(e[1] == "env" and e[2] == "cancel" for e in sim.events)
            pr.append((("xtalk-cancel:" if cancelled and drv != "tridonic" else "result:") + drv, "follow-up answer " + want[1], wrong[0][1]))
    return pr


def check_refusals(sim):
    """a frame length the gateway cannot carry (hasseb: anything but 16 bits) is refused at once in every send
    mode: the caller ends with UnsupportedFrameTypeError, none of its 24-bit frames reaches the wire"""
    pr = []
    if sim.kind != "hasseb" or not sim.cfg.get("unsupported") or sim.hang:
        return pr
    for c in sim.callers:
        if "dev" not in [it for it in c.items() if isinstance(it, str)]:
            continue
        if c.started and (not c.done or c.result != ("err", "UnsupportedFrameTypeError")):
            pr.append(("unit:hasseb:refuse", "caller %d (%s, 24-bit frame) ends with UnsupportedFrameTypeError"
                       % (c.tid, c.kind), "done=%s result=%s" % (c.done, c.result)))
    wide = [w for w in sim.wire if w[1] != 16]
    if wide:
        pr.append(("unit:hasseb:refuse", "only 16-bit frames are handed to the hasseb gateway", str(wide[:3])))
    return pr


def check_results(sim, faulty):
    """no caller receives another command's data; a fault-free caller gets its own answer"""
    pr = []
    from .sim import ANSWERS
    cancelled = any(e[1] == "env" and e[2] == "cancel" for e in sim.events)
    for c in sim.callers:
        if not c.done or c.result[0] != "ok":
            continue
        items = [it for it in c.items() if isinstance(it, str) and (c.tid, it) in sim.cmds]
        got = [c.result[1]] if c.kind == "send" else list(c.result[1])
        for it, r in zip(items, got):
            cmd = sim.cmds[(c.tid, it)]
            if cmd.response is None:
                ok = r is None
                want = None
            elif it in ANSWERS:
                want = "%s:%d" % (cmd.response.__name__, (ANSWERS[it] + c.tid) & 0xFF)
                ok = r == want or (faulty and r is not None and r.endswith(":none"))
            else:
                want = "<none>"
                ok = r is not None and r.endswith(":none")
            if not ok:
                if cancelled and sim.kind != "tridonic":
                    key = "xtalk-cancel:" + sim.kind
                else:
                    key = "result:" + sim.kind
                pr.append((key, "caller %d %s -> %s" % (c.tid, it, want), str(r)))
    return pr


def status_language(cbs):
    """connected . (disconnected . (connected | failed))*  — 'failed' returns to the idle state
    from which an explicit connect() may report 'connected' again; returns None or the bad prefix"""
    st = "idle"
    for i, (_, s) in enumerate(cbs):
        if st == "idle" and s == "connected":
            st = "up"
        elif st == "idle" and s == "failed":
            st = "idle"
        elif st == "up" and s == "disconnected":
            st = "down"
        elif st == "down" and s == "connected":
            st = "up"
        elif st == "down" and s == "failed":
            st = "idle"
        else:
            return [x[1] for x in cbs[:i + 1]]
    return None


def check_c17(sim):
    pr = []
    drv = sim.kind
    if not sim.is_hid:
        return pr
    bad = status_language(sim.cbs)
    if bad is not None:
        pr.append(("status:%s:language" % drv, "connected (disconnected (connected|failed))*", " ".join(bad)))
    limit = sim.cfg.get("limit")
    interval = sim.cfg.get("interval", 1)
    # after a 'disconnected' the driver tries to open at +interval, +2*interval ... and reports
    # 'failed' after exactly `limit` failed attempts
    evs = sim.events
    cbi = [i for i, e in enumerate(evs) if e[1] == "drv" and e[2] == "cb"]
    for n, i in enumerate(cbi):
        if evs[i][3] != "disconnected":
            continue
        t = evs[i][0]
        j = cbi[n + 1] if n + 1 < len(cbi) else len(evs)
        nxt = evs[j][3] if j < len(evs) else None
        att = [(e[0], e[3]) for e in evs[i:j] if e[1] == "drv" and e[2] == "open"]
        for k, (ot, res) in enumerate(att):
            if abs(ot - (t + (k + 1) * interval)) > 1e-9:
                pr.append(("status:%s:interval" % drv, "open attempt %d at %s" % (k + 1, t + (k + 1) * interval),
                           "at %s" % ot))
                break
        nfail = len([o for o in att if o[1] == "fail"])
        if limit is not None and nxt is None and nfail >= limit and not sim.drv.connected.is_set():
            pr.append(("status:%s:failed" % drv,
                       "'failed' reported after %d failed attempts" % limit,
                       "callbacks %s, %d failed attempts, none pending" % ([c[1] for c in sim.cbs], nfail)))
        if nxt == "failed" and nfail != limit:
            pr.append(("status:%s:failed" % drv, "'failed' after exactly %s failed attempts" % limit,
                       "after %d" % nfail))
    # in-flight sends fail promptly: a caller with exceptions on that had written and was waiting when
    # the loss was detected finishes with CommunicationError at that very instant
    for i, ev in enumerate(sim.events):
        if ev[1] == "drv" and ev[2] == "cb" and ev[3] == "disconnected":
            pass
    return pr


def check_connect_answered(sim):
    """with a reconnect limit, every explicit connect() of the application is answered: 'connected', or - when the
    device stays away - 'failed' once the attempts are used up AGAIN ("never silent": a supervisor waiting for one
    of the two must not wait for ever).  Judged on runs that came to rest with nothing pending."""
    pr = []
    if not sim.is_hid or sim.hang or sim.cfg.get("limit") is None:
        return pr
    d = sim.drv
    if d._reconnect_task is not None:
        return pr
    evs = sim.events
    conn = [i for i, e in enumerate(evs) if e[1] == "env" and e[2] == "connect"]
    for n, i in enumerate(conn):
        # the next explicit connect() is only made once the driver is idle again (no device, no retry pending):
        # by then this one's round of attempts is over and must have reported its outcome
        j = conn[n + 1] if n + 1 < len(conn) else len(evs)
        if True:
            later = [x[3] for x in evs[i + 1:j] if x[1] == "drv" and x[2] == "cb"]
            if not later:
                pr.append(("status:%s:silent" % sim.kind,
                           "the explicit connect() is answered by 'connected' or 'failed'",
                           "callbacks before it %s, none after it; driver idle (no device, no retry pending)"
                           % ([c[1] for c in sim.cbs],)))
                break
    return pr


def check_inflight(sim):
    """every caller in flight at a loss leaves with CommunicationError at once (exceptions on)"""
    pr = []
    if not sim.is_hid:
        return pr
    drv = sim.kind
    inflight = {}
    for ev in sim.events:
        t, who, what = ev[0], ev[1], ev[2]
        if what == "write" and isinstance(who, int):
            inflight[who] = t
        elif what in ("irel", "done") and who in inflight:
            del inflight[who]
        elif who == "drv" and what == "cb" and ev[3] == "disconnected":
            for tid in list(inflight):
                c = sim.callers[tid] if tid < len(sim.callers) else None
                if c is None:
                    continue
                exc = c.opts.get("exc", sim.cfg.get("exceptions_on_send", True))
                if c.kind == "seq":
                    exc = True
                if exc:
                    if not (c.done and c.result == ("err", "CommunicationError") and c.t_done == t) \
                            and not (c.done and c.result[0] == "cancelled"):
                        pr.append(("inflight:" + drv,
                                   "caller %d in flight at the loss (t=%s) fails with CommunicationError at once" % (tid, t),
                                   "result %s at %s" % (c.result, c.t_done)))
                else:
                    if c.done and c.result[0] == "err":
                        pr.append(("inflight:" + drv, "caller %d (exceptions off) is retried" % tid, str(c.result)))
            inflight.clear()
    # nobody ends with an exception class outside the documented ones
    for c in sim.callers:
        if c.done and c.result[0] == "err" and c.result[1] not in ("CommunicationError", "SeqBoom"):
            pr.append(("errclass:" + drv, "sends fail with CommunicationError only",
                       "caller %d: %s" % (c.tid, c.result[1])))
    return pr


def check_serial_timeouts(sim):
    """no confirmation => send raises TimeoutError timeout_tx_confirm after the write (lock released);
    no answer => 'no answer' timeout_rx after the confirmation"""
    pr = []
    if sim.is_hid:
        return pr
    drv = sim.kind
    t_conf, t_rx = sim.timeouts
    dropped = [e for e in sim.events if e[1] == "env" and e[2] in ("drop", "trunc")]
    if not dropped:
        return pr
    for c in sim.callers:
        if c.done and c.result[0] == "err" and c.result[1] != "TimeoutError" and c.result[1] != "SeqBoom":
            pr.append(("errclass:" + drv, "a silent gateway makes send raise TimeoutError",
                       "caller %d: %s" % (c.tid, c.result[1])))
        if c.done and c.result == ("err", "TimeoutError"):
            # time between the last write of this caller and its completion
            lastw = max([e[0] for e in sim.events if e[1] == c.tid and e[2] == "write"], default=None)
            if lastw is not None and c.t_done - lastw > 2 * t_conf + 1e-9:
                pr.append(("timeout:" + drv, "raises within %s of the write" % (2 * t_conf),
                           "after %s" % (c.t_done - lastw)))
    return pr


def check_all(sim):
    faulty = sim.late or any(e[1] == "env" and e[2] in ("lose", "cancel", "drop", "trunc") for e in sim.events)
    pr = []
    pr += check_c15(sim, faulty)
    pr += check_end(sim)
    if not (sim.late and not sim.is_hid):
        # an answer later than timeout_rx is (mis)handled by the stale-answer logic: property C16's business
        pr += check_results(sim, faulty)
    pr += check_c17(sim)
    pr += check_connect_answered(sim)
    pr += check_inflight(sim)
    pr += check_serial_timeouts(sim)
    pr += check_retry_units(sim)
    pr += check_retried_results(sim)
    pr += check_serial_deadline(sim)
    pr += check_refusals(sim)
    return pr
