"""Export the event trace of one simulation as lines for the Lean trace
acceptor `m_drv` (see lean/DaliVerif/Drivers/DrvDrv.lean)."""


def _b(x):
    return "1" if x else "0"


def _cmd_fields(sim, cmd):
    f = cmd.frame
    tw = bool(cmd.sendtwice)
    q = cmd.response is not None
    return len(f), f.as_integer, tw, cmd.devicetype, q


def spawn_line(sim, c):
    if c.kind == "send":
        cmd = sim.cmds[(c.tid, c.spec[1])]
        b, v, tw, dt, q = _cmd_fields(sim, cmd)
        exc = c.opts.get("exc")
        if exc is None:
            exc = sim.cfg.get("exceptions_on_send", True)
        if not sim.is_hid:
            exc = True
        return "spawn send %d %d %s %d %s %s" % (b, v, _b(tw), dt, _b(q), _b(exc))
    items = []
    boom = c.opts.get("boom")
    for i, it in enumerate(c.items()):
        if boom is not None and i == boom:
            break
        if it == "progress":
            items.append("p")
        elif isinstance(it, tuple):
            items.append("s")
        else:
            b, v, tw, dt, q = _cmd_fields(sim, sim.cmds[(c.tid, it)])
            items.append("c:%d:%d:%s:%d:%s" % (b, v, _b(tw), dt, _b(q)))
    return "spawn seq " + " ".join(items)


def to_lines(sim):
    cancelled = set()
    lines = ["init %s %s %d" % (sim.kind, "none" if sim.cfg.get("limit") is None else sim.cfg["limit"],
                               sim.cfg.get("seq0", 250))]
    if sim.is_hid:
        if sim.cfg.get("absent_at_start"):
            lines.append("env gone")
        lines.append("env connect")
    tmap = {}
    nspawn = 0
    evs = sim.events
    for i, e in enumerate(evs):
        who, what = e[1], e[2]
        if who == "env":
            if what == "start":
                c = sim.callers[e[3]]
                lines.append(spawn_line(sim, c))
                tmap[c.tid] = nspawn
                if c.kind == "seq" and c.opts.get("boom") is not None:
                    lines.append("boom %d" % nspawn)
                nspawn += 1
            elif what == "follow-start":
                b, v, tw, dt, q = _cmd_fields(sim, sim.follow_cmd)
                lines.append("spawn send %d %d %s %d %s 1" % (b, v, _b(tw), dt, _b(q)))
                tmap[100] = nspawn
                nspawn += 1
            elif what == "deliver":
                kind, seq = e[3], e[4]
                if kind in ("echo", "answer", "confirm"):
                    lines.append("deliver %d %s" % (seq or 0, kind))
                elif kind.startswith("hs-") and sim.is_hid:
                    lines.append("env hs")
            elif what == "timer":
                for f in evs[i + 1:]:
                    if f[1] == "env":
                        break
                    if f[1] == "drv" and f[2] == "open":
                        lines.append("env timer")
                        break
            elif what == "lose":
                if e[3] != "wfail":
                    lines.append("env lose")
            elif what in ("back", "connect"):
                lines.append("env " + what)
            elif what == "cancel":
                lines.append("cancel %d" % tmap[e[3]])
                cancelled.add(e[3])
            # "drop" and "trunc" (only the first bytes of a report arrive, then silence) produce no line: for the
            # model, which has no byte-level receive parser, both are a report that is never delivered
        elif who == "drv":
            if what == "cb":
                lines.append("cb " + e[3])
            elif what == "wfail":
                lines.append("env lose")
        else:
            t = tmap.get(who)
            if t is None:
                continue
            if what in ("acq", "rel", "iacq", "irel", "connpass", "close", "unslot", "wfail"):
                lines.append("ev %d %s" % (t, what))
            elif what == "slot":
                lines.append("ev %d slot %d" % (t, e[3]))
            elif what == "write":
                tw = e[5]
                if sim.kind == "hasseb":
                    # the hasseb driver writes a send-twice frame twice; the model's frame keeps the flag
                    ent = sim.frames.get((e[3], e[4]))
                    tw = bool(ent[2].sendtwice) if ent else False
                lines.append("ev %d write %d %d %s" % (t, e[3], e[4], _b(tw)))
            elif what == "done":
                r = e[3] if e[3] != "err" else "err:" + str(e[4])
                if r == "err:SeqBoom" and who in cancelled and isinstance(who, int) and who < len(sim.callers) \
                        and sim.callers[who].opts.get("cleanup_raises"):
                    # the clean-up of a cancelled sequence raised while it was being closed: for the lock discipline
                    # (all the model speaks about) this is the cancelled run; the exception class is not judged
                    r = "cancelled"
                lines.append("ev %d done %s" % (t, r))
    o = sim.end_state
    inner = 0 if o["inner_free"] else 1
    lines.append("end %s %d %d %s" % (_b(o["lock"]), inner, len(o["outstanding"]),
                                      _b(o["connected"]) if sim.is_hid else "-"))
    return lines


def validate(model, sims):
    """run the traces through m_drv; returns [(sim, line index, line, answer)] for rejected traces"""
    all_lines, spans = [], []
    for s in sims:
        ls = to_lines(s)
        spans.append((len(all_lines), len(ls)))
        all_lines += ls
    ans = model.batch(all_lines)
    bad = []
    for s, (a, n) in zip(sims, spans):
        for k in range(n):
            if not ans[a + k].startswith("ok"):
                bad.append((s, k, all_lines[a + k], ans[a + k], all_lines[a:a + k + 1]))
                break
    return bad
