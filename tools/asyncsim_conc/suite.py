"""Scenario suites shared by tools/props/c15.py and c17.py: run the real
drivers over explored schedules, evaluate the property statements on the real
objects (checks.py), and have the Lean model accept every recorded trace."""
import copy
import time

from . import checks, explore, trace
from .sim import Sim

C15_KEYS = ("mutex:", "contig:", "edt:", "unit:", "unit-prefix:", "retry:", "close:", "lockfree:", "hang:", "fifo:")
C17_KEYS = ("leak:", "wrap:", "status:", "inflight:", "errclass:", "timeout:", "xtalk-cancel:", "result:",
            "lockfree:", "hang:", "edt:", "retry:")

DRIVERS = ("tridonic", "hasseb", "luba", "sci")


def fifo_check(sim):
    """asyncio.Lock hands the lock over in request order (assumed by the design, asserted here)"""
    pr = []
    q = []
    for e in sim.events:
        if e[2] == "wait" and isinstance(e[1], int):
            q.append(e[1])
        elif e[2] == "acq" and e[1] in q:
            if q[0] != e[1]:
                pr.append(("fifo:" + sim.kind, "lock granted to the longest waiter %s" % q[0], "granted to %s" % e[1]))
            q.remove(e[1])
        elif e[2] == "done" and e[1] in q:
            q.remove(e[1])
    return pr


class Runner:
    def __init__(self, ctx, corr, prop_keys, model):
        self.ctx, self.corr, self.keys, self.model = ctx, corr, prop_keys, model
        self.batch = []
        self.ntraces = 0
        self.t_end = time.time() + (540 if ctx.thorough else 60)

    def out_of_time(self):
        return time.time() > self.t_end

    def visit(self, cfg):
        def v(sim):
            corr = self.corr
            probs = checks.check_all(sim) + fifo_check(sim)
            inp = {"cfg": cfg_json(cfg), "schedule": [list(c) for c in sim.schedule]}
            for key, exp, obs in probs:
                if key.startswith(self.keys):
                    corr.violate(key, inp, exp, obs, "real %s driver under the virtual-time harness" % sim.kind)
            corr.bump("driver:" + sim.kind)
            for c in sim.callers:
                if c.done:
                    corr.bump("outcome:" + c.result[0] + (":" + str(c.result[1]) if c.result[0] == "err" else ""))
            for ch in sim.schedule:
                corr.bump("choice:" + ch[0] + (":" + str(ch[1]) if ch[0] == "lose" else ""))
            corr.nontrivial((sim.kind, tuple(e[2] for e in sim.events if e[1] != "env")[:60]))
            if sim.late and not sim.is_hid:
                corr.bump("late-report-traces-not-sent-to-model")
            else:
                self.batch.append((cfg, sim))
            if len(self.batch) >= 200:
                self.flush()
            if getattr(sim, "spin", False):
                # the driver spun for seconds of real time: reported above (hang:…); one witness per configuration
                # is enough, the other schedules of this configuration would each cost the watchdog's limit again
                corr.bump("spin-detected")
                return False
            return not self.out_of_time()
        return v

    def flush(self):
        if not self.batch or self.model is None:
            self.batch = []
            return
        sims = [s for _, s in self.batch]
        bad = trace.validate(self.model, sims)
        for (s, k, line, ans, pre) in bad:
            cfg = [c for c, x in self.batch if x is s][0]
            self.corr.disagree("traces", {"cfg": cfg_json(cfg), "schedule": [list(c) for c in s.schedule],
                                          "trace_tail": pre[-10:]}, ans, line)
        self.ntraces += len(sims)
        self.corr.count("traces", len(sims))
        self.batch = []

    def dfs(self, cfg, max_runs):
        runs, ex = explore.dfs(cfg, self.visit(cfg), max_runs=max_runs)
        if ex:
            self.corr.bump("dfs-exhausted-configs")
        elif not self.out_of_time():
            # DFS order only varies the tail of the schedule: add seeded random schedules
            self.rand(cfg, max(4, max_runs // 3))
        return runs, ex

    def rand(self, cfg, n):
        explore.random_walks(cfg, self.visit(cfg), self.ctx.rng, n, bias=_bias)

    def sweep(self, cfg, n):
        """one fault at every quiescent point of the fault-free run (callers queued, then callers one by one)"""
        runs = explore.sweep(cfg, self.visit(cfg))
        if not self.out_of_time():
            runs += explore.sweep(cfg, self.visit(cfg), sequential=True)
        self.corr.bump("sweep-runs", runs)
        return runs


def _bias(c, sim):
    k = c[0]
    if k == "deliver":
        return 4.0
    if k == "start":
        return 3.0
    if k == "timer":
        return 1.5
    if k in ("lose", "cancel", "drop", "noise", "trunc"):
        return 0.6
    return 1.0


def cfg_json(cfg):
    d = copy.deepcopy(cfg)
    d["callers"] = [list(c) for c in d["callers"]]
    return d


def cfg_from_json(d):
    d = copy.deepcopy(d)

    def tup(x):
        return tuple(tup(y) for y in x) if isinstance(x, list) else x
    d["callers"] = [(c[0], [tup(i) for i in c[1]] if isinstance(c[1], list) else c[1], c[2] if len(c) > 2 else {})
                    for c in d["callers"]]
    for k in ("loss_kinds", "droppable", "trunc_bytes"):
        if k in d:
            d[k] = tuple(d[k])
    return d


def replay_failure(payload, keys=None):
    v = payload.get("failure", payload)
    inp = v["input"]
    cfg = cfg_from_json(inp["cfg"])
    sim = explore.run_schedule(cfg, [tuple(c) for c in inp["schedule"]])
    probs = checks.check_all(sim) + fifo_check(sim)
    print("driver:", sim.kind, "\nschedule:", sim.schedule)
    print("wire:", [(w[0], "%d:%#x" % (w[1], w[2])) for w in sim.wire][:40])
    print("callers:", [(c.tid, c.result) for c in sim.callers], "\nend state:", getattr(sim, "end_state", None))
    print("callbacks:", sim.cbs)
    for p in probs:
        print("FAILS:", p)
    return any(p[0] == v["key"] for p in probs)


# ---------------------------------------------------------------------------
# the scenario lists
# ---------------------------------------------------------------------------

def c15_configs(thorough):
    out = []
    for d in DRIVERS:
        dev = [] if d == "hasseb" else ["dev"]
        n = 400 if thorough else 70
        out.append(("dfs", dict(driver=d, callers=[("send", "dtq", {}), ("seq", ["dtq", "cfg", ("sleep", 0.05),
                                                                               "progress", "off"], {})]), n))
        out.append(("dfs", dict(driver=d, any_start_order=True,
                                callers=[("send", "q", {}), ("send", "dtc", {}), ("seq", ["emq"] + dev, {})]), n))
        out.append(("dfs", dict(driver=d, callers=[("seq", ["q", "dtq"], {"boom": 1}), ("send", "dtq", {}),
                                                   ("seq", ["off"], {"boom": 1})]), n))
        out.append(("dfs", dict(driver=d, budget={"cancel": 1},
                                callers=[("seq", ["dtq", ("sleep", 0.01), "cfg"], {}), ("send", "dtq", {})]), n))
        out.append(("dfs", dict(driver=d, budget={"noise": 2}, callers=[("send", "dtq", {}), ("send", "qn", {})]), n))
        # a sequence whose clean-up raises when it is closed half-way (cancelled, or the gateway lost under it):
        # the transaction lock must be free afterwards all the same, and the queued callers must complete
        out.append(("dfs", dict(driver=d, budget={"cancel": 1},
                                callers=[("seq", ["dtq", ("sleep", 0.01), "cfg"], {"cleanup_raises": True}),
                                         ("send", "dtq", {}), ("send", "q", {})]), n))
        if d in ("luba", "sci"):
            # the gateway's confirmation / answer may arrive LATER than the driver's timeout (timers may fire while
            # a report is still on its way): the wire must still hold whole units, device-type frames adjacent
            out.append(("dfs", dict(driver=d, allow_late=True,
                                    callers=[("seq", ["off", "dtq", "q"], {}), ("send", "dtq", {})]), n))
            out.append(("rand", dict(driver=d, allow_late=True, any_start_order=True,
                                     callers=[("send", "dtc", {}), ("seq", ["dtq", "cfg"], {}), ("send", "q", {})]),
                        40 if not thorough else 300))
        if d in ("luba", "sci"):
            # the gateway stops part-way through a report (a stray start byte while idle, a truncated confirmation):
            # every caller still completes within the documented time-outs and the lock is free afterwards
            out.append(("sweep", dict(driver=d, budget={"trunc": 1},
                                      callers=[("send", "q", {}), ("send", "dtq", {}), ("seq", ["off", "q"], {})]), 0))
        if d in ("tridonic", "hasseb"):
            # the gateway is lost and comes back while a unit is on its way (strengthening after seeded round 2): a
            # send with exceptions off is RETRIED, and the retried unit must again be whole - EnableDeviceType in front
            # of the device-type command also on the second transmission; loss injected at every quiescent point
            out.append(("sweep", dict(driver=d, limit=None, budget={"lose": 1, "back": 1},
                                      callers=[("send", "q", {}), ("send", "dtq", {"exc": False})]), 0))
            out.append(("sweep", dict(driver=d, limit=None, exceptions_on_send=False, budget={"lose": 1, "back": 1},
                                      callers=[("send", "dtc", {}), ("send", "emq", {}), ("seq", ["dtq", "off"], {})]), 0))
            out.append(("dfs", dict(driver=d, limit=None, budget={"lose": 1, "back": 1},
                                    callers=[("send", "off", {}), ("send", "dtq", {"exc": False})]), n))
            out.append(("rand", dict(driver=d, limit=None, any_start_order=True, exceptions_on_send=False,
                                     budget={"lose": 2, "back": 2},
                                     callers=[("send", "dtq", {}), ("send", "dtc", {}), ("send", "q", {"exc": True}),
                                              ("seq", ["emq", "cfg"], {})]), 60 if thorough else 20))
        if d == "hasseb":
            # a frame length this gateway cannot carry (24 bits) is REFUSED in every send mode - default, exceptions
            # on, exceptions off, per-driver default off - at once, nothing written, lock released, the other callers
            # served ("every caller eventually completes"): strengthening after seeded round 6
            out.append(("dfs", dict(driver=d, any_start_order=True, unsupported=True,
                                    callers=[("send", "dev", {"exc": False}), ("send", "q", {}),
                                             ("send", "dev", {})]), n))
            out.append(("dfs", dict(driver=d, exceptions_on_send=False, unsupported=True,
                                    callers=[("send", "q", {}), ("send", "dev", {}), ("seq", ["dtq", "dev"], {})]), n))
        m = 120 if thorough else 14
        out.append(("rand", dict(driver=d, any_start_order=True, budget={"noise": 1},
                                 callers=[("send", "off", {}), ("send", "emq", {}), ("seq", ["dtq", "q"] + dev, {}),
                                          ("seq", ["cfg", "dtc", "qn"], {})]), m))
        out.append(("rand", dict(driver=d, any_start_order=True, budget={"cancel": 2},
                                 callers=[("send", "dtq", {}), ("seq", ["dtc", ("sleep", 0.02), "dtq"], {"boom": 2}),
                                          ("send", "cfg", {}), ("seq", ["q", "progress", "emq"], {})]), m))
    return out


def c17_configs(thorough):
    out = []
    n = 300 if thorough else 45
    m = 100 if thorough else 10
    for d in ("tridonic", "hasseb"):
        for lim in (None, 0, 1, 3):
            out.append(("dfs", dict(driver=d, limit=lim, budget={"lose": 1, "back": 1},
                                    callers=[("send", "q", {}), ("send", "off", {"exc": False})]), n))
            out.append(("rand", dict(driver=d, limit=lim, budget={"lose": 2, "back": 2, "absent_timers": 4},
                                     callers=[("send", "dtq", {"exc": False}), ("seq", ["q", "dtq"], {}),
                                              ("send", "cfg", {})]), m))
        # strengthening after seeded round 2: one loss at EVERY quiescent point of the fault-free run (in particular
        # after the EnableDeviceType prefix completed and while the command itself is in flight), device back, the
        # retried send must re-send prefix + command and hand its caller the answer to its own command
        for lim in (None, 2):
            out.append(("sweep", dict(driver=d, limit=lim, budget={"lose": 1, "back": 1},
                                      callers=[("send", "dtq", {"exc": False}), ("send", "q", {}),
                                               ("send", "dtc", {"exc": False})]), 0))
        out.append(("sweep", dict(driver=d, limit=None, exceptions_on_send=False, budget={"lose": 1, "back": 1},
                                  callers=[("send", "emq", {}), ("seq", ["dtq", "q"], {})]), 0))
        out.append(("dfs", dict(driver=d, limit=None, budget={"lose": 1, "back": 1},
                                callers=[("send", "q", {}), ("send", "dtq", {"exc": False})]), n))
        out.append(("dfs", dict(driver=d, limit=2, absent_at_start=True, budget={"back": 1},
                                callers=[("send", "q", {"exc": False})]), n))
        out.append(("dfs", dict(driver=d, limit=1, budget={"lose": 1, "back": 0},
                                callers=[("send", "q", {}), ("seq", ["off", "q"], {})]), n))
        # the device node found through a glob pattern: away = the pattern matches nothing (no os.open at all)
        for lim in (None, 2):
            out.append(("dfs", dict(driver=d, limit=lim, glob=True, budget={"lose": 1, "back": 1},
                                    callers=[("send", "q", {"exc": False}), ("send", "off", {})]), n))
        out.append(("sweep", dict(driver=d, limit=None, glob=True, budget={"lose": 1, "back": 1},
                                  callers=[("send", "dtq", {"exc": False}), ("send", "q", {})]), 0))
        # after 'failed' the application calls connect() itself while the device is STILL away: the attempts start
        # over and 'failed' is reported a second (third) time  (strengthening after seeded round 6)
        for lim in (0, 1, 2):
            out.append(("dfs", dict(driver=d, limit=lim, budget={"lose": 1, "back": 1, "connect_absent": 2},
                                    callers=[("send", "q", {"exc": False})]), n))
        out.append(("rand", dict(driver=d, limit=3, budget={"lose": 3, "back": 3, "cancel": 1},
                                 callers=[("send", "q", {}), ("send", "dtq", {"exc": False}), ("send", "cfg", {}),
                                          ("seq", ["q", "off"], {})]), m))
    # a caller cancelled at every await point, then 300 further sends (sequence numbers wrap)
    out.append(("dfs", dict(driver="tridonic", budget={"cancel": 1}, follow=300, seq0=250,
                            callers=[("send", "q", {})]), 60))
    out.append(("dfs", dict(driver="tridonic", budget={"cancel": 1}, follow=300, seq0=3,
                            callers=[("send", "dtq", {})]), 30 if not thorough else 200))
    for d in ("hasseb", "luba", "sci"):
        out.append(("dfs", dict(driver=d, budget={"cancel": 1}, follow=300, callers=[("send", "dtq", {})]),
                    12 if not thorough else 100))
        out.append(("dfs", dict(driver=d, budget={"cancel": 1}, follow=2,
                                callers=[("send", "dtq", {}), ("seq", ["q", "off"], {})]), n))
    # serial gateway silent at confirmation / at answer time
    for d in ("luba", "sci"):
        out.append(("dfs", dict(driver=d, budget={"drop": 1}, callers=[("send", "q", {}), ("send", "cfg", {})]), n))
        out.append(("dfs", dict(driver=d, budget={"drop": 2}, callers=[("seq", ["dtq", "off"], {}), ("send", "q", {})]), n))
        # strengthening after seeded round 2: the gateway goes silent PART-WAY THROUGH a report (only its first 1 / 3
        # bytes arrive - a truncated confirmation or answer, or a stray start byte while idle - and then nothing, ever):
        # the send in flight AND every later send still end within the documented timeouts, nobody hangs, lock free
        out.append(("sweep", dict(driver=d, budget={"trunc": 1},
                                  callers=[("send", "q", {}), ("send", "dtq", {}), ("seq", ["off", "q"], {})]), 0))
        out.append(("dfs", dict(driver=d, budget={"trunc": 1}, callers=[("send", "q", {}), ("send", "cfg", {})]), n))
        out.append(("rand", dict(driver=d, any_start_order=True, budget={"trunc": 1, "drop": 1},
                                 callers=[("send", "dtc", {}), ("seq", ["q", ("sleep", 0.02), "dtq"], {}),
                                          ("send", "qn", {})]), m * 2))
    return out


def run_configs(ctx, corr, configs, keys, model):
    r = Runner(ctx, corr, keys, model)
    for mode, cfg, n in configs:
        if r.out_of_time():
            corr.bump("configs-skipped-time-budget")
            continue
        if mode == "dfs":
            r.dfs(cfg, n)
        elif mode == "sweep":
            r.sweep(cfg, n)
        else:
            r.rand(cfg, n)
    r.flush()
    return r
