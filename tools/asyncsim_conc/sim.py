"""One simulation = the REAL driver object + a conforming gateway model in a
virtual-time loop, instrumented from outside (nothing in /repo is changed):

* `transaction_lock`, the per-driver inner serialiser (Tridonic semaphore(2),
  hasseb command lock, LUBA/SCI tx lock) and the HID `connected` event are
  replaced after construction by recording subclasses of the asyncio classes;
* `hid.os` is a fake module, `serial_asyncio.create_serial_connection` a fake
  factory; Tridonic's `_outstanding` is observed through a recording dict;
* every caller runs as its own task; each recorded event carries the id of
  the task that produced it (`asyncio.current_task()`), `drv` for the driver's
  own callbacks/tasks, `env` for what the explorer injected.

At every quiescent point (nothing runnable at the current virtual instant)
the `chooser` picks the next environment event: start a caller, deliver /
drop the gateway's next report, deliver only its first bytes and go silent
for good (`trunc`, serial), an unsolicited report, fire the next timer, lose
the HID device (EOF | read error | failing write), bring it back, call
connect() again, cancel a caller.  The list of choices made is
the *schedule*; replaying the same schedule reproduces the run exactly.
"""
from common import exc_name  # noqa: E402
import asyncio
import logging
import sys
import types

logging.getLogger("dali.driver").setLevel(logging.CRITICAL + 10)
logging.getLogger().setLevel(logging.CRITICAL + 10)

from . import gateways as G
from .vloop import VLoop, settle


# ---------------------------------------------------------------------------
# recording replacements for asyncio primitives
# ---------------------------------------------------------------------------

def _lock_would_block(lk):
    return lk._locked or (lk._waiters is not None and any(not w.cancelled() for w in lk._waiters))


def make_rec_lock(sim, prefix):
    class RecLock(asyncio.Lock):
        async def acquire(self):
            t = sim.cur()
            if _lock_would_block(self):
                sim.rec(t, prefix + "wait")
            await super().acquire()
            sim.rec(t, prefix + "acq")
            return True

        def release(self):
            super().release()
            sim.rec(sim.cur(), prefix + "rel")
    return RecLock()


def make_rec_sem(sim, prefix, n):
    class RecSem(asyncio.BoundedSemaphore):
        async def acquire(self):
            t = sim.cur()
            if self.locked():
                sim.rec(t, prefix + "wait")
            await super().acquire()
            sim.rec(t, prefix + "acq")
            return True

        def release(self):
            super().release()
            sim.rec(sim.cur(), prefix + "rel")
    return RecSem(n)


def make_rec_event(sim):
    class RecEvent(asyncio.Event):
        async def wait(self):
            t = sim.cur()
            if t in ("drv", "env"):
                return await super().wait()
            if not self.is_set():
                sim.rec(t, "connwait")
            r = await super().wait()
            sim.rec(t, "connpass")
            return r
    return RecEvent()


class RecDict(dict):
    def __init__(self, sim, *a):
        super().__init__(*a)
        self._sim = sim

    def __setitem__(self, k, v):
        super().__setitem__(k, v)
        self._sim.rec(self._sim.cur(), "slot", k)

    def __delitem__(self, k):
        super().__delitem__(k)
        self._sim.rec(self._sim.cur(), "unslot", k)

    def pop(self, k, *d):
        had = k in self
        r = super().pop(k, *d)
        if had:
            self._sim.rec(self._sim.cur(), "unslot", k)
        return r


class SeqWrap:
    """what run_sequence sees instead of the bare generator: records close()"""

    def __init__(self, sim, gen):
        self._sim, self._gen = sim, gen
        self.closed = False
        self.started = False

    def send(self, v):
        self.started = True
        return self._gen.send(v)

    def close(self):
        self.closed = True
        self._sim.rec(self._sim.cur(), "close")
        return self._gen.close()


class SeqBoom(Exception):
    """raised by a test sequence on purpose"""


# ---------------------------------------------------------------------------
# caller programs
# ---------------------------------------------------------------------------

def command_table():
    from dali.gear import general as gg, led, emergency
    from dali.device import general as dg
    from dali import address
    tbl = {
        "off": lambda a: gg.Off(a),
        "q": lambda a: gg.QueryActualLevel(a),
        "qn": lambda a: gg.QueryStatus(a),
        "cfg": lambda a: gg.Reset(a),
        "dtq": lambda a: led.QueryGearType(a),
        "dtc": lambda a: led.SelectDimmingCurve(a),
        "emq": lambda a: emergency.QueryBatteryCharge(a),
        "dev": lambda a: dg.QueryDeviceStatus(address.DeviceShort(a)),
    }
    return tbl


ANSWERS = {"q": 0x40, "dtq": 0x60, "emq": 0x20, "dev": 0x10}      # + caller id; "qn" = no answer


KNOWN_EXC = ("UnsupportedFrameTypeError", "CommunicationError", "TimeoutError", "OSError", "SeqBoom",
             "AssertionError")


def canonical_exc(e):
    """the documented exception class an exception IS (first known name along its MRO: a maintainer may raise a
    more specific subclass), else its own name"""
    for k in type(e).__mro__:
        if k.__name__ in KNOWN_EXC:
            return k.__name__
    return exc_name(e)


class Caller:
    """spec = ("send", name, {exc: bool|None}) | ("seq", [item...], {boom: k}) with
    item = command name | ("sleep", seconds) | "progress"."""

    def __init__(self, tid, spec):
        self.tid, self.spec = tid, spec
        self.kind = spec[0]
        self.opts = dict(spec[2]) if len(spec) > 2 else {}
        self.task = None
        self.started = False
        self.done = False
        self.result = None
        self.t_start = self.t_done = None
        self.seqwrap = None

    def items(self):
        return [self.spec[1]] if self.kind == "send" else list(self.spec[1])


class Sim:
    def __init__(self, cfg):
        self.cfg = cfg
        self.kind = cfg["driver"]
        self.events = []           # (virtual time, who, what, args...)
        self.wire = []             # (tid, bits, value, twice, event index)
        self.schedule = []
        self.cbs = []              # (time, status)
        self.callers = [Caller(i, s) for i, s in enumerate(cfg["callers"])]
        self.tid_of = {}
        self.loop = None
        self.drv = None
        self.gw = None
        self.budget = dict(cfg.get("budget", {}))
        self.problems = []         # (key, expected, observed)
        self.frames = {}           # (bits,value) -> (tid, name, cmd)
        self.hang = False
        self.spin = False
        self.stopped = False
        self.late = False
        self.waiting = False       # ended with callers legitimately waiting for an absent device
        self.connect_error = None
        self.steps = 0
        self.failed_seen = False
        self.loss_times = []
        # the DALI bus as control gear sees it: a frame of an application-extended (device type) command counts as
        # that command only when the frame before it on the wire was EnableDeviceType of that type
        self.bus_prev = None
        self.bus_enabled = True
        self.bus_repeat = False
        self.bare_dt_frames = []   # (tid, bits, value) of device-type frames that reached the bus without their prefix
        self.truncated = None      # (virtual time, report kind, bytes delivered) of the "silent mid-frame" fault

    # ---- recording ------------------------------------------------------------
    def cur(self):
        try:
            t = asyncio.current_task()
        except RuntimeError:
            t = None
        return self.tid_of.get(t, "drv")

    def rec(self, who, what, *args):
        if self.stopped:
            return
        self.events.append((self.loop.time() if self.loop else 0.0, who, what) + args)

    def wire_write(self, bits, value, twice, seq=None):
        who = self.cur()
        self.wire.append((who, bits, value, twice, len(self.events)))
        self.rec(who, "write", bits, value, twice)
        ent = self.frames.get((bits, value))
        dt = ent[2].devicetype if ent is not None else 0
        if dt:
            if self.bus_prev == (16, 0xC100 | dt):
                self.bus_enabled, self.bus_repeat = True, bool(ent[2].sendtwice)
            elif self.bus_prev == (bits, value) and self.bus_enabled and self.bus_repeat:
                # the second copy of a send-twice frame (the hasseb driver writes it itself) belongs to the same command
                self.bus_repeat = False
            else:
                self.bus_enabled = self.bus_repeat = False
                self.bare_dt_frames.append((who, bits, value))
        else:
            self.bus_enabled, self.bus_repeat = True, False
        self.bus_prev = (bits, value)

    def device_vanished(self, fd):
        """the OS marks the fd of an unplugged device readable (EOF/error): the reader, if the
        driver still has one registered once it is back in the loop, gets called"""
        self.loss_times.append(self.loop.time())

        def poke():
            ent = self.loop.readers.get(fd)
            if ent is not None:
                ent[0](*ent[1])
        self.loop.call_soon(poke)

    # ---- set-up -----------------------------------------------------------------
    def answer(self, bits, value):
        ent = self.frames.get((bits, value))
        if ent is None:
            return None
        tid, name, cmd = ent
        if cmd.devicetype != 0 and not self.bus_enabled:
            # no EnableDeviceType in front of it: the gear does not take the frame for this command
            return "no" if cmd.response is not None else None
        if name in ANSWERS:
            return (ANSWERS[name] + tid) & 0xFF
        if cmd.response is not None:
            return "no"
        return None

    def build(self):
        tbl = command_table()
        self.cmds = {}
        for c in self.callers:
            for it in c.items():
                if isinstance(it, str) and it in tbl:
                    cmd = tbl[it](c.tid + 1)
                    self.cmds[(c.tid, it)] = cmd
                    f = cmd.frame
                    self.frames[(len(f), f.as_integer)] = (c.tid, it, cmd)
        # the 300 follow-up sends use their own address
        self.follow_cmd = tbl["q"](60)
        f = self.follow_cmd.frame
        self.frames[(len(f), f.as_integer)] = (100, "q", self.follow_cmd)

    def make_driver(self):
        kind = self.kind
        sim = self
        if kind in ("tridonic", "hasseb"):
            from dali.driver import hid
            self.gw = (G.TridonicGW if kind == "tridonic" else G.HassebGW)(self, self.answer)
            self.fos = G.FakeOS(self.gw)
            hid.os = self.fos
            kw = dict(reconnect_interval=self.cfg.get("interval", 1), reconnect_limit=self.cfg.get("limit"))
            import glob as _realglob
            if self.cfg.get("glob"):
                # the device node is found through a glob pattern (udev symlinks): while the gateway is away the
                # pattern matches NOTHING and the driver never gets as far as os.open()
                def fake_glob(pattern):
                    if not sim.gw.present:
                        sim.rec("drv", "open", "fail")
                        return []
                    return ["/dev/fake0"]
                hid.glob = types.SimpleNamespace(glob=fake_glob)
                kw["glob"] = True
            else:
                hid.glob = _realglob
            if kind == "tridonic":
                hid.random = types.SimpleNamespace(randint=lambda a, b: self.cfg.get("seq0", 250))

                def _get(s):
                    return s.__dict__["_out"]

                def _set(s, v):
                    s.__dict__["_out"] = RecDict(sim, v)
                cls = type("tridonic", (hid.tridonic,), {"_outstanding": property(_get, _set)})
                d = cls("/dev/fake", **kw)
                d._command_semaphore = make_rec_sem(self, "i", 2)
            else:
                d = hid.hasseb("/dev/fake", **kw)
                d._command_lock = make_rec_lock(self, "i")
            d.connected = make_rec_event(self)
            d.transaction_lock = make_rec_lock(self, "")
            if "exceptions_on_send" in self.cfg:
                d.exceptions_on_send = self.cfg["exceptions_on_send"]
            d.connection_status_callback.register(self._on_status)
            self.drv = d
            self.is_hid = True
        else:
            from dali.driver import serial as ds
            self.gw = (G.LubaGW if kind == "luba" else G.SciGW)(self, self.answer)
            self.transport = G.FakeTransport(self.gw, self.loop)

            async def fake_create(loop=None, protocol_factory=None, url=None, baudrate=None):
                p = protocol_factory()
                p._tx_lock = make_rec_lock(sim, "i")
                p.connection_made(sim.transport)
                return sim.transport, p
            ds.serial_asyncio = types.SimpleNamespace(create_serial_connection=fake_create)
            cls = ds.DriverLubaRs232 if kind == "luba" else ds.DriverSCIRS232
            d = cls(("luba232" if kind == "luba" else "scirs232") + ":/dev/fake")
            d.transaction_lock = make_rec_lock(self, "")
            self.drv = d
            self.is_hid = False
            self.timeouts = (cls.timeout_tx_confirm, cls.timeout_rx)

    def _on_status(self, drv, status):
        self.cbs.append((self.loop.time(), status))
        self.rec("drv", "cb", status)
        if status == "failed":
            self.failed_seen = True

    # ---- callers ------------------------------------------------------------------
    def _gen(self, c):
        items = c.items()
        boom = c.opts.get("boom")
        from dali import sequences as sq
        out = []
        try:
            for i, it in enumerate(items):
                if boom is not None and i == boom:
                    raise SeqBoom()
                if it == "progress":
                    yield sq.progress(message="p")
                elif isinstance(it, tuple) and it[0] == "sleep":
                    yield sq.sleep(it[1])
                else:
                    r = yield self.cmds[(c.tid, it)]
                    out.append(self._summ(r))
            if boom is not None and boom >= len(items):
                raise SeqBoom()
        except GeneratorExit:
            # option "cleanup_raises": a sequence whose clean-up fails when it is closed half-way (aborted by a
            # cancellation or a lost gateway).  It still counts as a sequence that raises: the lock must be free.
            if c.opts.get("cleanup_raises"):
                raise SeqBoom()
            raise
        return out

    @staticmethod
    def _summ(r):
        if r is None:
            return None
        rv = getattr(r, "raw_value", None)
        if rv is None:
            return type(r).__name__ + ":none"
        return "%s:%s%d" % (type(r).__name__, "E" if getattr(rv, "error", False) else "", rv.as_integer)

    async def _run_caller(self, c):
        c.t_start = self.loop.time()
        self.rec(c.tid, "begin")
        d = self.drv
        try:
            if c.kind == "send":
                cmd = self.cmds[(c.tid, c.spec[1])]
                kw = {}
                if self.is_hid and c.opts.get("exc") is not None:
                    kw["exceptions"] = c.opts["exc"]
                r = self._summ(await d.send(cmd, **kw))
            else:
                c.seqwrap = SeqWrap(self, self._gen(c))
                r = await d.run_sequence(c.seqwrap, progress=lambda p: self.rec(c.tid, "progress"))
            c.result = ("ok", r)
        except asyncio.CancelledError:
            c.result = ("cancelled", None)
        except BaseException as e:  # noqa
            if exc_name(e) == "Spin":
                # the watchdog of Sim.run fired inside this caller: it was spinning and never completed
                self.spin = True
                self.rec(c.tid, "spin")
                return
            c.result = ("err", canonical_exc(e))
        c.done = True
        c.t_done = self.loop.time()
        self.rec(c.tid, "done", c.result[0], c.result[1])

    def start_caller(self, c):
        c.started = True
        c.task = self.loop.create_task(self._run_caller(c))
        self.tid_of[c.task] = c.tid

    # ---- environment ---------------------------------------------------------------
    def hid_fd_open(self):
        return self.is_hid and self.drv._f is not None and self.drv._f in self.loop.readers

    def choices(self):
        cfg, b = self.cfg, self.budget
        ch = []
        unstarted = [c for c in self.callers if not c.started]
        if unstarted and (self.is_hid or self.drv.is_connected or cfg.get("start_before_connect")):
            if cfg.get("any_start_order"):
                ch += [("start", c.tid) for c in unstarted]
            else:
                ch.append(("start", unstarted[0].tid))
        can_deliver = self.gw.pending and (not self.is_hid or self.hid_fd_open())
        if can_deliver:
            ch.append(("deliver",))
            if b.get("drop", 0) > 0 and self.gw.pending[0].kind in cfg.get("droppable", ("confirm", "answer")):
                ch.append(("drop",))
        if b.get("noise", 0) > 0 and (not self.is_hid or self.hid_fd_open()):
            ch.append(("noise",))
        if b.get("trunc", 0) > 0 and not self.is_hid and self.drv.is_connected:
            # the gateway goes silent PART-WAY THROUGH a report (cable pulled / power lost while it was transmitting):
            # only the first k bytes of the next report (or, when it owes none, of an unsolicited one - a stray start
            # byte) reach the driver, nothing ever follows
            tgt = self.gw.pending[0] if self.gw.pending else self.gw.noise()
            ch += [("trunc", k) for k in cfg.get("trunc_bytes", (1, 3)) if 0 < k < len(tgt.data)]
        if self.loop.next_timer() is not None:
            absent = self.is_hid and not self.gw.present
            late = (not self.is_hid) and bool(self.gw.pending) and not cfg.get("allow_late")
            if late:
                pass
            elif not (absent and b.get("absent_timers", 5) <= 0 and self.cfg.get("limit") is None):
                ch.append(("timer",))
        if self.is_hid:
            if self.gw.present and b.get("lose", 0) > 0 and self.hid_fd_open():
                for k in cfg.get("loss_kinds", ("eof", "rerr", "wfail")):
                    if k == "wfail" and self.gw.wfail:
                        continue
                    ch.append(("lose", k))
            if not self.gw.present and b.get("back", 1) > 0:
                ch.append(("back",))
            if (self.drv._f is None and self.drv._reconnect_task is None
                    and (self.gw.present or b.get("connect_absent", 0) > 0)):
                # application calls connect() again (after 'failed') - also while the device is STILL absent
                # (budget connect_absent): the attempts start over and must end in 'failed' once more
                ch.append(("connect",))
        if b.get("cancel", 0) > 0:
            ch += [("cancel", c.tid) for c in self.callers if c.started and not c.done]
        return ch

    def apply(self, c):
        b = self.budget
        k = c[0]
        self.rec("env", *c)
        if k == "start":
            self.start_caller(self.callers[c[1]])
        elif k in ("deliver", "drop", "noise"):
            if k == "noise":
                b["noise"] -= 1
                r = self.gw.noise()
            else:
                r = self.gw.pending.pop(0)
            self.events[-1] = self.events[-1] + (r.kind, r.seq)
            if k == "drop":
                b["drop"] -= 1
                return
            if self.is_hid:
                self.fos.inq.append(r.data)
                cb, a = self.loop.readers[self.drv._f]
                self.loop.call_soon(cb, *a)
            else:
                self.loop.call_soon(self.drv._protocol.data_received, r.data)
        elif k == "trunc":
            b["trunc"] -= 1
            r = self.gw.pending.pop(0) if self.gw.pending else self.gw.noise()
            self.events[-1] = self.events[-1] + (r.kind, r.seq)
            self.truncated = (self.loop.time(), r.kind, c[1])
            self.gw.silent = True          # from now on the gateway reports nothing (it still "hears" what is written)
            self.gw.clear()
            self.loop.call_soon(self.drv._protocol.data_received, r.data[:c[1]])
        elif k == "timer":
            if self.is_hid and not self.gw.present:
                b["absent_timers"] = b.get("absent_timers", 5) - 1
            if self.gw.pending:
                self.late = True           # a report arrives later than a timeout the driver applies
            w = self.loop.advance_to_next_timer()
            self.events[-1] = self.events[-1] + (w,)
        elif k == "lose":
            b["lose"] -= 1
            if c[1] == "wfail":
                self.gw.wfail = True       # the next write raises OSError; the device is gone from then on
                return
            self.loss_times.append(self.loop.time())
            self.gw.present = False
            self.gw.clear()
            self.fos.inq.clear()
            if c[1] == "rerr":
                self.fos.read_error = True
            cb, a = self.loop.readers[self.drv._f]
            self.loop.call_soon(cb, *a)
        elif k == "back":
            b["back"] = b.get("back", 1) - 1
            self.gw.present = True
            self.gw.wfail = False
        elif k == "connect":
            if not self.gw.present:
                b["connect_absent"] = b.get("connect_absent", 0) - 1
            self.loop.call_soon(self.drv.connect)
        elif k == "cancel":
            b["cancel"] -= 1
            self.callers[c[1]].task.cancel()
        else:
            raise AssertionError(c)

    def settled(self):
        """all callers finished and the connection machinery has nothing left to do"""
        if not self.is_hid and self.conn_task.done() and self.conn_task.exception() is not None:
            self.connect_error = type(self.conn_task.exception()).__name__
            return True
        if not all(c.done for c in self.callers):
            return False
        if not self.is_hid:
            if not self.conn_task.done():
                return False
            if self.conn_task.exception() is not None:
                self.connect_error = type(self.conn_task.exception()).__name__
                return True
        if self.gw.pending and (not self.is_hid or self.hid_fd_open()):
            return False
        if self.is_hid:
            d = self.drv
            if d._reconnect_task is not None:
                return False
            if d._f is not None and not d.connected.is_set():
                return False        # handshake under way
        return True

    # ---- the run ----------------------------------------------------------------------
    def run(self, chooser, max_steps=4000):
        import common
        self.loop = VLoop()
        asyncio.set_event_loop(self.loop)
        try:
            with common.watchdog(self.cfg.get("spin_limit_s", 8)):
                self.loop.run_until_complete(self._main(chooser, max_steps))
                # let cancelled / finished tasks unwind
                pend = [t for t in asyncio.all_tasks(self.loop) if not t.done()]
                for t in pend:
                    t.cancel()
                if pend:
                    self.loop.run_until_complete(asyncio.gather(*pend, return_exceptions=True))
        except common.Spin:
            # the code under test ran for many seconds of REAL time without ever returning to the event loop
            # (virtual time costs nothing): a busy loop.  Nobody can complete any more.
            self.hang = True
            self.spin = True
            self.rec("env", "spin")
            self.stopped = True
        finally:
            asyncio.set_event_loop(None)
            try:
                self.loop.close()
            except BaseException:   # noqa
                pass
        return self

    async def _main(self, chooser, max_steps):
        self.tid_of[asyncio.current_task()] = "env"
        self.build()
        self.make_driver()
        d = self.drv
        if self.is_hid:
            if self.cfg.get("absent_at_start"):
                self.gw.present = False
            d.connect()
        else:
            self.conn_task = self.loop.create_task(d.connect())
        follow = self.cfg.get("follow", 0)
        while True:
            await settle(self.loop)
            if self.spin:
                self.hang = True
                break
            if self.settled():
                if follow and self.connect_error is None:
                    await self._follow_up(follow)
                    follow = 0
                    continue
                break
            ch = self.choices()
            if not ch:
                if self.is_hid and (not self.gw.present or not self.drv.connected.is_set()):
                    self.waiting = True
                else:
                    self.hang = True
                break
            if self.steps >= max_steps:
                self.hang = True
                self.rec("env", "step-limit")
                break
            i = chooser(ch, self)
            self.schedule.append(ch[i])
            self.apply(ch[i])
            self.steps += 1
        self.end_state = self.observe()
        self.unfinished = [c.tid for c in self.callers if c.started and not c.done]
        self.stopped = True        # what the tear-down cancels is not part of the trace

    async def _follow_up(self, n):
        """n further sends with the gateway answering at once; sequence numbers wrap"""
        d = self.drv
        self.follow_results = []
        self.rec("env", "follow", n)
        for i in range(n):
            self.rec("env", "follow-start", i)
            t = self.loop.create_task(self._follow_one(i))
            self.tid_of[t] = 100
            guard = 0
            while not t.done():
                await settle(self.loop)
                if t.done():
                    break
                if self.gw.pending and (not self.is_hid or self.hid_fd_open()):
                    self.apply(("deliver",))
                elif self.loop.next_timer() is not None:
                    self.apply(("timer",))
                else:
                    break
                guard += 1
                if guard > 50:
                    break
            if not t.done():
                self.follow_results.append(("hang", i))
                t.cancel()
                break
            e = t.exception()
            if e is not None:
                self.follow_results.append(("err", i, exc_name(e)))
                break
            self.follow_results.append(("ok", self._summ(t.result())))

    async def _follow_one(self, i):
        try:
            r = await self.drv.send(self.follow_cmd)
        except BaseException as e:  # noqa
            self.rec(100, "done", "err", exc_name(e))
            raise
        self.rec(100, "done", "ok", self._summ(r))
        return r

    def observe(self):
        d = self.drv
        o = {"lock": d.transaction_lock.locked(),
             "lock_waiters": len([w for w in (d.transaction_lock._waiters or ()) if not w.cancelled()])}
        if self.kind == "tridonic":
            o["inner_free"] = d._command_semaphore._value == 2
            o["outstanding"] = sorted(d._outstanding.keys())
        elif self.kind == "hasseb":
            o["inner_free"] = not d._command_lock.locked()
            o["outstanding"] = []
        else:
            o["inner_free"] = d._protocol is None or not d._protocol._tx_lock.locked()
            o["outstanding"] = []
        if self.is_hid:
            o["connected"] = d.connected.is_set()
            o["fd"] = d._f is not None
            o["reconnecting"] = d._reconnect_task is not None
        return o
