"""Virtual-time asyncio loop for the C15/C17 trace harness.

`VLoop` is a real `asyncio.SelectorEventLoop` whose clock is a number we
advance ourselves and whose selector never blocks.  File-descriptor readers
are kept in a dict (the fake hidraw fds are not real fds).  Nothing sleeps in
wall-clock time: a timer "fires" when the controller advances the clock to it.
"""
import asyncio
import heapq
import selectors


class _NullSelector(selectors.BaseSelector):
    """Selector that knows no files and never waits."""

    def __init__(self):
        self._map = {}

    def register(self, fileobj, events, data=None):
        key = selectors.SelectorKey(fileobj, fileobj if isinstance(fileobj, int) else fileobj.fileno(),
                                    events, data)
        self._map[fileobj] = key
        return key

    def unregister(self, fileobj):
        return self._map.pop(fileobj)

    def modify(self, fileobj, events, data=None):
        self._map.pop(fileobj, None)
        return self.register(fileobj, events, data)

    def select(self, timeout=None):
        return []

    def close(self):
        self._map.clear()

    def get_map(self):
        return self._map


class VLoop(asyncio.SelectorEventLoop):
    def __init__(self):
        super().__init__(selector=_NullSelector())
        self._vt = 0.0
        self.readers = {}
        self.unhandled = []          # exceptions that reached the loop's handler
        self.set_exception_handler(self._on_exception)

    def _on_exception(self, loop, context):
        self.unhandled.append(context)

    # --- virtual clock -----------------------------------------------------
    def time(self):
        return self._vt

    def next_timer(self):
        """virtual time of the earliest live timer, or None"""
        while self._scheduled and self._scheduled[0]._cancelled:
            h = heapq.heappop(self._scheduled)
            h._scheduled = False
            self._timer_cancelled_count -= 1
        if self._scheduled:
            return self._scheduled[0]._when
        return None

    def live_timers(self):
        return sorted(h._when for h in self._scheduled if not h._cancelled)

    def advance_to_next_timer(self):
        w = self.next_timer()
        if w is not None and w > self._vt:
            self._vt = w
        return w

    def busy(self):
        """true while something is runnable at the current virtual instant"""
        if self._ready:
            return True
        w = self.next_timer()
        return w is not None and w <= self._vt + self._clock_resolution

    # --- fake file descriptors -----------------------------------------------
    def add_reader(self, fd, cb, *a):
        self.readers[fd] = (cb, a)

    def remove_reader(self, fd):
        return self.readers.pop(fd, None) is not None


async def settle(loop, limit=100000):
    """Yield until nothing but the calling task is runnable (a quiescent point)."""
    n = 0
    while True:
        await asyncio.sleep(0)
        if not loop.busy():
            return
        n += 1
        if n > limit:
            raise RuntimeError("livelock: the loop never becomes quiescent")
