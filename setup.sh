#!/bin/sh
# Build the framework from files on disk only (offline).
here=$(cd "$(dirname "$0")" && pwd)
cd "$here" || exit 2
mkdir -p build evidence replays
if [ -f tools/extract.py ]; then /venv/bin/python tools/extract.py || exit 2; fi
cd lean || exit 2
exes=$(sed -n 's/^name = "\(m_[a-z0-9_]*\)"$/\1/p' lakefile.toml)
lake build DaliVerif $exes || exit 2
