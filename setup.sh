#!/bin/sh
# Build the framework from files on disk only (offline).  A module that fails
# to build here is reported by its own check; setup itself only fails when
# nothing could be built.
here=$(cd "$(dirname "$0")" && pwd)
cd "$here" || exit 2
mkdir -p build evidence replays lean/DaliVerif/Gen
/venv/bin/python tools/extract.py || exit 2
cd lean || exit 2
exes=$(sed -n 's/^name = "\(m_[a-z0-9_]*\)"$/\1/p' lakefile.toml)
lake build DaliVerif $exes && exit 0
echo "setup: full build failed; building targets one by one" >&2
ok=0
for m in DaliVerif/Props/*.lean; do
  t=$(echo "$m" | sed 's/\.lean$//; s#/#.#g')
  lake build "$t" >/dev/null 2>&1 && ok=1 || echo "setup: $t does not build" >&2
done
for e in $exes; do lake build "$e" >/dev/null 2>&1 && ok=1 || echo "setup: $e does not build" >&2; done
[ "$ok" = 1 ] || exit 2
exit 0
