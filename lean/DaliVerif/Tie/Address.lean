import DaliVerif.Gen.SrcAddress
import DaliVerif.Model.AddressI
import DaliVerif.Proofs.AddressI
import DaliVerif.Proofs.Instance
import DaliVerif.Gen.Commands
/-!
# The source of `dali/address.py`, as translated on this run, equals the integer-level forms
-/
namespace DaliVerif.Tie.Address
open DaliVerif DaliVerif.AddressI

theorem fromFrame16_src (d : Int) : Gen.SrcAddress.fromFrame16 d = AddressI.fromFrame16 d := by
  unfold Gen.SrcAddress.fromFrame16 AddressI.fromFrame16 ranged sl; grind

theorem fromFrame24_src (d : Int) : Gen.SrcAddress.fromFrame24 d = AddressI.fromFrame24 d := by
  unfold Gen.SrcAddress.fromFrame24 AddressI.fromFrame24 ranged sl; grind (splits := 80)

theorem instFromFrame24_src (d : Int) : Gen.SrcAddress.instFromFrame24 d = AddressI.instFromFrame24 d := by
  unfold Gen.SrcAddress.instFromFrame24 AddressI.instFromFrame24 ranged sl; grind (splits := 80)

theorem addGearBroadcast_src (d : Int) : Gen.SrcAddress.addGearBroadcast d = AddressI.addGearBroadcast d := by
  unfold Gen.SrcAddress.addGearBroadcast AddressI.addGearBroadcast; (try unfold ranged fits put); grind

theorem addGearBroadcastUnaddressed_src (d : Int) : Gen.SrcAddress.addGearBroadcastUnaddressed d = AddressI.addGearBroadcastUnaddressed d := by
  unfold Gen.SrcAddress.addGearBroadcastUnaddressed AddressI.addGearBroadcastUnaddressed; (try unfold ranged fits put); grind

theorem addGearGroup_src (d n : Int) : Gen.SrcAddress.addGearGroup d n = AddressI.addGearGroup d n := by
  unfold Gen.SrcAddress.addGearGroup AddressI.addGearGroup; (try unfold ranged fits put); grind

theorem addGearShort_src (d n : Int) : Gen.SrcAddress.addGearShort d n = AddressI.addGearShort d n := by
  unfold Gen.SrcAddress.addGearShort AddressI.addGearShort; (try unfold ranged fits put); grind

theorem addDeviceBroadcast_src (d : Int) : Gen.SrcAddress.addDeviceBroadcast d = AddressI.addDeviceBroadcast d := by
  unfold Gen.SrcAddress.addDeviceBroadcast AddressI.addDeviceBroadcast; (try unfold ranged fits put); grind

theorem addDeviceBroadcastUnaddressed_src (d : Int) : Gen.SrcAddress.addDeviceBroadcastUnaddressed d = AddressI.addDeviceBroadcastUnaddressed d := by
  unfold Gen.SrcAddress.addDeviceBroadcastUnaddressed AddressI.addDeviceBroadcastUnaddressed; (try unfold ranged fits put); grind

theorem addDeviceGroup_src (d n : Int) : Gen.SrcAddress.addDeviceGroup d n = AddressI.addDeviceGroup d n := by
  unfold Gen.SrcAddress.addDeviceGroup AddressI.addDeviceGroup; (try unfold ranged fits put); grind

theorem addDeviceShort_src (d n : Int) : Gen.SrcAddress.addDeviceShort d n = AddressI.addDeviceShort d n := by
  unfold Gen.SrcAddress.addDeviceShort AddressI.addDeviceShort; (try unfold ranged fits put); grind

theorem addInstanceNumber_src (d n : Int) : Gen.SrcAddress.addInstanceNumber d n = AddressI.addInst 0 d n := by
  unfold Gen.SrcAddress.addInstanceNumber AddressI.addInst ranged fits put; grind

theorem addInstanceGroup_src (d n : Int) : Gen.SrcAddress.addInstanceGroup d n = AddressI.addInst 128 d n := by
  unfold Gen.SrcAddress.addInstanceGroup AddressI.addInst ranged fits put; grind

theorem addInstanceType_src (d n : Int) : Gen.SrcAddress.addInstanceType d n = AddressI.addInst 192 d n := by
  unfold Gen.SrcAddress.addInstanceType AddressI.addInst ranged fits put; grind

theorem addFeatureInstanceNumber_src (d n : Int) : Gen.SrcAddress.addFeatureInstanceNumber d n = AddressI.addInst 32 d n := by
  unfold Gen.SrcAddress.addFeatureInstanceNumber AddressI.addInst ranged fits put; grind

theorem addFeatureInstanceGroup_src (d n : Int) : Gen.SrcAddress.addFeatureInstanceGroup d n = AddressI.addInst 160 d n := by
  unfold Gen.SrcAddress.addFeatureInstanceGroup AddressI.addInst ranged fits put; grind

theorem addFeatureInstanceType_src (d n : Int) : Gen.SrcAddress.addFeatureInstanceType d n = AddressI.addInst 96 d n := by
  unfold Gen.SrcAddress.addFeatureInstanceType AddressI.addInst ranged fits put; grind

theorem addReservedInstance_src (d n : Int) : Gen.SrcAddress.addReservedInstance d n = AddressI.addReservedInstance d n := by
  unfold Gen.SrcAddress.addReservedInstance AddressI.addReservedInstance fits put; grind

theorem addFeatureInstanceBroadcast_src (d : Int) : Gen.SrcAddress.addFeatureInstanceBroadcast d = AddressI.addPlain 64768 d := by
  unfold Gen.SrcAddress.addFeatureInstanceBroadcast AddressI.addPlain; grind

theorem addInstanceBroadcast_src (d : Int) : Gen.SrcAddress.addInstanceBroadcast d = AddressI.addPlain 65280 d := by
  unfold Gen.SrcAddress.addInstanceBroadcast AddressI.addPlain; grind

theorem addFeatureDevice_src (d : Int) : Gen.SrcAddress.addFeatureDevice d = AddressI.addPlain 64512 d := by
  unfold Gen.SrcAddress.addFeatureDevice AddressI.addPlain; grind

theorem addDevice_src (d : Int) : Gen.SrcAddress.addDevice d = AddressI.addPlain 65024 d := by
  unfold Gen.SrcAddress.addDevice AddressI.addPlain; grind


/-! ## The model (and the standard's partition) as a function of the translated source

For every 16- or 24-bit frame content and every integer argument, `Model/Address.lean` computes what the source
translated on this run computes; the address kind it reads is the one the standard's partition assigns. -/
open DaliVerif.Spec

theorem order_ok : OrderOK Gen.tables.addrOrder := by decide

/-- `address.from_frame` on any 16-bit frame = the model under the regenerated registration order. -/
theorem fromFrame16_tie (n : Nat) :
    Gen.SrcAddress.fromFrame16 n = .ok (encAddr (Addr.fromFrame Gen.tables.addrOrder ⟨16, n⟩)) := by
  rw [fromFrame16_src, fromFrame16_model, Addr.fromFrame_eq_partition _ order_ok]

theorem fromFrame24_tie (n : Nat) :
    Gen.SrcAddress.fromFrame24 n = .ok (encAddr (Addr.fromFrame Gen.tables.addrOrder ⟨24, n⟩)) := by
  rw [fromFrame24_src, fromFrame24_model, Addr.fromFrame_eq_partition _ order_ok]

/-- the translated source itself obeys the standard's partition of the address byte (C04, first clause) -/
theorem fromFrame16_partition (n : Nat) :
    Gen.SrcAddress.fromFrame16 n = .ok (encAddr (gearPartition (n / 512 % 128))) := by
  rw [fromFrame16_src, fromFrame16_model]; rfl

theorem fromFrame24_partition (n : Nat) :
    Gen.SrcAddress.fromFrame24 n =
      .ok (encAddr (devicePartition (n / 65536 % 2 = 1) (n / 131072 % 128))) := by
  rw [fromFrame24_src, fromFrame24_model]; rfl

/-- `instance_from_frame` on any 24-bit frame = the model = Table 2 of part 103 -/
theorem instFromFrame24_tie (n : Nat) :
    Gen.SrcAddress.instFromFrame24 n = .ok ((Inst.fromFrame ⟨24, n⟩).elim ("None", 0) encInst) := by
  rw [instFromFrame24_src, instFromFrame24_model, Inst.fromFrame_eq_ofByteModel]
  have := Inst.ofByteModel_eq_spec ⟨n / 256 % 256, Nat.mod_lt _ (by decide)⟩
  simp only [Option.elim]
  rw [this]

theorem addGearShort_tie (d : Nat) (n : Int) : Gen.SrcAddress.addGearShort d n =
    (Addr.mkGearShort (.int n)).bind (fun a => dataOf (a.addToFrame ⟨16, d⟩)) := by
  rw [addGearShort_src, addGearShort_model]
theorem addGearGroup_tie (d : Nat) (n : Int) : Gen.SrcAddress.addGearGroup d n =
    (Addr.mkGearGroup (.int n)).bind (fun a => dataOf (a.addToFrame ⟨16, d⟩)) := by
  rw [addGearGroup_src, addGearGroup_model]
theorem addDeviceShort_tie (d : Nat) (n : Int) : Gen.SrcAddress.addDeviceShort d n =
    (Addr.mkDeviceShort (.int n)).bind (fun a => dataOf (a.addToFrame ⟨24, d⟩)) := by
  rw [addDeviceShort_src, addDeviceShort_model]
theorem addDeviceGroup_tie (d : Nat) (n : Int) : Gen.SrcAddress.addDeviceGroup d n =
    (Addr.mkDeviceGroup (.int n)).bind (fun a => dataOf (a.addToFrame ⟨24, d⟩)) := by
  rw [addDeviceGroup_src, addDeviceGroup_model]
theorem addGearBroadcast_tie (d : Nat) : Gen.SrcAddress.addGearBroadcast d =
    dataOf (Addr.gearBroadcast.addToFrame ⟨16, d⟩) := by
  rw [addGearBroadcast_src, addGearBroadcast_model]
theorem addGearBroadcastUnaddressed_tie (d : Nat) : Gen.SrcAddress.addGearBroadcastUnaddressed d =
    dataOf (Addr.gearUnaddressed.addToFrame ⟨16, d⟩) := by
  rw [addGearBroadcastUnaddressed_src, addGearBroadcastUnaddressed_model]
theorem addDeviceBroadcast_tie (d : Nat) : Gen.SrcAddress.addDeviceBroadcast d =
    dataOf (Addr.deviceBroadcast.addToFrame ⟨24, d⟩) := by
  rw [addDeviceBroadcast_src, addDeviceBroadcast_model]
theorem addDeviceBroadcastUnaddressed_tie (d : Nat) : Gen.SrcAddress.addDeviceBroadcastUnaddressed d =
    dataOf (Addr.deviceUnaddressed.addToFrame ⟨24, d⟩) := by
  rw [addDeviceBroadcastUnaddressed_src, addDeviceBroadcastUnaddressed_model]
theorem addInstanceNumber_tie (d : Nat) (n : Int) : Gen.SrcAddress.addInstanceNumber d n =
    (Inst.mkNumbered Inst.number (.int n)).bind (fun i => dataOf (i.addToFrame ⟨24, d⟩)) := by
  rw [addInstanceNumber_src, addInst_model Inst.number 0 (fun _ => rfl)]
theorem addInstanceGroup_tie (d : Nat) (n : Int) : Gen.SrcAddress.addInstanceGroup d n =
    (Inst.mkNumbered Inst.group (.int n)).bind (fun i => dataOf (i.addToFrame ⟨24, d⟩)) := by
  rw [addInstanceGroup_src, addInst_model Inst.group 128 (fun _ => rfl)]
theorem addInstanceType_tie (d : Nat) (n : Int) : Gen.SrcAddress.addInstanceType d n =
    (Inst.mkNumbered Inst.type (.int n)).bind (fun i => dataOf (i.addToFrame ⟨24, d⟩)) := by
  rw [addInstanceType_src, addInst_model Inst.type 192 (fun _ => rfl)]
theorem addFeatureInstanceNumber_tie (d : Nat) (n : Int) : Gen.SrcAddress.addFeatureInstanceNumber d n =
    (Inst.mkNumbered Inst.featNumber (.int n)).bind (fun i => dataOf (i.addToFrame ⟨24, d⟩)) := by
  rw [addFeatureInstanceNumber_src, addInst_model Inst.featNumber 32 (fun _ => rfl)]
theorem addFeatureInstanceGroup_tie (d : Nat) (n : Int) : Gen.SrcAddress.addFeatureInstanceGroup d n =
    (Inst.mkNumbered Inst.featGroup (.int n)).bind (fun i => dataOf (i.addToFrame ⟨24, d⟩)) := by
  rw [addFeatureInstanceGroup_src, addInst_model Inst.featGroup 160 (fun _ => rfl)]
theorem addFeatureInstanceType_tie (d : Nat) (n : Int) : Gen.SrcAddress.addFeatureInstanceType d n =
    (Inst.mkNumbered Inst.featType (.int n)).bind (fun i => dataOf (i.addToFrame ⟨24, d⟩)) := by
  rw [addFeatureInstanceType_src, addInst_model Inst.featType 96 (fun _ => rfl)]
theorem addReservedInstance_tie (d b : Nat) : Gen.SrcAddress.addReservedInstance d b =
    dataOf ((Inst.reserved b).addToFrame ⟨24, d⟩) := by
  rw [addReservedInstance_src, addReserved_model]
theorem addFeatureInstanceBroadcast_tie (d : Nat) : Gen.SrcAddress.addFeatureInstanceBroadcast d =
    dataOf (Inst.featBroadcast.addToFrame ⟨24, d⟩) := by
  rw [addFeatureInstanceBroadcast_src]; exact addPlain_model Inst.featBroadcast d (by decide)
theorem addInstanceBroadcast_tie (d : Nat) : Gen.SrcAddress.addInstanceBroadcast d =
    dataOf (Inst.broadcast.addToFrame ⟨24, d⟩) := by
  rw [addInstanceBroadcast_src]; exact addPlain_model Inst.broadcast d (by decide)
theorem addFeatureDevice_tie (d : Nat) : Gen.SrcAddress.addFeatureDevice d =
    dataOf (Inst.featDevice.addToFrame ⟨24, d⟩) := by
  rw [addFeatureDevice_src]; exact addPlain_model Inst.featDevice d (by decide)
theorem addDevice_tie (d : Nat) : Gen.SrcAddress.addDevice d =
    dataOf (Inst.device.addToFrame ⟨24, d⟩) := by
  rw [addDevice_src]; exact addPlain_model Inst.device d (by decide)

end DaliVerif.Tie.Address
