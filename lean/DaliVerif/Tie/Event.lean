import DaliVerif.Gen.SrcEvent
import DaliVerif.Model.EventI
import DaliVerif.Proofs.EventI
/-!
# The event constructor, as translated from the source on this run, equals the integer-level forms
-/
namespace DaliVerif.Tie.Event
open DaliVerif DaliVerif.EventI DaliVerif.AddressI

macro "ev_unfold" : tactic => `(tactic|
  simp only [EventI.device, EventI.deviceInstance, EventI.deviceGroup, EventI.instanceGroup, EventI.inst,
    EventI.start, EventI.put1410, EventI.put2117, EventI.put90, EventI.light, EventI.occ, EventI.done,
    EventI.clr23, EventI.set23, EventI.clr22, EventI.set22, EventI.clr15, EventI.set15,
    AddressI.addDeviceShort, AddressI.ranged, AddressI.fits, AddressI.put])

theorem ev_device_src (info itype sa : Int) :
    Gen.SrcEvent.ev_device info itype sa = EventI.device info itype sa done := by
  unfold Gen.SrcEvent.ev_device; ev_unfold; grind
theorem ev_deviceInstance_src (info itype sa inum : Int) :
    Gen.SrcEvent.ev_deviceInstance info itype sa inum = EventI.deviceInstance info inum sa done := by
  unfold Gen.SrcEvent.ev_deviceInstance; ev_unfold; grind
theorem ev_deviceGroup_src (info itype g : Int) :
    Gen.SrcEvent.ev_deviceGroup info itype g = EventI.deviceGroup info itype g done := by
  unfold Gen.SrcEvent.ev_deviceGroup; ev_unfold; grind
theorem ev_instanceGroup_src (info itype g : Int) :
    Gen.SrcEvent.ev_instanceGroup info itype g = EventI.instanceGroup info itype g done := by
  unfold Gen.SrcEvent.ev_instanceGroup; ev_unfold; grind
theorem ev_inst_src (info itype inum : Int) :
    Gen.SrcEvent.ev_inst info itype inum = EventI.inst info itype inum done := by
  unfold Gen.SrcEvent.ev_inst; ev_unfold; grind

theorem evLight_device_src (info itype sa data : Int) :
    Gen.SrcEvent.evLight_device info itype sa data = EventI.device info itype sa (EventI.light data) := by
  unfold Gen.SrcEvent.evLight_device; ev_unfold; grind
theorem evLight_deviceInstance_src (info itype sa inum data : Int) :
    Gen.SrcEvent.evLight_deviceInstance info itype sa inum data =
      EventI.deviceInstance info inum sa (EventI.light data) := by
  unfold Gen.SrcEvent.evLight_deviceInstance; ev_unfold; grind
theorem evLight_deviceGroup_src (info itype g data : Int) :
    Gen.SrcEvent.evLight_deviceGroup info itype g data = EventI.deviceGroup info itype g (EventI.light data) := by
  unfold Gen.SrcEvent.evLight_deviceGroup; ev_unfold; grind
theorem evLight_instanceGroup_src (info itype g data : Int) :
    Gen.SrcEvent.evLight_instanceGroup info itype g data =
      EventI.instanceGroup info itype g (EventI.light data) := by
  unfold Gen.SrcEvent.evLight_instanceGroup; ev_unfold; grind
theorem evLight_inst_src (info itype inum data : Int) :
    Gen.SrcEvent.evLight_inst info itype inum data = EventI.inst info itype inum (EventI.light data) := by
  unfold Gen.SrcEvent.evLight_inst; ev_unfold; grind

theorem evOcc_device_src (info itype sa data : Int) :
    Gen.SrcEvent.evOcc_device info itype sa data = EventI.device info itype sa (EventI.occ data) := by
  unfold Gen.SrcEvent.evOcc_device; ev_unfold; grind (splits := 80)
theorem evOcc_deviceInstance_src (info itype sa inum data : Int) :
    Gen.SrcEvent.evOcc_deviceInstance info itype sa inum data =
      EventI.deviceInstance info inum sa (EventI.occ data) := by
  unfold Gen.SrcEvent.evOcc_deviceInstance; ev_unfold; grind (splits := 80)
theorem evOcc_deviceGroup_src (info itype g data : Int) :
    Gen.SrcEvent.evOcc_deviceGroup info itype g data = EventI.deviceGroup info itype g (EventI.occ data) := by
  unfold Gen.SrcEvent.evOcc_deviceGroup; ev_unfold; grind (splits := 80)
theorem evOcc_instanceGroup_src (info itype g data : Int) :
    Gen.SrcEvent.evOcc_instanceGroup info itype g data =
      EventI.instanceGroup info itype g (EventI.occ data) := by
  unfold Gen.SrcEvent.evOcc_instanceGroup; ev_unfold; grind (splits := 80)
theorem evOcc_inst_src (info itype inum data : Int) :
    Gen.SrcEvent.evOcc_inst info itype inum data = EventI.inst info itype inum (EventI.occ data) := by
  unfold Gen.SrcEvent.evOcc_inst; ev_unfold; grind (splits := 80)


/-! ## The model's event frames as a function of the translated constructor

For every push-button event class record, every instance type and every field value (natural numbers of any
size: the range checks are part of both sides), and for the light-sensor event every illuminance value: the
frame `Cmd.encode` assigns — or its exception — is what the constructor translated on this run yields. -/
open DaliVerif.Cmd

theorem encode_push (cls : String) (itype : Nat) (src : EventSrc) (pc : PushClass) :
    Cmd.encode (.event cls itype src (.pushbutton pc)) =
      (newFrame 24 pc.info).bind (fun f => (eventSrcToFrame f itype src).bind (fun f => .ok f)) := by
  simp only [Cmd.encode, bind, pure, Except.pure]

theorem encode_light (cls : String) (itype : Nat) (src : EventSrc) (v : Nat) :
    Cmd.encode (.event cls itype src (.light v)) =
      (newFrame 24 0).bind (fun f => (eventSrcToFrame f itype src).bind (fun f => Cmd.setSlice f 9 0 v)) := by
  simp only [Cmd.encode, bind, pure, Except.pure]

theorem ev_device_tie (cls : String) (pc : PushClass) (itype sa : Nat) :
    Gen.SrcEvent.ev_device pc.info itype sa =
      dataOf (Cmd.encode (.event cls itype (.device sa) (.pushbutton pc))) := by
  rw [ev_device_src, encode_push]; exact device_model _ _ _ _ _ cont_done
theorem ev_deviceInstance_tie (cls : String) (pc : PushClass) (itype sa inum : Nat) :
    Gen.SrcEvent.ev_deviceInstance pc.info itype sa inum =
      dataOf (Cmd.encode (.event cls itype (.deviceInstance sa inum) (.pushbutton pc))) := by
  rw [ev_deviceInstance_src, encode_push]; exact deviceInstance_model _ _ _ _ _ _ cont_done
theorem ev_deviceGroup_tie (cls : String) (pc : PushClass) (itype g : Nat) :
    Gen.SrcEvent.ev_deviceGroup pc.info itype g =
      dataOf (Cmd.encode (.event cls itype (.deviceGroup g) (.pushbutton pc))) := by
  rw [ev_deviceGroup_src, encode_push]; exact deviceGroup_model _ _ _ _ _ cont_done
theorem ev_instanceGroup_tie (cls : String) (pc : PushClass) (itype g : Nat) :
    Gen.SrcEvent.ev_instanceGroup pc.info itype g =
      dataOf (Cmd.encode (.event cls itype (.instanceGroup g) (.pushbutton pc))) := by
  rw [ev_instanceGroup_src, encode_push]; exact instanceGroup_model _ _ _ _ _ cont_done
theorem ev_inst_tie (cls : String) (pc : PushClass) (itype inum : Nat) :
    Gen.SrcEvent.ev_inst pc.info itype inum =
      dataOf (Cmd.encode (.event cls itype (.inst inum) (.pushbutton pc))) := by
  rw [ev_inst_src, encode_push]; exact inst_model _ _ _ _ _ cont_done

theorem evLight_device_tie (cls : String) (itype sa v : Nat) :
    Gen.SrcEvent.evLight_device 0 itype sa v =
      dataOf (Cmd.encode (.event cls itype (.device sa) (.light v))) := by
  rw [evLight_device_src, encode_light]; exact device_model 0 _ _ _ _ (cont_light v)
theorem evLight_deviceInstance_tie (cls : String) (itype sa inum v : Nat) :
    Gen.SrcEvent.evLight_deviceInstance 0 itype sa inum v =
      dataOf (Cmd.encode (.event cls itype (.deviceInstance sa inum) (.light v))) := by
  rw [evLight_deviceInstance_src, encode_light]; exact deviceInstance_model 0 _ _ _ _ _ (cont_light v)
theorem evLight_deviceGroup_tie (cls : String) (itype g v : Nat) :
    Gen.SrcEvent.evLight_deviceGroup 0 itype g v =
      dataOf (Cmd.encode (.event cls itype (.deviceGroup g) (.light v))) := by
  rw [evLight_deviceGroup_src, encode_light]; exact deviceGroup_model 0 _ _ _ _ (cont_light v)
theorem evLight_instanceGroup_tie (cls : String) (itype g v : Nat) :
    Gen.SrcEvent.evLight_instanceGroup 0 itype g v =
      dataOf (Cmd.encode (.event cls itype (.instanceGroup g) (.light v))) := by
  rw [evLight_instanceGroup_src, encode_light]; exact instanceGroup_model 0 _ _ _ _ (cont_light v)
theorem evLight_inst_tie (cls : String) (itype inum v : Nat) :
    Gen.SrcEvent.evLight_inst 0 itype inum v =
      dataOf (Cmd.encode (.event cls itype (.inst inum) (.light v))) := by
  rw [evLight_inst_src, encode_light]; exact inst_model 0 _ _ _ _ (cont_light v)

/-! ### The occupancy event (part 303): `data` given as an integer

For every integer `data` (of any size — the constructor does not range-check it; only its low four bits are
looked at) the translated constructor yields the frame `Cmd.encode` assigns to the event whose four flags are
those bits, under every addressing scheme, or the same exception. -/
theorem encode_occ (cls : String) (itype : Nat) (src : EventSrc) (mv oc rp sm : Bool) :
    Cmd.encode (.event cls itype src (.occupancy mv oc rp sm)) =
      (newFrame 24 0).bind (fun f => (eventSrcToFrame f itype src).bind (EventI.occK mv oc rp sm)) := by
  simp only [Cmd.encode, bind, pure, Except.pure]
  rfl

/-- the flags an integer `data` stands for (`OccupancyEvent._set_event_data`) -/
def occOf (cls : String) (itype : Nat) (src : EventSrc) (data : Nat) : Cmd :=
  .event cls itype src (.occupancy (data &&& 1 == 1) (data &&& 2 == 2) (data &&& 4 == 4) (data &&& 8 == 8))

theorem evOcc_device_tie (cls : String) (itype sa data : Nat) :
    Gen.SrcEvent.evOcc_device 0 itype sa data = dataOf (Cmd.encode (occOf cls itype (.device sa) data)) := by
  rw [evOcc_device_src, occOf, encode_occ]; exact device_model 0 _ _ _ _ (cont_occ data)
theorem evOcc_deviceInstance_tie (cls : String) (itype sa inum data : Nat) :
    Gen.SrcEvent.evOcc_deviceInstance 0 itype sa inum data =
      dataOf (Cmd.encode (occOf cls itype (.deviceInstance sa inum) data)) := by
  rw [evOcc_deviceInstance_src, occOf, encode_occ]; exact deviceInstance_model 0 _ _ _ _ _ (cont_occ data)
theorem evOcc_deviceGroup_tie (cls : String) (itype g data : Nat) :
    Gen.SrcEvent.evOcc_deviceGroup 0 itype g data =
      dataOf (Cmd.encode (occOf cls itype (.deviceGroup g) data)) := by
  rw [evOcc_deviceGroup_src, occOf, encode_occ]; exact deviceGroup_model 0 _ _ _ _ (cont_occ data)
theorem evOcc_instanceGroup_tie (cls : String) (itype g data : Nat) :
    Gen.SrcEvent.evOcc_instanceGroup 0 itype g data =
      dataOf (Cmd.encode (occOf cls itype (.instanceGroup g) data)) := by
  rw [evOcc_instanceGroup_src, occOf, encode_occ]; exact instanceGroup_model 0 _ _ _ _ (cont_occ data)
theorem evOcc_inst_tie (cls : String) (itype inum data : Nat) :
    Gen.SrcEvent.evOcc_inst 0 itype inum data = dataOf (Cmd.encode (occOf cls itype (.inst inum) data)) := by
  rw [evOcc_inst_src, occOf, encode_occ]; exact inst_model 0 _ _ _ _ (cont_occ data)

end DaliVerif.Tie.Event
