import DaliVerif.Gen.SrcSpecial
import DaliVerif.Gen.Commands
import DaliVerif.Model.Decode
import DaliVerif.Proofs.AddressI
/-!
# The special-command constructors, as translated from the source on this run, equal the model's `encode`

`_SpecialCommand.__init__` builds `ForwardFrame(16, (self._cmdval, self.param))` from a byte TUPLE; the source
translator reads `int.from_bytes(·, 'big')` as "each element in range(0, 256), then shift-and-or" (its `_IntShim`,
DESIGN II.8) and prints `Gen.SrcSpecial.*` with the class's code symbolic: the plain special commands with and
without parameter, `_ShortAddrSpecialCommand.__init__` (integer address and "MASK") and `Initialise.__init__`
(every combination of its two keywords).  Here: for every class record and every argument (natural numbers of
any size — the range checks are on both sides) each definition is `Cmd.encode`'s frame or the same exception.
-/
namespace DaliVerif.Tie.Special
open DaliVerif DaliVerif.Frame DaliVerif.Cmd DaliVerif.AddressI

/-- two bytes, most significant first: what `int.from_bytes((a, b), 'big')` and the shift-and-or spell alike -/
theorem twoBytes (a b : Nat) (hb : b < 256) :
    pyOr (pyShl (pyOr 0 (a : Int)) 8) (b : Int) = ((ofBytesBE [a, b] : Nat) : Int) := by
  rw [show (0 : Int) = ((0 : Nat) : Int) from rfl, show (8 : Int) = ((8 : Nat) : Int) from rfl,
    pyOr_ofNat, pyShl_ofNat, pyOr_ofNat]
  have h : (0 ||| a) <<< 8 ||| b = (0 * 256 + a) * 256 + b := by
    have := Nat.shiftLeft_add_eq_or_of_lt (show b < 2 ^ 8 by omega) a
    rw [Nat.zero_or, ← this, Nat.shiftLeft_eq]; omega
  simp only [ofBytesBE, List.foldl]
  rw [h]

/-- what every one of these constructors ends in once the second byte `p` is known to be a byte: the code's own
range check (inside `int.from_bytes`), then `Frame.__init__`'s sign and width checks -/
def tail (cv p : Int) : Except PyErr Int :=
  if cv < 0 then .error .ValueError
  else if cv > 255 then .error .ValueError
  else if pyOr (pyShl (pyOr 0 cv) 8) p < 0 then .error .ValueError
  else if (bitLength (pyOr (pyShl (pyOr 0 cv) 8) p) : Int) > 16 then .error .ValueError
  else .ok (pyOr (pyShl (pyOr 0 cv) 8) p)

theorem tail_model (cv p : Nat) (hp : p < 256) :
    tail cv p = dataOf (Frame.new (natVal 16) (.ints [(cv : Int), (p : Int)])) := by
  unfold tail
  have hc0 : ¬ ((cv : Int) < 0) := by omega
  have hp0 : (0 : Int) ≤ (p : Int) := by omega
  have hpI : (p : Int) < 256 := by omega
  by_cases hcv : (cv : Int) > 255
  · have hcvI : ¬ ((cv : Int) < 256) := by omega
    simp [hc0, hcv, hcvI, dataOf, Except.map, Frame.new, natVal, PyVal.asInt?]
  · have hcvI : (cv : Int) < 256 := by omega
    rw [twoBytes _ _ hp]
    simp only [hc0, hcv, hcvI, hpI, hp0, dataOf, Except.map, Frame.new, natVal, PyVal.asInt?, List.all_cons,
      List.all_nil, List.map, Int.toNat_natCast, Int.natCast_nonneg, decide_true, Bool.and_true, Bool.true_and,
      decide_eq_true_eq, and_self, ite_true, if_true, if_false, Bool.or_self, Bool.false_eq_true, decide_false,
      Int.ofNat_eq_natCast]
    generalize ofBytesBE [cv, p] = n
    have hn : ¬ ((n : Int) < 0) := by omega
    by_cases hb : 16 < bitLength (n : Int)
    · have hb' : (16 : Int) < ((bitLength (n : Int) : Nat) : Int) := by exact_mod_cast hb
      simp [hn, hb, hb']
    · have hb' : ¬ (16 : Int) < ((bitLength (n : Int) : Nat) : Int) := by exact_mod_cast hb
      simp [hn, hb, hb']

/-! ## the translated definitions in terms of `tail` -/
theorem specialNoParam_src (cv : Int) : Gen.SrcSpecial.specialNoParam cv = tail cv 0 := by
  unfold Gen.SrcSpecial.specialNoParam tail; rfl
theorem specialParam_src (cv p : Int) :
    Gen.SrcSpecial.specialParam cv p =
      if p < 0 then .error .ValueError else if p > 255 then .error .ValueError else tail cv p := by
  unfold Gen.SrcSpecial.specialParam tail; grind
theorem shortSpecialMask_src (cv : Int) : Gen.SrcSpecial.shortSpecialMask cv = tail cv 255 := by
  unfold Gen.SrcSpecial.shortSpecialMask tail; rfl
theorem shortSpecial_src (cv a : Int) :
    Gen.SrcSpecial.shortSpecial cv a =
      if a < 0 then .error .ValueError else if a > 63 then .error .ValueError
      else if pyOr (pyShl a 1) 1 < 0 then .error .ValueError
      else if pyOr (pyShl a 1) 1 > 255 then .error .ValueError
      else tail cv (pyOr (pyShl a 1) 1) := by
  unfold Gen.SrcSpecial.shortSpecial tail; grind
theorem initialiseAddr_src (cv a : Int) :
    Gen.SrcSpecial.initialiseAddr cv a =
      if a < 0 then .error .ValueError else if a > 63 then .error .ValueError
      else if pyOr (pyShl a 1) 1 < 0 then .error .ValueError
      else if pyOr (pyShl a 1) 1 > 255 then .error .ValueError
      else tail cv (pyOr (pyShl a 1) 1) := by
  unfold Gen.SrcSpecial.initialiseAddr tail; grind
theorem initialiseBroadcast_src (cv : Int) : Gen.SrcSpecial.initialiseBroadcast cv = tail cv 0 := by
  unfold Gen.SrcSpecial.initialiseBroadcast tail; rfl
theorem initialiseUnaddressed_src (cv : Int) : Gen.SrcSpecial.initialiseUnaddressed cv = tail cv 255 := by
  unfold Gen.SrcSpecial.initialiseUnaddressed tail; rfl

/-- the second byte of a short-address special command: `(address << 1) | 1`, a byte for addresses 0..63 -/
theorem addrByte (a : Nat) (ha : a ≤ 63) :
    pyOr (pyShl (a : Int) 1) 1 = (((a <<< 1) ||| 1 : Nat) : Int) ∧ ((a <<< 1) ||| 1) < 256 := by
  constructor
  · rw [show (1 : Int) = ((1 : Nat) : Int) from rfl, pyShl_ofNat, pyOr_ofNat]
  · have h1 : a <<< 1 < 2 ^ 8 := by rw [Nat.shiftLeft_eq]; omega
    exact Nat.or_lt_two_pow h1 (by decide)

/-! ## the ties -/
theorem specialParam_tie (c : SpecialClass) (hc : c.hasparam = true) (param : Nat) :
    Gen.SrcSpecial.specialParam c.cmdval param = dataOf (Cmd.encode (.special c param)) := by
  rw [specialParam_src]
  simp only [Cmd.encode, hc, rangeCheck, bind, Except.bind, ite_true]
  have hp0 : ¬ ((param : Int) < 0) := by omega
  by_cases hp : (param : Int) > 255
  · simp [hp0, hp, dataOf, Except.map]
  · have hp' : param < 256 := by omega
    rw [if_neg hp0, if_neg hp, tail_model _ _ hp']
    simp [hp0, hp]

theorem specialNoParam_tie (c : SpecialClass) (hc : c.hasparam = false) (p : Nat) :
    Gen.SrcSpecial.specialNoParam c.cmdval = dataOf (Cmd.encode (.special c p)) := by
  rw [specialNoParam_src]
  simp only [Cmd.encode, hc, bind, Except.bind]
  rw [show (0 : Int) = ((0 : Nat) : Int) from rfl, tail_model _ _ (by decide)]
  try simp

theorem shortSpecialMask_tie (c : SpecialClass) :
    Gen.SrcSpecial.shortSpecialMask c.cmdval = dataOf (Cmd.encode (.shortSpecial c none)) := by
  rw [shortSpecialMask_src]
  simp only [Cmd.encode, bind, Except.bind, pure, Except.pure]
  rw [show (255 : Int) = ((255 : Nat) : Int) from rfl, tail_model _ _ (by decide)]
  try simp

theorem shortSpecial_tie (c : SpecialClass) (a : Nat) :
    Gen.SrcSpecial.shortSpecial c.cmdval a = dataOf (Cmd.encode (.shortSpecial c (some a))) := by
  rw [shortSpecial_src]
  simp only [Cmd.encode, rangeCheck, bind, Except.bind, pure, Except.pure]
  have ha0 : ¬ ((a : Int) < 0) := by omega
  by_cases ha : (a : Int) > 63
  · simp [ha0, ha, dataOf, Except.map]
  · obtain ⟨e, hlt⟩ := addrByte a (by omega)
    have h1 : ¬ ((((a <<< 1) ||| 1 : Nat) : Int) < 0) := by omega
    have h2 : ¬ ((((a <<< 1) ||| 1 : Nat) : Int) > 255) := by omega
    rw [if_neg ha0, if_neg ha, e, if_neg h1, if_neg h2, tail_model _ _ hlt]
    simp [ha0, ha]

theorem initialiseAddr_tie (c : SpecialClass) (a : Nat) :
    Gen.SrcSpecial.initialiseAddr c.cmdval a = dataOf (Cmd.encode (.initialise c false (some a))) := by
  rw [initialiseAddr_src]
  simp only [Cmd.encode, rangeCheck, bind, Except.bind, pure, Except.pure]
  have ha0 : ¬ ((a : Int) < 0) := by omega
  by_cases ha : (a : Int) > 63
  · simp [ha0, ha, dataOf, Except.map]
  · obtain ⟨e, hlt⟩ := addrByte a (by omega)
    have h1 : ¬ ((((a <<< 1) ||| 1 : Nat) : Int) < 0) := by omega
    have h2 : ¬ ((((a <<< 1) ||| 1 : Nat) : Int) > 255) := by omega
    rw [if_neg ha0, if_neg ha, e, if_neg h1, if_neg h2, tail_model _ _ hlt]
    simp [ha0, ha]

theorem initialiseBroadcastAddr_tie (c : SpecialClass) (a : Nat) :
    Gen.SrcSpecial.initialiseBroadcastAddr c.cmdval a = dataOf (Cmd.encode (.initialise c true (some a))) := by
  unfold Gen.SrcSpecial.initialiseBroadcastAddr
  simp [Cmd.encode, dataOf, Except.map, bind, Except.bind]

theorem initialiseBroadcast_tie (c : SpecialClass) :
    Gen.SrcSpecial.initialiseBroadcast c.cmdval = dataOf (Cmd.encode (.initialise c true none)) := by
  rw [initialiseBroadcast_src]
  simp only [Cmd.encode, bind, Except.bind, pure, Except.pure]
  rw [show (0 : Int) = ((0 : Nat) : Int) from rfl, tail_model _ _ (by decide)]
  try simp

theorem initialiseUnaddressed_tie (c : SpecialClass) :
    Gen.SrcSpecial.initialiseUnaddressed c.cmdval = dataOf (Cmd.encode (.initialise c false none)) := by
  rw [initialiseUnaddressed_src]
  simp only [Cmd.encode, bind, Except.bind, pure, Except.pure]
  rw [show (255 : Int) = ((255 : Nat) : Int) from rfl, tail_model _ _ (by decide)]
  try simp


/-! ## The 24-bit special commands of part 103: three bytes -/

theorem shlOr (n c : Nat) (hc : c < 256) : pyOr (pyShl (n : Int) 8) (c : Int) = ((n * 256 + c : Nat) : Int) := by
  rw [show (8 : Int) = ((8 : Nat) : Int) from rfl, pyShl_ofNat, pyOr_ofNat]
  have := Nat.shiftLeft_add_eq_or_of_lt (show c < 2 ^ 8 by omega) n
  rw [← this, Nat.shiftLeft_eq]

theorem threeBytes (a b c : Nat) (hb : b < 256) (hc : c < 256) :
    pyOr (pyShl (pyOr (pyShl (pyOr 0 (a : Int)) 8) (b : Int)) 8) (c : Int) = ((ofBytesBE [a, b, c] : Nat) : Int) := by
  rw [twoBytes a b hb, shlOr _ _ hc]
  simp [ofBytesBE, List.foldl]

/-- what the three device special-command constructors end in: `int.from_bytes`' element checks left to right,
then `Frame.__init__`'s sign and width checks -/
def tail3 (x y z : Int) : Except PyErr Int :=
  if x < 0 then .error .ValueError
  else if x > 255 then .error .ValueError
  else if y < 0 then .error .ValueError
  else if y > 255 then .error .ValueError
  else if z < 0 then .error .ValueError
  else if z > 255 then .error .ValueError
  else if pyOr (pyShl (pyOr (pyShl (pyOr 0 x) 8) y) 8) z < 0 then .error .ValueError
  else if (bitLength (pyOr (pyShl (pyOr (pyShl (pyOr 0 x) 8) y) 8) z) : Int) > 24 then .error .ValueError
  else .ok (pyOr (pyShl (pyOr (pyShl (pyOr 0 x) 8) y) 8) z)

theorem tail3_model (x y z : Nat) :
    tail3 x y z = dataOf (Frame.new (natVal 24) (.ints [(x : Int), (y : Int), (z : Int)])) := by
  unfold tail3
  have hx0 : ¬ ((x : Int) < 0) := by omega
  have hy0 : ¬ ((y : Int) < 0) := by omega
  have hz0 : ¬ ((z : Int) < 0) := by omega
  by_cases hx : (x : Int) > 255
  · have hxI : ¬ ((x : Int) < 256) := by omega
    simp [hx0, hx, hxI, dataOf, Except.map, Frame.new, natVal, PyVal.asInt?]
  · have hxI : (x : Int) < 256 := by omega
    by_cases hy : (y : Int) > 255
    · have hyI : ¬ ((y : Int) < 256) := by omega
      simp [hx0, hx, hxI, hy0, hy, hyI, dataOf, Except.map, Frame.new, natVal, PyVal.asInt?]
    · have hyI : (y : Int) < 256 := by omega
      by_cases hz : (z : Int) > 255
      · have hzI : ¬ ((z : Int) < 256) := by omega
        simp [hx0, hx, hxI, hy0, hy, hyI, hz0, hz, hzI, dataOf, Except.map, Frame.new, natVal, PyVal.asInt?]
      · have hzI : (z : Int) < 256 := by omega
        rw [threeBytes _ _ _ (by omega) (by omega)]
        simp only [hx0, hx, hxI, hy0, hy, hyI, hz0, hz, hzI, dataOf, Except.map, Frame.new, natVal, PyVal.asInt?,
          List.all_cons, List.all_nil, List.map, Int.toNat_natCast, Int.natCast_nonneg, decide_true, Bool.and_true,
          Bool.true_and, decide_eq_true_eq, and_self, ite_true, if_true, if_false, Bool.or_self, Bool.false_eq_true,
          decide_false, Int.ofNat_eq_natCast]
        generalize ofBytesBE [x, y, z] = n
        have hn : ¬ ((n : Int) < 0) := by omega
        by_cases hb : 24 < bitLength (n : Int)
        · have hb' : (24 : Int) < ((bitLength (n : Int) : Nat) : Int) := by exact_mod_cast hb
          simp [hn, hb, hb']
        · have hb' : ¬ (24 : Int) < ((bitLength (n : Int) : Nat) : Int) := by exact_mod_cast hb
          simp [hn, hb, hb']

theorem devSpecial0_src (a i : Int) : Gen.SrcSpecial.devSpecial0 a i = tail3 a i 0 := by
  unfold Gen.SrcSpecial.devSpecial0 tail3; grind
theorem devSpecial1_src (a i p : Int) :
    Gen.SrcSpecial.devSpecial1 a i p =
      if p < 0 then .error .ValueError else if p > 255 then .error .ValueError else tail3 a i p := by
  unfold Gen.SrcSpecial.devSpecial1 tail3; grind
theorem devSpecial2_src (addr a b : Int) :
    Gen.SrcSpecial.devSpecial2 addr a b =
      if a < 0 then .error .ValueError else if a > 255 then .error .ValueError
      else if b < 0 then .error .ValueError else if b > 255 then .error .ValueError else tail3 addr a b := by
  unfold Gen.SrcSpecial.devSpecial2 tail3; grind

theorem devSpecial0_tie (c : DevSpecialClass) (hk : c.kind = .zero) :
    Gen.SrcSpecial.devSpecial0 c.addr c.inst = dataOf (Cmd.encode (.devSpecial c c.inst 0)) := by
  rw [devSpecial0_src, show (0 : Int) = ((0 : Nat) : Int) from rfl, tail3_model]
  simp [Cmd.encode, hk, bind, Except.bind, pure, Except.pure]

theorem devSpecial1_tie (c : DevSpecialClass) (hk : c.kind = .one) (p : Nat) :
    Gen.SrcSpecial.devSpecial1 c.addr c.inst p = dataOf (Cmd.encode (.devSpecial c c.inst p)) := by
  rw [devSpecial1_src, tail3_model]
  have hp0 : ¬ ((p : Int) < 0) := by omega
  by_cases hp : (p : Int) > 255
  · simp [Cmd.encode, hk, rangeCheck, hp0, hp, dataOf, Except.map, bind, Except.bind]
  · simp [Cmd.encode, hk, rangeCheck, hp0, hp, bind, Except.bind, pure, Except.pure]

theorem devSpecial2_tie (c : DevSpecialClass) (hk : c.kind = .two) (a b : Nat) :
    Gen.SrcSpecial.devSpecial2 c.addr a b = dataOf (Cmd.encode (.devSpecial c a b)) := by
  rw [devSpecial2_src, tail3_model]
  have ha0 : ¬ ((a : Int) < 0) := by omega
  have hb0 : ¬ ((b : Int) < 0) := by omega
  by_cases ha : (a : Int) > 255
  · simp [Cmd.encode, hk, rangeCheck, ha0, ha, dataOf, Except.map, bind, Except.bind]
  · by_cases hb : (b : Int) > 255
    · simp [Cmd.encode, hk, rangeCheck, ha0, ha, hb0, hb, dataOf, Except.map, bind, Except.bind]
    · simp [Cmd.encode, hk, rangeCheck, ha0, ha, hb0, hb, bind, Except.bind, pure, Except.pure]

/-- every class the data translator found registered as a special command whose constructor is one of the three
translated ones is a class the source translator traced -/
theorem special_rows_traced :
    Gen.tables.specialOpcodes.all (fun e =>
      match e.2.kind with
      | .plain => if e.2.hasparam then Gen.SrcSpecial.specialParamKeys.contains (0, e.2.cmdval)
                  else Gen.SrcSpecial.specialNoParamKeys.contains (0, e.2.cmdval)
      | .shortAddr => Gen.SrcSpecial.shortSpecialKeys.contains (0, e.2.cmdval)
      | .initialise => Gen.SrcSpecial.initialiseKeys.contains (0, e.2.cmdval)
      | .custom => true) = true := by
  decide +kernel

/-- every registered 24-bit special command of one of the three constructor kinds is a traced class -/
theorem devSpecial_rows_traced :
    Gen.tables.devCommands.all (fun e =>
      match e with
      | .special c =>
          (match c.kind with
           | .zero => Gen.SrcSpecial.devSpecial0Keys.contains (c.addr, c.inst)
           | .one => Gen.SrcSpecial.devSpecial1Keys.contains (c.addr, c.inst)
           | .two => Gen.SrcSpecial.devSpecial2Keys.contains (c.addr, 0)
           | _ => true)
      | _ => true) = true := by
  decide +kernel

end DaliVerif.Tie.Special
