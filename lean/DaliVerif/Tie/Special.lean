import DaliVerif.Gen.SrcSpecial
import DaliVerif.Gen.Commands
import DaliVerif.Model.Decode
import DaliVerif.Proofs.AddressI
/-!
# The special-command constructor, as translated from the source on this run, equals the model's `encode`

`_SpecialCommand.__init__` builds `ForwardFrame(16, (self._cmdval, self.param))` from a byte TUPLE; the source
translator reads `int.from_bytes(·, 'big')` as "each element in range(0, 256), then shift-and-or" (its `_IntShim`,
DESIGN II.8) and prints `Gen.SrcSpecial.specialParam` / `specialNoParam` with the class's code symbolic.
Here: for every class record and every parameter (a natural number of any size — the range check is on both
sides) that definition is `Cmd.encode (.special c p)`'s frame or the same exception.
-/
namespace DaliVerif.Tie.Special
open DaliVerif DaliVerif.Frame DaliVerif.Cmd DaliVerif.AddressI

/-- two bytes, most significant first: what `int.from_bytes((a, b), 'big')` and the shift-and-or spell alike -/
theorem twoBytes (a b : Nat) (hb : b < 256) :
    pyOr (pyShl (pyOr 0 (a : Int)) 8) (b : Int) = ((ofBytesBE [a, b] : Nat) : Int) := by
  rw [show (0 : Int) = ((0 : Nat) : Int) from rfl, show (8 : Int) = ((8 : Nat) : Int) from rfl,
    pyOr_ofNat, pyShl_ofNat, pyOr_ofNat]
  have h : (0 ||| a) <<< 8 ||| b = (0 * 256 + a) * 256 + b := by
    have := Nat.shiftLeft_add_eq_or_of_lt (show b < 2 ^ 8 by omega) a
    rw [Nat.zero_or, ← this, Nat.shiftLeft_eq]; omega
  simp only [ofBytesBE, List.foldl]
  rw [h]

theorem specialParam_tie (c : SpecialClass) (hc : c.hasparam = true) (param : Nat) :
    Gen.SrcSpecial.specialParam c.cmdval param = dataOf (Cmd.encode (.special c param)) := by
  unfold Gen.SrcSpecial.specialParam
  simp only [Cmd.encode, hc, rangeCheck, bind, Except.bind, ite_true]
  have hp0 : ¬ ((param : Int) < 0) := by omega
  have hc0 : ¬ ((c.cmdval : Int) < 0) := by omega
  by_cases hp : (param : Int) > 255
  · simp [hp0, hp, dataOf, Except.map]
  · have hp' : param < 256 := by omega
    by_cases hcv : (c.cmdval : Int) > 255
    · have hcv' : ¬ c.cmdval < 256 := by omega
      have hcvI : ¬ ((c.cmdval : Int) < 256) := by omega
      simp [hp0, hp, hc0, hcv, hcvI, dataOf, Except.map, Frame.new, natVal, PyVal.asInt?]
    · have hcv' : c.cmdval < 256 := by omega
      rw [twoBytes _ _ hp']
      have hcvI : (c.cmdval : Int) < 256 := by omega
      have hpI : (param : Int) < 256 := by omega
      simp only [hp0, hp, hc0, hcv, hcvI, hpI, dataOf, Except.map, Frame.new, natVal, PyVal.asInt?, List.all_cons,
        List.all_nil, List.map, Int.toNat_natCast, Int.natCast_nonneg, decide_true, Bool.and_true, Bool.true_and,
        decide_eq_true_eq, and_self, ite_true, if_true, if_false, Bool.or_self, Bool.false_eq_true, decide_false,
        Int.ofNat_eq_natCast]
      generalize ofBytesBE [c.cmdval, param] = n
      have hn : ¬ ((n : Int) < 0) := by omega
      by_cases hb : 16 < bitLength (n : Int)
      · have hb' : (16 : Int) < ((bitLength (n : Int) : Nat) : Int) := by exact_mod_cast hb
        simp [hp0, hp, hc0, hcv, hcvI, hpI, hn, hb, hb', dataOf, Except.map, Frame.new, natVal, PyVal.asInt?]
      · have hb' : ¬ (16 : Int) < ((bitLength (n : Int) : Nat) : Int) := by exact_mod_cast hb
        simp [hp0, hp, hc0, hcv, hcvI, hpI, hn, hb, hb', dataOf, Except.map, Frame.new, natVal, PyVal.asInt?]

theorem specialNoParam_tie (c : SpecialClass) (hc : c.hasparam = false) (p : Nat) :
    Gen.SrcSpecial.specialNoParam c.cmdval = dataOf (Cmd.encode (.special c p)) := by
  unfold Gen.SrcSpecial.specialNoParam
  simp only [Cmd.encode, hc, bind, Except.bind]
  have hc0 : ¬ ((c.cmdval : Int) < 0) := by omega
  have e0 : pyOr (pyShl (pyOr 0 (c.cmdval : Int)) 8) 0 = ((ofBytesBE [c.cmdval, 0] : Nat) : Int) :=
    twoBytes c.cmdval 0 (by decide)
  by_cases hcv : (c.cmdval : Int) > 255
  · have hcvI : ¬ ((c.cmdval : Int) < 256) := by omega
    simp [hc0, hcv, hcvI, dataOf, Except.map, Frame.new, natVal, PyVal.asInt?]
  · have hcvI : (c.cmdval : Int) < 256 := by omega
    rw [e0]
    simp only [hc0, hcv, hcvI, dataOf, Except.map, Frame.new, natVal, PyVal.asInt?, List.all_cons,
      List.all_nil, List.map, Int.toNat_natCast, Int.natCast_nonneg, decide_true, Bool.and_true, Bool.true_and,
      decide_eq_true_eq, and_self, ite_true, if_true, if_false, Bool.or_self, Bool.false_eq_true, decide_false,
      Int.ofNat_eq_natCast]
    have e1 : ofBytesBE [c.cmdval, Int.toNat 0] = ofBytesBE [c.cmdval, 0] := rfl
    rw [e1]
    generalize ofBytesBE [c.cmdval, 0] = n
    have hn : ¬ ((n : Int) < 0) := by omega
    by_cases hb : 16 < bitLength (n : Int)
    · have hb' : (16 : Int) < ((bitLength (n : Int) : Nat) : Int) := by exact_mod_cast hb
      simp [hn, hb, hb']
    · have hb' : ¬ (16 : Int) < ((bitLength (n : Int) : Nat) : Int) := by exact_mod_cast hb
      simp [hn, hb, hb']

/-- every class the data translator found registered as a plain special command (constructor =
`_SpecialCommand.__init__`) is one the source translator traced -/
theorem special_rows_traced :
    Gen.tables.specialOpcodes.all (fun e => e.2.kind != .plain ||
      (if e.2.hasparam then Gen.SrcSpecial.specialParamKeys.contains (0, e.2.cmdval)
       else Gen.SrcSpecial.specialNoParamKeys.contains (0, e.2.cmdval))) = true := by
  decide +kernel

end DaliVerif.Tie.Special
