import DaliVerif.Tie.Special
import DaliVerif.Props.C02
/-!
# C02's round trip, stated about the constructors as translated from the source on this run

`Props/C02.lean` proves `decode (encode c) = c` for the model's `encode`.  `Tie/Special.lean` proves the model's
`encode` equal to the definitions the source translator printed from `dali/gear/general.py` and
`dali/device/general.py` on this run.  Composed: for every legal special command, the number the *translated source*
computes is the contents of a frame that the decoder takes back to the same object — no hand-written encoder in
between.  (`WF Gen.tables c` is C02's legality predicate over the registries regenerated on this run.)
-/
namespace DaliVerif.Tie.RoundTrip
open DaliVerif DaliVerif.Cmd DaliVerif.AddressI

/-- whatever is proved equal to the model's frame assembly inherits C02's round trip -/
theorem roundtrip_of_tie (c : Cmd) (h : WF Gen.tables c) (src : Except PyErr Int)
    (ht : src = dataOf (Cmd.encode c)) :
    ∃ bits d, src = .ok ((d : Nat) : Int) ∧ decode Gen.tables bits d (dtOf c) (mapFor c) = c := by
  obtain ⟨b, d, he, hd⟩ := Props.C02.decode_construct_gen c h
  exact ⟨b, d, by rw [ht, he]; rfl, hd⟩

theorem specialParam_roundtrip (c : SpecialClass) (hc : c.hasparam = true) (p : Nat)
    (h : WF Gen.tables (.special c p)) :
    ∃ bits d, Gen.SrcSpecial.specialParam c.cmdval p = .ok ((d : Nat) : Int) ∧
      decode Gen.tables bits d (dtOf (.special c p)) (mapFor (.special c p)) = .special c p :=
  roundtrip_of_tie _ h _ (Special.specialParam_tie c hc p)

theorem specialNoParam_roundtrip (c : SpecialClass) (hc : c.hasparam = false) (p : Nat)
    (h : WF Gen.tables (.special c p)) :
    ∃ bits d, Gen.SrcSpecial.specialNoParam c.cmdval = .ok ((d : Nat) : Int) ∧
      decode Gen.tables bits d (dtOf (.special c p)) (mapFor (.special c p)) = .special c p :=
  roundtrip_of_tie _ h _ (Special.specialNoParam_tie c hc p)

theorem shortSpecial_roundtrip (c : SpecialClass) (a : Nat) (h : WF Gen.tables (.shortSpecial c (some a))) :
    ∃ bits d, Gen.SrcSpecial.shortSpecial c.cmdval a = .ok ((d : Nat) : Int) ∧
      decode Gen.tables bits d (dtOf (.shortSpecial c (some a))) (mapFor (.shortSpecial c (some a))) =
        .shortSpecial c (some a) :=
  roundtrip_of_tie _ h _ (Special.shortSpecial_tie c a)

theorem shortSpecialMask_roundtrip (c : SpecialClass) (h : WF Gen.tables (.shortSpecial c none)) :
    ∃ bits d, Gen.SrcSpecial.shortSpecialMask c.cmdval = .ok ((d : Nat) : Int) ∧
      decode Gen.tables bits d (dtOf (.shortSpecial c none)) (mapFor (.shortSpecial c none)) = .shortSpecial c none :=
  roundtrip_of_tie _ h _ (Special.shortSpecialMask_tie c)

theorem initialiseAddr_roundtrip (c : SpecialClass) (a : Nat) (h : WF Gen.tables (.initialise c false (some a))) :
    ∃ bits d, Gen.SrcSpecial.initialiseAddr c.cmdval a = .ok ((d : Nat) : Int) ∧
      decode Gen.tables bits d (dtOf (.initialise c false (some a))) (mapFor (.initialise c false (some a))) =
        .initialise c false (some a) :=
  roundtrip_of_tie _ h _ (Special.initialiseAddr_tie c a)

theorem initialiseBroadcast_roundtrip (c : SpecialClass) (h : WF Gen.tables (.initialise c true none)) :
    ∃ bits d, Gen.SrcSpecial.initialiseBroadcast c.cmdval = .ok ((d : Nat) : Int) ∧
      decode Gen.tables bits d (dtOf (.initialise c true none)) (mapFor (.initialise c true none)) =
        .initialise c true none :=
  roundtrip_of_tie _ h _ (Special.initialiseBroadcast_tie c)

theorem initialiseUnaddressed_roundtrip (c : SpecialClass) (h : WF Gen.tables (.initialise c false none)) :
    ∃ bits d, Gen.SrcSpecial.initialiseUnaddressed c.cmdval = .ok ((d : Nat) : Int) ∧
      decode Gen.tables bits d (dtOf (.initialise c false none)) (mapFor (.initialise c false none)) =
        .initialise c false none :=
  roundtrip_of_tie _ h _ (Special.initialiseUnaddressed_tie c)

theorem devSpecial0_roundtrip (c : DevSpecialClass) (hk : c.kind = .zero) (h : WF Gen.tables (.devSpecial c c.inst 0)) :
    ∃ bits d, Gen.SrcSpecial.devSpecial0 c.addr c.inst = .ok ((d : Nat) : Int) ∧
      decode Gen.tables bits d (dtOf (.devSpecial c c.inst 0)) (mapFor (.devSpecial c c.inst 0)) =
        .devSpecial c c.inst 0 :=
  roundtrip_of_tie _ h _ (Special.devSpecial0_tie c hk)

theorem devSpecial1_roundtrip (c : DevSpecialClass) (hk : c.kind = .one) (p : Nat)
    (h : WF Gen.tables (.devSpecial c c.inst p)) :
    ∃ bits d, Gen.SrcSpecial.devSpecial1 c.addr c.inst p = .ok ((d : Nat) : Int) ∧
      decode Gen.tables bits d (dtOf (.devSpecial c c.inst p)) (mapFor (.devSpecial c c.inst p)) =
        .devSpecial c c.inst p :=
  roundtrip_of_tie _ h _ (Special.devSpecial1_tie c hk p)

theorem devSpecial2_roundtrip (c : DevSpecialClass) (hk : c.kind = .two) (a b : Nat)
    (h : WF Gen.tables (.devSpecial c a b)) :
    ∃ bits d, Gen.SrcSpecial.devSpecial2 c.addr a b = .ok ((d : Nat) : Int) ∧
      decode Gen.tables bits d (dtOf (.devSpecial c a b)) (mapFor (.devSpecial c a b)) = .devSpecial c a b :=
  roundtrip_of_tie _ h _ (Special.devSpecial2_tie c hk a b)

/-! non-vacuity: the hypotheses are met by commands of the tree under test -/
example : WF Gen.tables (.special ⟨"gear.general.EnableDeviceType", 193, true, .plain⟩ 8) :=
  ⟨by decide +kernel, by decide, by decide⟩
example : WF Gen.tables (.devSpecial ⟨"device.general.DTR0", 193, 48, .one⟩ 48 200) :=
  ⟨by decide +kernel, by decide⟩
example : Gen.SrcSpecial.specialParam 193 8 = .ok 49416 := by decide +kernel

end DaliVerif.Tie.RoundTrip
