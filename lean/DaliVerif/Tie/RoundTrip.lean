import DaliVerif.Tie.Special
import DaliVerif.Tie.Command
import DaliVerif.Tie.Event
import DaliVerif.Props.C02
/-!
# C02's round trip, stated about the constructors as translated from the source on this run

`Props/C02.lean` proves `decode (encode c) = c` for the model's `encode`.  `Tie/Special.lean` proves the model's
`encode` equal to the definitions the source translator printed from `dali/gear/general.py` and
`dali/device/general.py` on this run.  Composed: for every legal special command, the number the *translated source*
computes is the contents of a frame that the decoder takes back to the same object — no hand-written encoder in
between.  (`WF Gen.tables c` is C02's legality predicate over the registries regenerated on this run.)
-/
namespace DaliVerif.Tie.RoundTrip
open DaliVerif DaliVerif.Cmd DaliVerif.AddressI

/-- whatever is proved equal to the model's frame assembly inherits C02's round trip -/
theorem roundtrip_of_tie (c : Cmd) (h : WF Gen.tables c) (src : Except PyErr Int)
    (ht : src = dataOf (Cmd.encode c)) :
    ∃ bits d, src = .ok ((d : Nat) : Int) ∧ decode Gen.tables bits d (dtOf c) (mapFor c) = c := by
  obtain ⟨b, d, he, hd⟩ := Props.C02.decode_construct_gen c h
  exact ⟨b, d, by rw [ht, he]; rfl, hd⟩

theorem specialParam_roundtrip (c : SpecialClass) (hc : c.hasparam = true) (p : Nat)
    (h : WF Gen.tables (.special c p)) :
    ∃ bits d, Gen.SrcSpecial.specialParam c.cmdval p = .ok ((d : Nat) : Int) ∧
      decode Gen.tables bits d (dtOf (.special c p)) (mapFor (.special c p)) = .special c p :=
  roundtrip_of_tie _ h _ (Special.specialParam_tie c hc p)

theorem specialNoParam_roundtrip (c : SpecialClass) (hc : c.hasparam = false) (p : Nat)
    (h : WF Gen.tables (.special c p)) :
    ∃ bits d, Gen.SrcSpecial.specialNoParam c.cmdval = .ok ((d : Nat) : Int) ∧
      decode Gen.tables bits d (dtOf (.special c p)) (mapFor (.special c p)) = .special c p :=
  roundtrip_of_tie _ h _ (Special.specialNoParam_tie c hc p)

theorem shortSpecial_roundtrip (c : SpecialClass) (a : Nat) (h : WF Gen.tables (.shortSpecial c (some a))) :
    ∃ bits d, Gen.SrcSpecial.shortSpecial c.cmdval a = .ok ((d : Nat) : Int) ∧
      decode Gen.tables bits d (dtOf (.shortSpecial c (some a))) (mapFor (.shortSpecial c (some a))) =
        .shortSpecial c (some a) :=
  roundtrip_of_tie _ h _ (Special.shortSpecial_tie c a)

theorem shortSpecialMask_roundtrip (c : SpecialClass) (h : WF Gen.tables (.shortSpecial c none)) :
    ∃ bits d, Gen.SrcSpecial.shortSpecialMask c.cmdval = .ok ((d : Nat) : Int) ∧
      decode Gen.tables bits d (dtOf (.shortSpecial c none)) (mapFor (.shortSpecial c none)) = .shortSpecial c none :=
  roundtrip_of_tie _ h _ (Special.shortSpecialMask_tie c)

theorem initialiseAddr_roundtrip (c : SpecialClass) (a : Nat) (h : WF Gen.tables (.initialise c false (some a))) :
    ∃ bits d, Gen.SrcSpecial.initialiseAddr c.cmdval a = .ok ((d : Nat) : Int) ∧
      decode Gen.tables bits d (dtOf (.initialise c false (some a))) (mapFor (.initialise c false (some a))) =
        .initialise c false (some a) :=
  roundtrip_of_tie _ h _ (Special.initialiseAddr_tie c a)

theorem initialiseBroadcast_roundtrip (c : SpecialClass) (h : WF Gen.tables (.initialise c true none)) :
    ∃ bits d, Gen.SrcSpecial.initialiseBroadcast c.cmdval = .ok ((d : Nat) : Int) ∧
      decode Gen.tables bits d (dtOf (.initialise c true none)) (mapFor (.initialise c true none)) =
        .initialise c true none :=
  roundtrip_of_tie _ h _ (Special.initialiseBroadcast_tie c)

theorem initialiseUnaddressed_roundtrip (c : SpecialClass) (h : WF Gen.tables (.initialise c false none)) :
    ∃ bits d, Gen.SrcSpecial.initialiseUnaddressed c.cmdval = .ok ((d : Nat) : Int) ∧
      decode Gen.tables bits d (dtOf (.initialise c false none)) (mapFor (.initialise c false none)) =
        .initialise c false none :=
  roundtrip_of_tie _ h _ (Special.initialiseUnaddressed_tie c)

theorem devSpecial0_roundtrip (c : DevSpecialClass) (hk : c.kind = .zero) (h : WF Gen.tables (.devSpecial c c.inst 0)) :
    ∃ bits d, Gen.SrcSpecial.devSpecial0 c.addr c.inst = .ok ((d : Nat) : Int) ∧
      decode Gen.tables bits d (dtOf (.devSpecial c c.inst 0)) (mapFor (.devSpecial c c.inst 0)) =
        .devSpecial c c.inst 0 :=
  roundtrip_of_tie _ h _ (Special.devSpecial0_tie c hk)

theorem devSpecial1_roundtrip (c : DevSpecialClass) (hk : c.kind = .one) (p : Nat)
    (h : WF Gen.tables (.devSpecial c c.inst p)) :
    ∃ bits d, Gen.SrcSpecial.devSpecial1 c.addr c.inst p = .ok ((d : Nat) : Int) ∧
      decode Gen.tables bits d (dtOf (.devSpecial c c.inst p)) (mapFor (.devSpecial c c.inst p)) =
        .devSpecial c c.inst p :=
  roundtrip_of_tie _ h _ (Special.devSpecial1_tie c hk p)

theorem devSpecial2_roundtrip (c : DevSpecialClass) (hk : c.kind = .two) (a b : Nat)
    (h : WF Gen.tables (.devSpecial c a b)) :
    ∃ bits d, Gen.SrcSpecial.devSpecial2 c.addr a b = .ok ((d : Nat) : Int) ∧
      decode Gen.tables bits d (dtOf (.devSpecial c a b)) (mapFor (.devSpecial c a b)) = .devSpecial c a b :=
  roundtrip_of_tie _ h _ (Special.devSpecial2_tie c hk a b)


/-! ## the address-carrying command families (the destination's `add_to_frame` is whatever `Tie/Address.lean`
proves of the translated `dali/address.py`: hypothesis `AddsLike`) -/
open DaliVerif.Tie.Command in
theorem stdNoParam_roundtrip (c : StdClass) (hc : c.hasparam = false) (a : Addr)
    (addDest : Int → Except PyErr Int) (hadd : AddsLike 16 addDest a.addToFrame) (h : WF Gen.tables (.standard c a 0)) :
    ∃ bits d, Gen.SrcCommand.stdNoParam addDest c.cmdval = .ok ((d : Nat) : Int) ∧
      decode Gen.tables bits d (dtOf (.standard c a 0)) (mapFor (.standard c a 0)) = .standard c a 0 :=
  roundtrip_of_tie _ h _ (Command.stdNoParam_tie c hc a addDest hadd)

open DaliVerif.Tie.Command in
theorem devStd_roundtrip (c : DevClass) (a : Addr)
    (addDest : Int → Except PyErr Int) (hadd : AddsLike 24 addDest a.addToFrame) (h : WF Gen.tables (.devStd c a)) :
    ∃ bits d, Gen.SrcCommand.devStd addDest c.opcode = .ok ((d : Nat) : Int) ∧
      decode Gen.tables bits d (dtOf (.devStd c a)) (mapFor (.devStd c a)) = .devStd c a :=
  roundtrip_of_tie _ h _ (Command.devStd_tie c a addDest hadd)

open DaliVerif.Tie.Command in
theorem devInst_roundtrip (c : DevClass) (a : Addr) (i : Inst) (addDest addInst : Int → Except PyErr Int)
    (hadd : AddsLike 24 addDest a.addToFrame) (hinst : AddsLike 24 addInst i.addToFrame)
    (h : WF Gen.tables (.devInst c a i)) :
    ∃ bits d, Gen.SrcCommand.devInst addDest addInst c.opcode = .ok ((d : Nat) : Int) ∧
      decode Gen.tables bits d (dtOf (.devInst c a i)) (mapFor (.devInst c a i)) = .devInst c a i :=
  roundtrip_of_tie _ h _ (Command.devInst_tie c a i addDest addInst hadd hinst)

/-! ## events (part 103 Table 3 schemes; the device/instance scheme decodes through the map naming its type) -/
theorem ev_device_roundtrip (cls : String) (pc : PushClass) (itype sa : Nat)
    (h : WF Gen.tables (.event cls itype (.device sa) (.pushbutton pc))) :
    ∃ bits d, Gen.SrcEvent.ev_device pc.info itype sa = .ok ((d : Nat) : Int) ∧
      decode Gen.tables bits d (dtOf (.event cls itype (.device sa) (.pushbutton pc)))
        (mapFor (.event cls itype (.device sa) (.pushbutton pc))) = .event cls itype (.device sa) (.pushbutton pc) :=
  roundtrip_of_tie _ h _ (Event.ev_device_tie cls pc itype sa)
theorem evLight_device_roundtrip (cls : String) (itype sa v : Nat)
    (h : WF Gen.tables (.event cls itype (.device sa) (.light v))) :
    ∃ bits d, Gen.SrcEvent.evLight_device 0 itype sa v = .ok ((d : Nat) : Int) ∧
      decode Gen.tables bits d (dtOf (.event cls itype (.device sa) (.light v)))
        (mapFor (.event cls itype (.device sa) (.light v))) = .event cls itype (.device sa) (.light v) :=
  roundtrip_of_tie _ h _ (Event.evLight_device_tie cls itype sa v)
theorem evOcc_device_roundtrip (cls : String) (itype sa data : Nat)
    (h : WF Gen.tables (Event.occOf cls itype (.device sa) data)) :
    ∃ bits d, Gen.SrcEvent.evOcc_device 0 itype sa data = .ok ((d : Nat) : Int) ∧
      decode Gen.tables bits d (dtOf (Event.occOf cls itype (.device sa) data))
        (mapFor (Event.occOf cls itype (.device sa) data)) = Event.occOf cls itype (.device sa) data :=
  roundtrip_of_tie _ h _ (Event.evOcc_device_tie cls itype sa data)
theorem ev_deviceInstance_roundtrip (cls : String) (pc : PushClass) (itype sa inum : Nat)
    (h : WF Gen.tables (.event cls itype (.deviceInstance sa inum) (.pushbutton pc))) :
    ∃ bits d, Gen.SrcEvent.ev_deviceInstance pc.info itype sa inum = .ok ((d : Nat) : Int) ∧
      decode Gen.tables bits d (dtOf (.event cls itype (.deviceInstance sa inum) (.pushbutton pc)))
        (mapFor (.event cls itype (.deviceInstance sa inum) (.pushbutton pc))) = .event cls itype (.deviceInstance sa inum) (.pushbutton pc) :=
  roundtrip_of_tie _ h _ (Event.ev_deviceInstance_tie cls pc itype sa inum)
theorem evLight_deviceInstance_roundtrip (cls : String) (itype sa inum v : Nat)
    (h : WF Gen.tables (.event cls itype (.deviceInstance sa inum) (.light v))) :
    ∃ bits d, Gen.SrcEvent.evLight_deviceInstance 0 itype sa inum v = .ok ((d : Nat) : Int) ∧
      decode Gen.tables bits d (dtOf (.event cls itype (.deviceInstance sa inum) (.light v)))
        (mapFor (.event cls itype (.deviceInstance sa inum) (.light v))) = .event cls itype (.deviceInstance sa inum) (.light v) :=
  roundtrip_of_tie _ h _ (Event.evLight_deviceInstance_tie cls itype sa inum v)
theorem evOcc_deviceInstance_roundtrip (cls : String) (itype sa inum data : Nat)
    (h : WF Gen.tables (Event.occOf cls itype (.deviceInstance sa inum) data)) :
    ∃ bits d, Gen.SrcEvent.evOcc_deviceInstance 0 itype sa inum data = .ok ((d : Nat) : Int) ∧
      decode Gen.tables bits d (dtOf (Event.occOf cls itype (.deviceInstance sa inum) data))
        (mapFor (Event.occOf cls itype (.deviceInstance sa inum) data)) = Event.occOf cls itype (.deviceInstance sa inum) data :=
  roundtrip_of_tie _ h _ (Event.evOcc_deviceInstance_tie cls itype sa inum data)
theorem ev_deviceGroup_roundtrip (cls : String) (pc : PushClass) (itype g : Nat)
    (h : WF Gen.tables (.event cls itype (.deviceGroup g) (.pushbutton pc))) :
    ∃ bits d, Gen.SrcEvent.ev_deviceGroup pc.info itype g = .ok ((d : Nat) : Int) ∧
      decode Gen.tables bits d (dtOf (.event cls itype (.deviceGroup g) (.pushbutton pc)))
        (mapFor (.event cls itype (.deviceGroup g) (.pushbutton pc))) = .event cls itype (.deviceGroup g) (.pushbutton pc) :=
  roundtrip_of_tie _ h _ (Event.ev_deviceGroup_tie cls pc itype g)
theorem evLight_deviceGroup_roundtrip (cls : String) (itype g v : Nat)
    (h : WF Gen.tables (.event cls itype (.deviceGroup g) (.light v))) :
    ∃ bits d, Gen.SrcEvent.evLight_deviceGroup 0 itype g v = .ok ((d : Nat) : Int) ∧
      decode Gen.tables bits d (dtOf (.event cls itype (.deviceGroup g) (.light v)))
        (mapFor (.event cls itype (.deviceGroup g) (.light v))) = .event cls itype (.deviceGroup g) (.light v) :=
  roundtrip_of_tie _ h _ (Event.evLight_deviceGroup_tie cls itype g v)
theorem evOcc_deviceGroup_roundtrip (cls : String) (itype g data : Nat)
    (h : WF Gen.tables (Event.occOf cls itype (.deviceGroup g) data)) :
    ∃ bits d, Gen.SrcEvent.evOcc_deviceGroup 0 itype g data = .ok ((d : Nat) : Int) ∧
      decode Gen.tables bits d (dtOf (Event.occOf cls itype (.deviceGroup g) data))
        (mapFor (Event.occOf cls itype (.deviceGroup g) data)) = Event.occOf cls itype (.deviceGroup g) data :=
  roundtrip_of_tie _ h _ (Event.evOcc_deviceGroup_tie cls itype g data)
theorem ev_instanceGroup_roundtrip (cls : String) (pc : PushClass) (itype g : Nat)
    (h : WF Gen.tables (.event cls itype (.instanceGroup g) (.pushbutton pc))) :
    ∃ bits d, Gen.SrcEvent.ev_instanceGroup pc.info itype g = .ok ((d : Nat) : Int) ∧
      decode Gen.tables bits d (dtOf (.event cls itype (.instanceGroup g) (.pushbutton pc)))
        (mapFor (.event cls itype (.instanceGroup g) (.pushbutton pc))) = .event cls itype (.instanceGroup g) (.pushbutton pc) :=
  roundtrip_of_tie _ h _ (Event.ev_instanceGroup_tie cls pc itype g)
theorem evLight_instanceGroup_roundtrip (cls : String) (itype g v : Nat)
    (h : WF Gen.tables (.event cls itype (.instanceGroup g) (.light v))) :
    ∃ bits d, Gen.SrcEvent.evLight_instanceGroup 0 itype g v = .ok ((d : Nat) : Int) ∧
      decode Gen.tables bits d (dtOf (.event cls itype (.instanceGroup g) (.light v)))
        (mapFor (.event cls itype (.instanceGroup g) (.light v))) = .event cls itype (.instanceGroup g) (.light v) :=
  roundtrip_of_tie _ h _ (Event.evLight_instanceGroup_tie cls itype g v)
theorem evOcc_instanceGroup_roundtrip (cls : String) (itype g data : Nat)
    (h : WF Gen.tables (Event.occOf cls itype (.instanceGroup g) data)) :
    ∃ bits d, Gen.SrcEvent.evOcc_instanceGroup 0 itype g data = .ok ((d : Nat) : Int) ∧
      decode Gen.tables bits d (dtOf (Event.occOf cls itype (.instanceGroup g) data))
        (mapFor (Event.occOf cls itype (.instanceGroup g) data)) = Event.occOf cls itype (.instanceGroup g) data :=
  roundtrip_of_tie _ h _ (Event.evOcc_instanceGroup_tie cls itype g data)
theorem ev_inst_roundtrip (cls : String) (pc : PushClass) (itype inum : Nat)
    (h : WF Gen.tables (.event cls itype (.inst inum) (.pushbutton pc))) :
    ∃ bits d, Gen.SrcEvent.ev_inst pc.info itype inum = .ok ((d : Nat) : Int) ∧
      decode Gen.tables bits d (dtOf (.event cls itype (.inst inum) (.pushbutton pc)))
        (mapFor (.event cls itype (.inst inum) (.pushbutton pc))) = .event cls itype (.inst inum) (.pushbutton pc) :=
  roundtrip_of_tie _ h _ (Event.ev_inst_tie cls pc itype inum)
theorem evLight_inst_roundtrip (cls : String) (itype inum v : Nat)
    (h : WF Gen.tables (.event cls itype (.inst inum) (.light v))) :
    ∃ bits d, Gen.SrcEvent.evLight_inst 0 itype inum v = .ok ((d : Nat) : Int) ∧
      decode Gen.tables bits d (dtOf (.event cls itype (.inst inum) (.light v)))
        (mapFor (.event cls itype (.inst inum) (.light v))) = .event cls itype (.inst inum) (.light v) :=
  roundtrip_of_tie _ h _ (Event.evLight_inst_tie cls itype inum v)
theorem evOcc_inst_roundtrip (cls : String) (itype inum data : Nat)
    (h : WF Gen.tables (Event.occOf cls itype (.inst inum) data)) :
    ∃ bits d, Gen.SrcEvent.evOcc_inst 0 itype inum data = .ok ((d : Nat) : Int) ∧
      decode Gen.tables bits d (dtOf (Event.occOf cls itype (.inst inum) data))
        (mapFor (Event.occOf cls itype (.inst inum) data)) = Event.occOf cls itype (.inst inum) data :=
  roundtrip_of_tie _ h _ (Event.evOcc_inst_tie cls itype inum data)

/-! non-vacuity: the hypotheses are met by commands of the tree under test -/
example : WF Gen.tables (.special ⟨"gear.general.EnableDeviceType", 193, true, .plain⟩ 8) :=
  ⟨by decide +kernel, by decide, by decide⟩
example : WF Gen.tables (.devSpecial ⟨"device.general.DTR0", 193, 48, .one⟩ 48 200) :=
  ⟨by decide +kernel, by decide⟩
example : Gen.SrcSpecial.specialParam 193 8 = .ok 49416 := by decide +kernel

end DaliVerif.Tie.RoundTrip
