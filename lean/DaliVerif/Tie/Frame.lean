import DaliVerif.Gen.SrcFrame
import DaliVerif.Model.FrameI
import DaliVerif.Proofs.FrameI
/-!
# The source of `dali/frame.py`, as translated on this run, equals the model's integer-level forms

`Gen.SrcFrame.*` is regenerated from the working tree by running the real methods on symbolic integers and
printing every path.  Each theorem is a case analysis over those paths (`grind`: linear integer arithmetic for
the path conditions, congruence for the leaves), for ALL integer arguments — no frame invariant is assumed.
-/
namespace DaliVerif.Tie.Frame
open DaliVerif DaliVerif.FrameI

theorem init_src (bits data : Int) : Gen.SrcFrame.init bits data = FrameI.init bits data := by
  unfold Gen.SrcFrame.init FrameI.init; grind

theorem getSlice_src (bits data a b : Int) :
    Gen.SrcFrame.getSlice bits data a b = FrameI.getSlice bits data a b := by
  unfold Gen.SrcFrame.getSlice FrameI.getSlice sliceCheck hi lo; grind

theorem getBit_src (bits data k : Int) : Gen.SrcFrame.getBit bits data k = FrameI.getBit bits data k := by
  unfold Gen.SrcFrame.getBit FrameI.getBit; grind

theorem setSlice_src (bits data a b v : Int) :
    Gen.SrcFrame.setSlice bits data a b v = FrameI.setSlice bits data a b v := by
  unfold Gen.SrcFrame.setSlice FrameI.setSlice sliceCheck hi lo; grind (splits := 80)

theorem setBit_src (bits data k v : Int) :
    Gen.SrcFrame.setBit bits data k v = FrameI.setBit bits data k v := by
  unfold Gen.SrcFrame.setBit FrameI.setBit; grind

theorem containsTrue_src (bits data : Int) :
    Gen.SrcFrame.containsTrue bits data = FrameI.containsTrue bits data := by
  unfold Gen.SrcFrame.containsTrue FrameI.containsTrue; grind

theorem containsFalse_src (bits data : Int) :
    Gen.SrcFrame.containsFalse bits data = FrameI.containsFalse bits data := by
  unfold Gen.SrcFrame.containsFalse FrameI.containsFalse; grind

theorem add_src (b1 d1 b2 d2 : Int) : Gen.SrcFrame.add b1 d1 b2 d2 = FrameI.add b1 d1 b2 d2 := by
  unfold Gen.SrcFrame.add FrameI.add FrameI.init; grind

theorem eq_src (b1 d1 b2 d2 : Int) : Gen.SrcFrame.eq b1 d1 b2 d2 = FrameI.eq b1 d1 b2 d2 := by
  unfold Gen.SrcFrame.eq FrameI.eq; split <;> simp_all

theorem ne_src (b1 d1 b2 d2 : Int) : Gen.SrcFrame.ne b1 d1 b2 d2 = FrameI.ne b1 d1 b2 d2 := by
  unfold Gen.SrcFrame.ne FrameI.ne; split <;> simp_all


/-! ## The hand-written model as a function of the translated source

For every frame (any width, any contents) and every integer operand, what `Model/Frame.lean` computes is what
the source translated on this run computes.  These are the statements the C05/C04 checks audit. -/

theorem init_tie (bits data : Int) :
    Frame.new (.int bits) (.int data) = (Gen.SrcFrame.init bits data).map toFrame := by
  rw [init_src, init_model]

theorem getSlice_tie (f : Frame) (a b : Int) :
    f.getItem (.slice (.int a) (.int b) .none) =
      (Gen.SrcFrame.getSlice f.bits f.data a b).map (fun i => Frame.Item.num i.toNat) := by
  rw [getSlice_src, getSlice_model]

theorem getBit_tie (f : Frame) (k : Int) :
    f.getItem (.idx (.int k)) = (Gen.SrcFrame.getBit f.bits f.data k).map Frame.Item.bit := by
  rw [getBit_src, getBit_model]

theorem setSlice_tie (f : Frame) (a b v : Int) :
    f.setItem (.slice (.int a) (.int b) .none) (.int v) =
      (Gen.SrcFrame.setSlice f.bits f.data a b v).map toFrame := by
  rw [setSlice_src, setSlice_model]

theorem setBit_tie (f : Frame) (k v : Int) :
    f.setItem (.idx (.int k)) (.int v) = (Gen.SrcFrame.setBit f.bits f.data k v).map toFrame := by
  rw [setBit_src, setBit_model]

theorem containsTrue_tie (f : Frame) :
    Gen.SrcFrame.containsTrue f.bits f.data = .ok (f.contains (.bool true)) := by
  rw [containsTrue_src, containsTrue_model]

theorem containsFalse_tie (f : Frame) :
    Gen.SrcFrame.containsFalse f.bits f.data = .ok (f.contains (.bool false)) := by
  rw [containsFalse_src, containsFalse_model]

theorem add_tie (f g : Frame) :
    f.add (some g) = (Gen.SrcFrame.add f.bits f.data g.bits g.data).map toFrame := by
  rw [add_src, add_model]

theorem eq_tie (f g : Frame) : Gen.SrcFrame.eq f.bits f.data g.bits g.data = .ok (f.eq (some g)) := by
  rw [eq_src, eq_model]

theorem ne_tie (f g : Frame) : Gen.SrcFrame.ne f.bits f.data g.bits g.data = .ok (f.ne (some g)) := by
  rw [ne_src, ne_model]

end DaliVerif.Tie.Frame
