import DaliVerif.Spec.Response
/-!
# The response classes the standard defines, transcribed independently of the generated table

One row per response type attached to a command: its category, whether an
answer is expected (`_expected`) / a framing error is acceptable
(`_error_acceptable`), the meaning of the bits of a bitmap answer (least
significant first, IEC 62386-102 §11 QUERY STATUS, -103 QUERY DEVICE STATUS /
CAPABILITIES / INSTANCE STATUS, -202 commands 250–253, -207 commands 237–241
and 252, -209 commands 247–251), the codes of an enumerated answer (-103
Table 8 event schemes, -209 Table 12 assigned colours) and the device type
names of QUERY DEVICE TYPE.

The *wording* of a bit name is the library's (names are user-visible API and
part of what `status` returns); the *position and meaning* of every bit was
checked against my knowledge of the parts named above.  Rows marked
`pinned := true` (parts 205 and 206: incandescent dimmers, 1–10 V converters)
I cannot vouch for independently: they still detect any change but are a
regression baseline rather than independent evidence.  I do not have the
documents in this sandbox (DESIGN §5).
-/
namespace DaliVerif.Spec.Resp

structure Row where
  key : String
  cat : Cat
  expected : Bool
  errorAcceptable : Bool
  pinned : Bool
  bits : List String
  members : List (String × Nat)
  types : List (Nat × String)
  deriving DecidableEq, Repr

def table : List Row := [
  { key := "dali.command:NumericResponse", cat := .numeric, expected := true, errorAcceptable := false, pinned := false,
    bits := [],
    members := [],
    types := [] },
  { key := "dali.command:NumericResponseMask", cat := .numericMask, expected := true, errorAcceptable := false, pinned := false,
    bits := [],
    members := [],
    types := [] },
  { key := "dali.command:Response", cat := .generic, expected := false, errorAcceptable := false, pinned := false,
    bits := [],
    members := [],
    types := [] },
  { key := "dali.command:YesNoResponse", cat := .yesNo, expected := false, errorAcceptable := true, pinned := false,
    bits := [],
    members := [],
    types := [] },
  { key := "dali.device.general:QueryDeviceCapabilitiesResponse", cat := .bitmap, expected := true, errorAcceptable := false, pinned := false,
    bits := ["application controller present", "number instances greater than zero", "application controller always active"],
    members := [],
    types := [] },
  { key := "dali.device.general:QueryDeviceStatusResponse", cat := .bitmap, expected := true, errorAcceptable := false, pinned := false,
    bits := ["input device error", "quiescent mode enabled", "short address is mask", "application controller active", "application controller error", "power cycle seen", "reset state"],
    members := [],
    types := [] },
  { key := "dali.device.general:QueryEventSchemeResponse", cat := .enum, expected := false, errorAcceptable := false, pinned := false,
    bits := [],
    members := [("instance", 0), ("device", 1), ("device_instance", 2), ("device_group", 3), ("instance_group", 4)],
    types := [] },
  { key := "dali.device.general:QueryInstanceStatusResponse", cat := .bitmap, expected := true, errorAcceptable := false, pinned := false,
    bits := ["instance error", "instance active"],
    members := [],
    types := [] },
  { key := "dali.gear.colour:QueryAssignedColourResponse", cat := .enumMask, expected := false, errorAcceptable := false, pinned := false,
    bits := [],
    members := [("not_assigned", 0), ("red", 1), ("green", 2), ("blue", 3), ("white", 4), ("amber", 5), ("freecolour", 6)],
    types := [] },
  { key := "dali.gear.colour:QueryColourStatusResponse", cat := .bitmap, expected := true, errorAcceptable := false, pinned := false,
    bits := ["xy colour point out of range", "colour temperature Tc out of range", "auto calibration running", "auto calibration successful", "colour type xy active", "colour type colour temperature Tc active", "colour type primary N active", "colour type RGBWAF active"],
    members := [],
    types := [] },
  { key := "dali.gear.colour:QueryColourTypeFeaturesResponse", cat := .bitmap, expected := true, errorAcceptable := false, pinned := false,
    bits := ["xy capable", "Tc capable", "primary N bit 0", "primary N bit 1", "primary N bit 2", "RGBWAF channels bit 0", "RGBWAF channels bit 1", "RGBWAF channels bit 2"],
    members := [],
    types := [] },
  { key := "dali.gear.colour:QueryGearFeaturesStatusResponse", cat := .bitmap, expected := true, errorAcceptable := false, pinned := false,
    bits := ["auto activation enabled", "reserved 1", "reserved 2", "reserved 3", "reserved 4", "reserved 5", "auto calibration supported", "auto calibration recovery supported"],
    members := [],
    types := [] },
  { key := "dali.gear.colour:QueryRBGWAFControlResponse", cat := .bitmap, expected := true, errorAcceptable := false, pinned := false,
    bits := ["channel 0 red", "channel 1 green", "channel 2 blue", "channel 3 white", "channel 4 amber", "channel 5 freecolour", "control type bit 0", "control type bit 1"],
    members := [],
    types := [] },
  { key := "dali.gear.converter:OutputLevelResponse", cat := .numeric, expected := true, errorAcceptable := false, pinned := false,
    bits := [],
    members := [],
    types := [] },
  { key := "dali.gear.converter:QueryConverterFeaturesResponse", cat := .bitmap, expected := true, errorAcceptable := false, pinned := true,
    bits := ["0V - 10V output selectable", "internal pull-up selectable", "detection of output fault selectable", "mains relay", "output level can be queried", "non-logarithmic dimming curve supported", "physical selection / lamp fail detection by loss out output supported", "physical selection switch supported"],
    members := [],
    types := [] },
  { key := "dali.gear.converter:QueryConverterStatusResponse", cat := .bitmap, expected := true, errorAcceptable := false, pinned := true,
    bits := ["0-10V operation", "internal pull-up on", "non-logarithmic dimming curve active"],
    members := [],
    types := [] },
  { key := "dali.gear.converter:QueryFailureStatusResponse", cat := .bitmap, expected := true, errorAcceptable := false, pinned := true,
    bits := ["output fault detected"],
    members := [],
    types := [] },
  { key := "dali.gear.emergency:QueryEmergencyFailureStatusResponse", cat := .bitmap, expected := true, errorAcceptable := false, pinned := false,
    bits := ["circuit failure", "battery duration failure", "battery failure", "emergency lamp failure", "function test max delay exceeded", "duration test max delay exceeded", "function test failed", "duration test failed"],
    members := [],
    types := [] },
  { key := "dali.gear.emergency:QueryEmergencyFeaturesResponse", cat := .bitmap, expected := true, errorAcceptable := false, pinned := false,
    bits := ["integral emergency control gear", "maintained control gear", "switched maintained control gear", "auto test capability", "adjustable emergency level", "hardwired inhibit supported", "physical selection supported", "re-light in rest mode supported"],
    members := [],
    types := [] },
  { key := "dali.gear.emergency:QueryEmergencyModeResponse", cat := .bitmap, expected := true, errorAcceptable := false, pinned := false,
    bits := ["rest mode", "normal mode", "emergency mode", "extended emergency mode", "function test", "duration test", "hardwired inhibit active", "hardwired switch on"],
    members := [],
    types := [] },
  { key := "dali.gear.emergency:QueryEmergencyStatusResponse", cat := .bitmap, expected := true, errorAcceptable := false, pinned := false,
    bits := ["inhibit mode", "function test done and result valid", "duration test done and result valid", "battery fully charged", "function test pending", "duration test pending", "identification active", "physically selected"],
    members := [],
    types := [] },
  { key := "dali.gear.general:QueryDeviceTypeResponse", cat := .generic, expected := false, errorAcceptable := false, pinned := false,
    bits := [],
    members := [],
    types := [(0, "fluorescent lamp"), (1, "emergency lighting"), (2, "HID lamp"), (3, "low voltage halogen lamp"), (4, "incandescent lamp dimmer"), (5, "dc-controlled dimmer"), (6, "LED lamp"), (7, "Switching function"), (8, "Colour control"), (254, "none / end"), (255, "multiple")] },
  { key := "dali.gear.general:QueryFadeTimeAndRateResponse", cat := .numeric, expected := true, errorAcceptable := false, pinned := false,
    bits := [],
    members := [],
    types := [] },
  { key := "dali.gear.general:QueryStatusResponse", cat := .bitmap, expected := true, errorAcceptable := false, pinned := false,
    bits := ["ballast status", "lamp failure", "arc power on", "limit error", "fade ready", "reset state", "missing short address", "power failure"],
    members := [],
    types := [] },
  { key := "dali.gear.incandescent:DimmerStatusResponse", cat := .bitmap, expected := true, errorAcceptable := false, pinned := true,
    bits := ["leading edge mode running", "trailing edge mode running", "reference measurement running", "", "non-logarithmic dimming curve active"],
    members := [],
    types := [] },
  { key := "dali.gear.incandescent:FailureStatusByte1Response", cat := .bitmap, expected := true, errorAcceptable := false, pinned := true,
    bits := ["load over-current shutdown", "open circuit detected", "load decrease detected", "load increase detected", "", "thermal shutdown", "thermal overload with output level reduction", "reference measurement failed"],
    members := [],
    types := [] },
  { key := "dali.gear.incandescent:FeaturesByte1Response", cat := .bitmap, expected := true, errorAcceptable := false, pinned := true,
    bits := ["load over-current shutdown can be queried", "open circuit detection can be queried", "detection of load decrease can be queried", "detection of load increase can be queried", "", "thermal shutdown can be queried", "thermal overload with output level reduction can be queried", "physical selection supported"],
    members := [],
    types := [] },
  { key := "dali.gear.incandescent:VoltageResponse", cat := .generic, expected := false, errorAcceptable := false, pinned := false,
    bits := [],
    members := [],
    types := [] },
  { key := "dali.gear.led:FastFadeTimeResponse", cat := .numeric, expected := true, errorAcceptable := false, pinned := false,
    bits := [],
    members := [],
    types := [] },
  { key := "dali.gear.led:LEDFailureStatusResponse", cat := .bitmap, expected := true, errorAcceptable := false, pinned := false,
    bits := ["short circuit", "open circuit", "load decrease", "load increase", "current protector active", "thermal shut down", "thermal overload with light level reduction", "reference measurement failed"],
    members := [],
    types := [] },
  { key := "dali.gear.led:LEDFeaturesResponse", cat := .bitmap, expected := true, errorAcceptable := false, pinned := false,
    bits := ["short circuit detection can be queried", "open circuit detection can be queried", "detection of load decrease can be queried", "detection of load increase can be queried", "current protector is implemented and can be queried", "thermal shut down can be queried", "light level reduction due to over temperature can be queried", "physical selection supported"],
    members := [],
    types := [] },
  { key := "dali.gear.led:LEDGearTypeResponse", cat := .bitmap, expected := true, errorAcceptable := false, pinned := false,
    bits := ["LED power supply integrated", "LED module integrated", "a.c. supply possible", "d.c. supply possible"],
    members := [],
    types := [] },
  { key := "dali.gear.led:LEDOperatingModeResponse", cat := .bitmap, expected := true, errorAcceptable := false, pinned := false,
    bits := ["PWM mode active", "AM mode active", "output is current controlled", "high current pulse mode is active", "non-logarithmic dimming curve active"],
    members := [],
    types := [] },
  { key := "dali.gear.led:LEDOperatingModesResponse", cat := .bitmap, expected := true, errorAcceptable := false, pinned := false,
    bits := ["PWM mode is possible", "AM mode is possible", "output is current controlled", "high current pulse mode"],
    members := [],
    types := [] }
]

end DaliVerif.Spec.Resp
