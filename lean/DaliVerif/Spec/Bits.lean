import DaliVerif.Model.Frame
/-!
# Reference model for C05: a frame is a fixed-length list of bits

Index `i` of the list is bit `i` of the frame (least significant first).
Every operation is written position-wise on the list; nothing here shifts or
masks.  Operand validation states the documented rule (range of an index,
range of a written value, integer-ness, no step) rather than the order of
checks in the implementation.
-/
namespace DaliVerif.Spec

abbrev Bits := List Bool

namespace Bits

def toNat : Bits → Nat
  | [] => 0
  | b :: r => (if b then 1 else 0) + 2 * toNat r

def ofNat (w n : Nat) : Bits := (List.range w).map n.testBit

/-- a valid bit index: an integer in `0 .. w-1` -/
def indexOf (w : Nat) (k : PyVal) : PyRes Nat :=
  match k.asInt? with
  | none => .error .TypeError
  | some i => if 0 ≤ i ∧ i < (w : Int) then .ok i.toNat else .error .IndexError

/-- a valid slice: both ends integers in `0 .. w-1` (either order), no step -/
def sliceOf (w : Nat) (a b s : PyVal) : PyRes (Nat × Nat) :=
  match a.asInt?, b.asInt? with
  | some a, some b =>
    if ¬ (s = .none ∨ s.eqOne = true) then .error .TypeError
    else if 0 ≤ a ∧ a < (w : Int) ∧ 0 ≤ b ∧ b < (w : Int)
      then .ok ((max a b).toNat, (min a b).toNat)
      else .error .IndexError
  | _, _ => .error .TypeError

/-- a value that fits `n` bits: an integer in `0 .. 2^n - 1` -/
def valueOf (n : Nat) (v : PyVal) : PyRes Nat :=
  match v.asInt? with
  | none => .error .TypeError
  | some i => if 0 ≤ i ∧ i < (2 ^ n : Int) then .ok i.toNat else .error .ValueError

inductive Op where
  | getItem (k : Frame.Key)
  | setItem (k : Frame.Key) (v : PyVal)
  | contains (v : PyVal)
  | add (g : Option Bits)
  | eq (g : Option Bits)
  | ne (g : Option Bits)

inductive Out where
  | unit
  | bit (b : Bool)
  | num (n : Nat)
  | frame (l : Bits)
  deriving DecidableEq

/-- one operation on the reference model: new contents and the result -/
def apply (l : Bits) : Op → PyRes (Bits × Out)
  | .getItem (.idx k) => do
      let i ← indexOf l.length k
      pure (l, .bit (l.getD i false))
  | .getItem (.slice a b s) => do
      let (hi, lo) ← sliceOf l.length a b s
      pure (l, .num (toNat ((l.drop lo).take (hi + 1 - lo))))
  | .setItem (.idx k) v => do
      let i ← indexOf l.length k
      pure (l.set i v.truthy, .unit)
  | .setItem (.slice a b s) v => do
      let (hi, lo) ← sliceOf l.length a b s
      let x ← valueOf (hi + 1 - lo) v
      pure (l.mapIdx (fun j old => if lo ≤ j ∧ j ≤ hi then x.testBit (j - lo) else old), .unit)
  | .contains (.bool b) => pure (l, .bit (l.contains b))
  | .contains _ => pure (l, .bit false)
  | .add none => .error .TypeError
  | .add (some g) => pure (l, .frame (g ++ l))
  | .eq none => pure (l, .bit false)
  | .eq (some g) => pure (l, .bit (decide (l = g)))
  | .ne none => pure (l, .bit true)
  | .ne (some g) => pure (l, .bit (decide (l ≠ g)))

/-- a history on the reference model: an operation that raises changes nothing -/
def run (l : Bits) : List Op → Bits × List (PyRes Out)
  | [] => (l, [])
  | op :: ops =>
    match apply l op with
    | .ok (l', o) => let (g, os) := run l' ops; (g, .ok o :: os)
    | .error e => let (g, os) := run l ops; (g, .error e :: os)

end Bits
end DaliVerif.Spec

namespace DaliVerif.Frame
open DaliVerif.Spec

/-- the invariant of every reachable frame -/
def Inv (f : Frame) : Prop := 1 ≤ f.bits ∧ f.data < 2 ^ f.bits

/-- abstraction: the list of the frame's bits, least significant first -/
def abs (f : Frame) : Bits := Bits.ofNat f.bits f.data

def absOp : Frame.Op → Bits.Op
  | .getItem k => .getItem k
  | .setItem k v => .setItem k v
  | .contains v => .contains v
  | .add g => .add (g.map abs)
  | .eq g => .eq (g.map abs)
  | .ne g => .ne (g.map abs)

def absOut : Frame.Out → Bits.Out
  | .unit => .unit
  | .bit b => .bit b
  | .num n => .num n
  | .frame f => .frame (abs f)

def absRes : PyRes (Frame × Frame.Out) → PyRes (Bits × Bits.Out)
  | .ok (f, o) => .ok (abs f, absOut o)
  | .error e => .error e

end DaliVerif.Frame
