import DaliVerif.Model.CmdTypes
/-!
# Event messages as IEC 62386-103 Table 3 and parts 301/303/304 define them

Written by arithmetic on the 24-bit number (no slicing code shared with the
model): bit 16 = 0 marks an event; bits 23, 22, 15 select the scheme; the
five-bit fields sit at 21..17 (22..17 for a short address) and 14..10; the
event information is the low ten bits.
-/
namespace DaliVerif.Spec
open DaliVerif.Cmd

/-- the source fields an event frame carries; `none` = the scheme does not carry it -/
structure EventFields where
  shortAddress : Option Nat
  instanceNumber : Option Nat
  deviceGroup : Option Nat
  instanceGroup : Option Nat
  /-- instance type, when the frame itself carries it -/
  instanceType : Option Nat
  info : Nat
  deriving DecidableEq, Repr

/-- Table 3: `none` when the frame is not an event message -/
def eventFields (d : Nat) : Option EventFields :=
  let b16 := d / 65536 % 2
  let b23 := d / 8388608 % 2
  let b22 := d / 4194304 % 2
  let b15 := d / 32768 % 2
  let hi5 := d / 131072 % 32
  let hi6 := d / 131072 % 64
  let lo5 := d / 1024 % 32
  let info := d % 1024
  if b16 = 1 then none
  else if b23 = 0 ∧ b15 = 0 then some ⟨some hi6, none, none, none, some lo5, info⟩       -- device
  else if b23 = 0 ∧ b15 = 1 then some ⟨some hi6, some lo5, none, none, none, info⟩       -- device/instance
  else if b22 = 0 ∧ b15 = 0 then some ⟨none, none, some hi5, none, some lo5, info⟩       -- device group
  else if b22 = 0 ∧ b15 = 1 then some ⟨none, some lo5, none, none, some hi5, info⟩       -- instance
  else if b22 = 1 ∧ b15 = 0 then some ⟨none, none, none, some hi5, some lo5, info⟩       -- instance group
  else none                                                                              -- 11x…1: reserved

/-- Table 3 the other way round: the frame an event with these source fields,
instance type and ten information bits has (`none` for a combination of
fields no scheme carries or a field out of range) -/
def eventFrame (sa inum dg ig : Option Nat) (itype info : Nat) : Option Nat :=
  if info ≥ 1024 ∨ itype ≥ 32 then none else
  match sa, inum, dg, ig with
  | some sa, none, none, none => if sa < 64 then some (sa * 131072 + itype * 1024 + info) else none
  | some sa, some n, none, none =>
      if sa < 64 ∧ n < 32 then some (sa * 131072 + 32768 + n * 1024 + info) else none
  | none, none, some g, none => if g < 32 then some (8388608 + g * 131072 + itype * 1024 + info) else none
  | none, some n, none, none =>
      if n < 32 then some (8388608 + itype * 131072 + 32768 + n * 1024 + info) else none
  | none, none, none, some g =>
      if g < 32 then some (8388608 + 4194304 + g * 131072 + itype * 1024 + info) else none
  | _, _, _, _ => none

/-- what the ten bits of event information mean for an instance type -/
inductive EventMeaning where
  | pushbutton (name : String)
  | occupancy (movement occupied rep sensorMovement : Bool)
  | illuminance (level : Nat)
  | unknown (info : Nat)
  deriving DecidableEq, Repr

/-- part 301 Table 2 -/
def pushbuttonNames : List (Nat × String) :=
  [(0, "ButtonReleased"), (1, "ButtonPressed"), (2, "ShortPress"), (5, "DoublePress"),
   (9, "LongPressStart"), (11, "LongPressRepeat"), (12, "LongPressStop"), (14, "ButtonFree"),
   (15, "ButtonStuck")]

/-- parts 301 (push buttons, type 1), 303 (occupancy, type 3), 304 (light, type 4) -/
def eventMeaning (itype : Int) (info : Nat) : EventMeaning :=
  if itype = 1 then
    match pushbuttonNames.find? (fun e => e.1 == info) with
    | some e => .pushbutton e.2
    | none => .unknown info
  else if itype = 3 then
    if info < 16 then .occupancy (info % 2 = 1) (info / 2 % 2 = 1) (info / 4 % 2 = 1) (info / 8 % 2 = 1)
    else .unknown info
  else if itype = 4 then .illuminance info
  else .unknown info

/-- what a decoded event object reports (the Python properties `short_address`,
`instance_number`, `device_group`, `instance_group`, `instance_type` and the
event data) -/
structure EventObs where
  shortAddress : Option Nat
  instanceNumber : Option Nat
  deviceGroup : Option Nat
  instanceGroup : Option Nat
  /-- `None` for an ambiguous event -/
  instanceType : Option Int
  meaning : EventMeaning
  deriving DecidableEq, Repr

def obsOfSrc (t : Option Int) (mng : EventMeaning) : EventSrc → EventObs
  | .device sa => ⟨some sa, none, none, none, t, mng⟩
  | .deviceInstance sa inum => ⟨some sa, some inum, none, none, t, mng⟩
  | .deviceGroup g => ⟨none, none, some g, none, t, mng⟩
  | .inst inum => ⟨none, some inum, none, none, t, mng⟩
  | .instanceGroup g => ⟨none, none, none, some g, t, mng⟩

/-- observation of a decoded object; `none` when it is not an event object -/
def observe : Cmd → Option EventObs
  | .event _ t src body =>
      some (obsOfSrc (some t) (match body with
        | .pushbutton pc => .pushbutton pc.base
        | .occupancy a b c d => .occupancy a b c d
        | .light v => .illuminance v
        | .unknown x => .unknown x) src)
  | .unknownEvent t src data => some (obsOfSrc (some t) (.unknown data) src)
  | .ambiguous sa inum data => some ⟨some sa, some inum, none, none, none, .unknown data⟩
  | _ => none

/-- **the specification**: what decoding an event frame must report, given the
frame and the instance-type map (Table 3 + the instance type's part 3xx) -/
def expectedObs (d : Nat) (m : Option InstMap) : Option EventObs :=
  match eventFields d with
  | none => none
  | some F =>
    let t : Option Int :=
      match F.instanceType with
      | some t => some (t : Int)
      | none =>
        match F.shortAddress, F.instanceNumber, m with
        | some sa, some inum, some m => m.getType sa inum
        | _, _, _ => none
    some ⟨F.shortAddress, F.instanceNumber, F.deviceGroup, F.instanceGroup, t,
      match t with
      | some t => eventMeaning t F.info
      | none => .unknown F.info⟩

/-- the instance-type registry the standard's parts 301/303/304 imply -/
def instanceTypeKinds : List (Nat × EventKind) :=
  [(1, .pushbutton), (3, .occupancy), (4, .light)]

/-- the regenerated event registries are the standard's -/
def EventTablesOK (T : Tables) : Prop :=
  T.instanceTypes.map (fun e => (e.1, e.2.kind)) = instanceTypeKinds ∧
  T.pushEvents.map (fun e => (e.1, e.2.base)) = pushbuttonNames

instance (T : Tables) : Decidable (EventTablesOK T) := by unfold EventTablesOK; infer_instance

end DaliVerif.Spec
