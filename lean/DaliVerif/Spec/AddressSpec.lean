import DaliVerif.Model.Address
/-!
# The standard's partition of the address byte and of the instance byte

Written from IEC 62386-102 §7.2 (`0AAAAAAS` short, `100AAAAS` group,
`1111110S` broadcast unaddressed, `1111111S` broadcast, everything else is
not an address), IEC 62386-103 §7.2.1.2 (same upper bits for devices but five
group bits `10GGGGGS`, only in command frames, i.e. bit 16 = 1) and
§7.2.1.3 Table 2 (instance byte) — by *ranges of the byte value*, sharing no
slicing code with the model.
-/
namespace DaliVerif.Spec

/-- 16-bit frames: `b` is the 7-bit field above the selector bit (bits 15..9) -/
def gearPartition (b : Nat) : Option Addr :=
  if b < 64 then some (.gearShort b)
  else if b < 80 then some (.gearGroup (b - 64))
  else if b = 126 then some .gearUnaddressed
  else if b = 127 then some .gearBroadcast
  else none

/-- 24-bit frames: `cmd` is bit 16 (1 = command frame), `b` is bits 23..17 -/
def devicePartition (cmd : Bool) (b : Nat) : Option Addr :=
  if !cmd then none
  else if b < 64 then some (.deviceShort b)
  else if b < 96 then some (.deviceGroup (b - 64))
  else if b = 126 then some .deviceUnaddressed
  else if b = 127 then some .deviceBroadcast
  else none

/-- the address a frame carries according to the standard -/
def partition (f : Frame) : Option Addr :=
  if f.bits = 16 then gearPartition (f.data / 512 % 128)
  else if f.bits = 24 then devicePartition (f.data / 65536 % 2 = 1) (f.data / 131072 % 128)
  else none

/-- instance byte, Table 2 of part 103 -/
def instOfByte (b : Nat) : Inst :=
  if b < 32 then .number b
  else if b < 64 then .featNumber (b - 32)
  else if b < 96 then .reserved b
  else if b < 128 then .featType (b - 96)
  else if b < 160 then .group (b - 128)
  else if b < 192 then .featGroup (b - 160)
  else if b < 224 then .type (b - 192)
  else if b < 252 then .reserved b
  else if b = 252 then .featDevice
  else if b = 253 then .featBroadcast
  else if b = 254 then .device
  else .broadcast

/-- the bit positions an address of this kind occupies in its frame -/
def addrField (a : Addr) (i : Nat) : Prop :=
  if a.isGear then 9 ≤ i ∧ i ≤ 15 else 17 ≤ i ∧ i ≤ 23

/-- all registered concrete address kinds -/
def concreteKinds : List AddrKind :=
  [.gearBroadcast, .deviceBroadcast, .gearUnaddressed, .deviceUnaddressed,
   .gearGroup, .deviceGroup, .gearShort, .deviceShort]

/-- the decidable well-formedness condition on the regenerated `_addrtypes` order -/
def OrderOK (order : List AddrKind) : Prop := ∀ k ∈ concreteKinds, k ∈ order

instance (order : List AddrKind) : Decidable (OrderOK order) := by
  unfold OrderOK; infer_instance

end DaliVerif.Spec

namespace DaliVerif.Addr

/-- the 7-bit address field of an address object: `0AAAAAA` short, `100GGGG` /
`10GGGGG` group, `1111110` broadcast unaddressed, `1111111` broadcast -/
def addrByte : Addr → Nat
  | .gearBroadcast | .deviceBroadcast => 127
  | .gearUnaddressed | .deviceUnaddressed => 126
  | .gearGroup g | .deviceGroup g => 64 + g
  | .gearShort s | .deviceShort s => s

end DaliVerif.Addr
