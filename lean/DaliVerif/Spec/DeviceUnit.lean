import DaliVerif.Model.DevMemProg
/-!
# Specification unit: a bus of IEC 62386-103 control devices (C13)

Written from the standard as summarised in DESIGN.md Appendix A, *not* from
`dali/tests/fakes.py`.  A bus maps each short address to at most one control
device (so answers never collide; collisions are covered by the fault
theorems, which hold for any responder).

* DTR0/1/2 are special commands: every device takes them.
* Instance commands address (short address, instance number); a device that
  does not exist, or an instance number ≥ the number of instances, gives
  silence and changes nothing.
* SET EVENT SCHEME: `scheme := DTR0` if `DTR0 ≤ 4`, else ignored.
* SET EVENT FILTER: `filter := DTR2:DTR1:DTR0` masked to the instance type's
  filter width (8, 16 or 24 bits).
* QUERY EVENT FILTER 0-7 / 8-15 / 16-23: the three bytes of the filter.
* QUERY INPUT VALUE: the N-bit value (N = resolution) is left-aligned in
  ⌈N/8⌉ bytes, the unused low bits are filled by repeating the value's most
  significant bits; the first byte is answered and the remaining bytes are
  latched; QUERY INPUT VALUE LATCH answers the latched bytes in turn (silence
  when none is left).  The measured value is a function of time (`value t`),
  which is what makes the latch observable.
* QUERY INSTANCE ENABLED: YES (0xFF) / silence.
* START / STOP QUIESCENT MODE (broadcast) set and clear `quiescent`.
-/
namespace DaliVerif.DevMem

/-- the first `k` bits of the infinite repetition of the `n`-bit pattern `v`
(`n ≥ 1`), as a number -/
def repBits (n v : Nat) : Nat → Nat
  | k => if h : k ≤ n ∨ n = 0 then v >>> (n - k) else (v <<< (k - n)) ||| repBits n v (k - n)
termination_by k => k
decreasing_by omega

/-- big-endian bytes, `len` of them (low `8·len` bits of `x`) -/
def bytesBE (x : Nat) : Nat → List Nat
  | 0 => []
  | len + 1 => (x >>> (8 * len)) % 256 :: bytesBE x len

/-- IEC 62386-103 §9.7.2: the bytes an `n`-bit input value is reported in -/
def inputBytes (n v : Nat) : List Nat :=
  let nb := (n + 7) / 8
  bytesBE (repBits n v (8 * nb)) nb

structure Instance where
  itype : Nat
  enabled : Bool
  scheme : Nat
  filter : Nat
  /-- width in bits of this instance type's event filter: 8, 16 or 24 -/
  filterWidth : Nat
  resolution : Nat
  /-- the measured value at time `t` (environment), `< 2^resolution` -/
  value : Nat → Nat
  latch : List Nat

structure Device where
  status : Nat
  instances : List Instance
  dtr0 : Nat
  dtr1 : Nat
  dtr2 : Nat

structure Bus where
  clock : Nat
  devs : Nat → Option Device
  quiescent : Bool

namespace Bus

def mapDevs (b : Bus) (f : Device → Device) : Bus :=
  { b with devs := fun a => (b.devs a).map f }

def inst? (b : Bus) (a i : Nat) : Option Instance :=
  match b.devs a with
  | some d => d.instances[i]?
  | none => none

def setInst (b : Bus) (a i : Nat) (x : Instance) : Bus :=
  { b with devs := fun a' =>
      if a' = a then (b.devs a).map (fun d => { d with instances := d.instances.set i x })
      else b.devs a' }

/-- query answered by instance (a, i) with a byte computed from device and instance -/
def instQuery (b : Bus) (a i : Nat) (f : Device → Instance → Resp) : Resp :=
  match b.devs a with
  | some d => match d.instances[i]? with
    | some x => f d x
    | none => .none
  | none => .none

/-- what the bus does with one forward frame (the clock ticks afterwards) -/
def exec (b : Bus) : Cmd → Resp × Bus
  | .dtr0 true v => (.none, b.mapDevs ({ · with dtr0 := v }))
  | .dtr1 true v => (.none, b.mapDevs ({ · with dtr1 := v }))
  | .dtr2 true v => (.none, b.mapDevs ({ · with dtr2 := v }))
  | .setEventScheme a i =>
    match b.devs a with
    | some d => match d.instances[i]? with
      | some x => (.none, if d.dtr0 ≤ 4 then b.setInst a i { x with scheme := d.dtr0 } else b)
      | none => (.none, b)
    | none => (.none, b)
  | .setEventFilter a i =>
    match b.devs a with
    | some d => match d.instances[i]? with
      | some x => (.none, b.setInst a i
          { x with filter := (d.dtr2 * 65536 + d.dtr1 * 256 + d.dtr0) % 2 ^ x.filterWidth })
      | none => (.none, b)
    | none => (.none, b)
  | .queryEventScheme a i => (b.instQuery a i (fun _ x => .byte x.scheme), b)
  | .queryEventFilterL a i => (b.instQuery a i (fun _ x => .byte (x.filter % 256)), b)
  | .queryEventFilterM a i => (b.instQuery a i (fun _ x => .byte (x.filter / 256 % 256)), b)
  | .queryEventFilterH a i => (b.instQuery a i (fun _ x => .byte (x.filter / 65536 % 256)), b)
  | .queryResolution a i => (b.instQuery a i (fun _ x => .byte x.resolution), b)
  | .queryInstanceType a i => (b.instQuery a i (fun _ x => .byte x.itype), b)
  | .queryInstanceEnabled a i =>
      (b.instQuery a i (fun _ x => if x.enabled then .byte 0xFF else .none), b)
  | .queryInputValue a i =>
    match b.devs a with
    | some d => match d.instances[i]? with
      | some x =>
        match inputBytes x.resolution (x.value b.clock) with
        | [] => (.none, b)
        | h :: t => (.byte h, b.setInst a i { x with latch := t })
      | none => (.none, b)
    | none => (.none, b)
  | .queryInputValueLatch a i =>
    match b.devs a with
    | some d => match d.instances[i]? with
      | some x =>
        match x.latch with
        | [] => (.none, b)
        | h :: t => (.byte h, b.setInst a i { x with latch := t })
      | none => (.none, b)
    | none => (.none, b)
  | .queryDeviceStatus a =>
    (match b.devs a with | some d => .byte d.status | none => .none, b)
  | .queryNumberOfInstances a =>
    (match b.devs a with | some d => .byte d.instances.length | none => .none, b)
  | .startQuiescentMode => (.none, { b with quiescent := true })
  | .stopQuiescentMode => (.none, { b with quiescent := false })
  -- 16-bit frames and memory commands: not for this bus / not modelled here
  | _ => (.none, b)

def step (b : Bus) (c : Cmd) : Resp × Bus :=
  ((b.exec c).1, { (b.exec c).2 with clock := b.clock + 1 })

end Bus

/-! ## what the discovery scan must record (statement side of `autodiscover_spec`) -/

/-- the log of `add_type` calls: ((short address, instance number), type), oldest first -/
abbrev TypeLog := List ((Nat × Nat) × Nat)

/-- what the scan must record for instances `i, i+1, …` given as a list -/
def instEntries (a : Nat) : List Instance → Nat → TypeLog
  | [], _ => []
  | x :: xs, i => (if x.enabled then [((a, i), x.itype)] else []) ++ instEntries a xs (i + 1)

/-- bit 2 "short address is MASK" or bit 6 "reset state" -/
def unhealthy (st : Nat) : Bool := st / 4 % 2 = 1 ∨ st / 64 % 2 = 1

def devEntries (D : Nat → Option Device) (a : Nat) : TypeLog :=
  match D a with
  | some d => if unhealthy d.status then [] else instEntries a d.instances 0
  | none => []

def expectedLog (D : Nat → Option Device) (addrs : List Nat) : TypeLog := addrs.flatMap (devEntries D)

/-- which keys the scan records, and with what type -/
def expectedType (D : Nat → Option Device) (addrs : List Nat) (a i : Nat) : Option Nat :=
  match D a with
  | some d =>
    if a ∈ addrs ∧ unhealthy d.status = false then
      match d.instances[i]? with
      | some x => if x.enabled then some x.itype else none
      | none => none
    else none
  | none => none

end DaliVerif.DevMem
