import DaliVerif.Model.MemValueTypes
/-!
# What C11 says a memory value means — the encodings of IEC 62386-102 §9.10.6
and DiiA parts 251/252/253, written from the documents' rules, not from the code

A `Row` places a value (bank, first location, width, access type per
location) and names its encoding `Kind` with its parameters.  `interpret` is
the reference interpretation of `width` raw bytes: a total function that
yields a value or one of the flags MASK / TMASK / Invalid.

* multi-byte numbers are big-endian, most significant byte at the lowest
  location (`be`, positional definition);
* MASK ("not implemented / unknown") is the all-ones pattern of the payload,
  TMASK ("temporarily unavailable") all-ones minus one; for values whose first
  byte is a power-of-ten scale the payload is what follows the scale byte and
  the scale byte must be −6..6 (two's complement) or the value is Invalid;
* a number outside the documented range is Invalid;
* fixed scaling multiplies by the documented factor, temperatures are stored
  with an offset of 60 °C, single-byte versions are `major << 2 | minor`
  (0xFF = not implemented), two-byte versions `major.minor`, flags are 0/1,
  strings are ASCII 0x01..0x7F terminated by NUL or by the end of the field.
-/
namespace DaliVerif.Spec.Mem
open DaliVerif DaliVerif.Mem

inductive Kind where
  /-- uninterpreted bytes -/
  | raw
  | number
  /-- number × integer factor -/
  | times (k : Int)
  /-- number × `mant · 10^exp` -/
  | decimal (mant exp : Int)
  /-- first byte: power of ten (signed), rest: number -/
  | unitScaled
  | text
  | flagBit
  | temperature (offset : Int)
  | version
  | cct
  | lightDist
  deriving DecidableEq, Repr

structure Row where
  /-- module-level name of the bank in the library (`info.BANK_0`, …) -/
  bank : String
  name : String
  first : Nat
  width : Nat
  /-- access type of each location, in order -/
  access : List MemType
  kind : Kind
  mask : Bool
  tmask : Bool
  min : Option Int
  max : Option Int
  /-- `true`: transcribed as found, I cannot vouch for it independently -/
  pinned : Bool
  deriving DecidableEq, Repr

structure BankRow where
  key : String
  address : Nat
  lastAddress : Option Nat
  hasLock : Bool
  hasLatch : Bool
  deriving DecidableEq, Repr

/-- big-endian value, positional -/
def be : List Nat → Nat
  | [] => 0
  | b :: rest => b * 256 ^ rest.length + be rest

def allOnes (n : Nat) : List Nat := List.replicate n 255

def allOnesMinusOne : Nat → List Nat
  | 0 => []
  | n + 1 => List.replicate n 255 ++ [254]

/-- a byte read as a two's-complement number -/
def signedByte (b : Nat) : Int := if 128 ≤ b then (b : Int) - 256 else b

def inRange (r : Row) (n : Int) : Bool :=
  (match r.min with | some m => decide (m ≤ n) | none => true) &&
  (match r.max with | some m => decide (n ≤ m) | none => true)

/-- the bytes before the first NUL -/
def cString : List Nat → List Nat
  | [] => []
  | b :: rest => if b = 0 then [] else b :: cString rest

def lightDistName (b : Nat) : String :=
  match b with
  | 0 => "not specified" | 1 => "Type I" | 2 => "Type II" | 3 => "Type III"
  | 4 => "Type IV" | 5 => "Type V" | _ => "reserved"

/-- the value of a payload that is neither MASK nor TMASK -/
def decode (r : Row) (raw : List Nat) : MVal :=
  let n : Int := be raw
  match r.kind with
  | .raw => .bytes raw
  | .number => if inRange r n then .int n else .flag .Invalid
  | .times k => if inRange r n then .int (k * n) else .flag .Invalid
  | .decimal m e => if inRange r n then .dec (m * n) e else .flag .Invalid
  | .unitScaled =>
    let p : Int := be raw.tail
    if inRange r p then .dec p (signedByte (raw.headD 0)) else .flag .Invalid
  | .text => if (cString raw).all (· < 128) then .ascii (cString raw) else .flag .Invalid
  | .flagBit =>
    if raw.headD 2 = 0 then .bool false else if raw.headD 2 = 1 then .bool true else .flag .Invalid
  | .temperature off => if inRange r n then .int (n - off) else .flag .Invalid
  | .version =>
    if !inRange r n then .flag .Invalid
    else if raw.length = 1 then
      (if n = 255 then .text "not implemented"
       else .text (toString (n / 4) ++ "." ++ toString (n % 4)))
    else .text (".".intercalate (raw.map toString))
  | .cct =>
    if raw = [255, 254] then .text "Part 209 implemented"
    else if inRange r n then .int n else .flag .Invalid
  | .lightDist => .text (lightDistName (raw.headD 0))

/-- the part of the raw bytes that carries MASK / TMASK -/
def payload (r : Row) (raw : List Nat) : List Nat :=
  match r.kind with
  | .unitScaled => raw.tail
  | _ => raw

/-- the scale byte (when there is one) is a power of ten in −6..6 -/
def scaleOK (r : Row) (raw : List Nat) : Bool :=
  match r.kind with
  | .unitScaled => !(decide (6 < raw.headD 0 ∧ raw.headD 0 < 250))
  | _ => true

/-- **the reference interpretation**: total, for any raw bytes -/
def interpret (r : Row) (raw : List Nat) : MVal :=
  if !scaleOK r raw then .flag .Invalid
  else if r.mask && payload r raw == allOnes (payload r raw).length then .flag .MASK
  else if r.tmask && payload r raw == allOnesMinusOne (payload r raw).length then .flag .TMASK
  else decode r raw

end DaliVerif.Spec.Mem
